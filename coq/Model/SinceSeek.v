(* Model of the since-date binary seek of searchkit/constraints.py, as the
   code is NOW: LogFileDateSinceSeeker.try_find_line_with_date, __getitem__,
   run (with bisect.bisect_left over the seeker) and
   SearchConstraintSearchSince.apply_to_file (without its per-path cache,
   which belongs to C08).

   Parameters: H = SEEK_HORIZON, A = MAX_SEEK_HORIZON_EXPAND,
   L = MAX_TRY_FIND_WITH_DATE_ATTEMPTS, W = MAX_DATETIME_READ_BYTES.
   The timestamp matcher is an ORACLE [tsw : bytes read -> option seconds]
   (constraint.extracted_datetime applied to the <= W bytes read at the start
   offset of a line); dates are compared as integers.

   Definitions only - no proofs here. *)
From Coq Require Import ZArith List Bool.
From SK Require Import Model.Base Model.Seek.
Import ListNotations.
Open Scope Z_scope.

(* a LogLine: (line_start_lf, line_end_lf) *)
Definition logline : Type := (tok * tok)%type.

Section SinceSeek.
  Variables (H A L W : Z).
  Variable tsw : list Z -> option Z.
  Variable c : list Z.

  (* LogLine.date *)
  Definition ll_date (l : logline) : option Z := logline_date tsw W c (fst l).
  (* LogLine.__len__ = (end_offset - start_offset) + 1; `not line` and
     `if line` go through __len__ (a negative value would raise ValueError;
     it cannot arise, see Proofs/SinceSeek.v [tfld_line_wf]) *)
  Definition ll_len (l : logline) : Z :=
    (end_offset (snd l) - start_offset (fst l)) + 1.
  Definition ll_truthy (l : logline) : bool := negb (ll_len l =? 0).
  Definition ll_start (l : logline) : Z := start_offset (fst l).

  (* try_find_line_with_date(start_offset, line_feed_offset, forwards):
       attempts = L; offset = start_offset
       while attempts > 0:
           attempts -= 1
           log_line = try_find_line(offset, (None, lfo)[forwards],
                                            (None, lfo)[not forwards])
           if log_line.date: return log_line
           lfo = (log_line.start_lf, log_line.end_lf)[forwards].offset
           offset = lfo + (-1, +1)[forwards]
           if offset < 0 or offset > len(self): break
       return None *)
  Inductive wd_res : Type :=
  | WdLine (l : logline)
  | WdNone
  | WdErr            (* MaxSearchableLineLengthReached *)
  | WdAssert.        (* AssertionError inside try_find_line *)

  Fixpoint tfld (attempts : nat) (offset : Z) (lfo : option Z)
           (forwards : bool) : wd_res :=
    match attempts with
    | O => WdNone
    | S a =>
        match try_find_line H A c offset
                (if forwards then lfo else None)
                (if forwards then None else lfo) with
        | LineErr => WdErr
        | LineAssert => WdAssert
        | Line s e =>
            match ll_date (s, e) with
            | Some _ => WdLine (s, e)
            | None =>
                let lfo' := tok_off (if forwards then e else s) in
                let offset' := lfo' + (if forwards then 1 else -1) in
                if (offset' <? 0) || (lenZ c <? offset') then WdNone
                else tfld a offset' (Some lfo') forwards
            end
        end
    end.

  Definition try_find_line_with_date (offset : Z) (lfo : option Z)
             (forwards : bool) : wd_res :=
    tfld (Z.to_nat L) offset lfo forwards.

  (* the seeker's mutable attributes: found_any_date, line_info *)
  Definition state : Type := (bool * option logline)%type.
  Definition st0 : state := (false, None).

  (* `not result or result.date is None` *)
  Definition wd_unusable (r : wd_res) : bool :=
    match r with
    | WdLine l => negb (ll_truthy l) ||
                  match ll_date l with Some _ => false | None => true end
    | _ => true
    end.

  (* __getitem__(offset) *)
  Inductive gi_res : Type :=
  | GiDate (d : Z) (st : state)
  | GiTooMany           (* raise TooManyLinesWithoutDate *)
  | GiErr               (* MaxSearchableLineLengthReached *)
  | GiAssert.

  Definition getitem (since : Z) (st : state) (offset : Z) : gi_res :=
    match try_find_line_with_date offset None false with
    | WdErr => GiErr
    | WdAssert => GiAssert
    | r1 =>
        let r2 := if wd_unusable r1
                  then try_find_line_with_date (offset + 1) None true
                  else r1 in
        match r2 with
        | WdErr => GiErr
        | WdAssert => GiAssert
        | WdNone => GiTooMany
        | WdLine l =>
            if wd_unusable r2 then GiTooMany
            else match ll_date l with
                 | None => GiTooMany
                 | Some d =>
                     GiDate d (true, if since <=? d then Some l else snd st)
                 end
        end
    end.

  (* bisect.bisect_left(self, since_date):
       lo = 0; hi = len(self)
       while lo < hi:
           mid = (lo + hi) // 2
           if self[mid] < since: lo = mid + 1
           else: hi = mid
     [fuel] only makes the recursion structural; S (hi - lo) is always enough
     (Proofs/Bisect.v), BsFuel is never returned by [run]. *)
  Inductive bs_res : Type :=
  | BsDone (lo : Z) (st : state)
  | BsTooMany (st : state)
  | BsErr
  | BsAssert
  | BsFuel.

  Fixpoint bisect (fuel : nat) (since : Z) (st : state) (lo hi : Z) : bs_res :=
    match fuel with
    | O => BsFuel
    | S f =>
        if lo <? hi then
          let mid := (lo + hi) / 2 in
          match getitem since st mid with
          | GiDate d st' =>
              if d <? since then bisect f since st' (mid + 1) hi
              else bisect f since st' lo mid
          | GiTooMany => BsTooMany st
          | GiErr => BsErr
          | GiAssert => BsAssert
          end
        else BsDone lo st
    end.

  (* run(): returns the new offset or raises *)
  Inductive outcome : Type :=
  | OkPos (p : Z)
  | NoTimestampsFoundInFile
  | NoValidLinesFoundInFile
  | TooManyLinesWithoutDate
  | MaxSearchableLineLengthReached
  | AssertionFailed          (* escapes apply_to_file; never happens *)
  | FuelExhausted.           (* artefact of the model; never happens *)

  (* [pos0] = file position when apply_to_file is entered (0 for a file that
     has just been opened) *)
  Definition run (since pos0 : Z) : outcome :=
    (* "checking last line" *)
    match try_find_line_with_date (lenZ c) None false with
    | WdErr => MaxSearchableLineLengthReached
    | WdAssert => AssertionFailed
    | r =>
        if match r with
           | WdLine l => ll_truthy l &&
                         match ll_date l with Some _ => false | None => true end
           | _ => false
           end
        then NoValidLinesFoundInFile
        else
          (* "checking first line": LogLine(file, FOUND -1, FOUND 100).date
             reads W bytes at start_offset = -1 + 1 = 0 *)
          let first := match logline_date tsw W c (Found (-1)) with
                       | Some d => since <=? d
                       | None => false
                       end in
          if first then OkPos pos0
          else
            match bisect (S (Z.to_nat (lenZ c))) since st0 0 (lenZ c) with
            | BsTooMany st => if fst st then TooManyLinesWithoutDate
                              else NoTimestampsFoundInFile
            | BsErr => MaxSearchableLineLengthReached
            | BsAssert => AssertionFailed
            | BsFuel => FuelExhausted
            | BsDone _ st =>
                match snd st with
                | Some l => if ll_truthy l then OkPos (ll_start l)
                            else NoValidLinesFoundInFile
                | None => NoValidLinesFoundInFile
                end
            end
    end.

  (* apply_to_file(fd) on a fresh constraint (no cached offset, destructive):
     final file position and return value; None = an exception escaped *)
  Definition position_of (o : outcome) : option Z :=
    match o with
    | OkPos p => Some p                           (* fd.seek(new_offset)   *)
    | NoTimestampsFoundInFile => Some 0           (* fd.seek(0)            *)
    | NoValidLinesFoundInFile => Some (lenZ c)    (* fd.seek(0, 2)         *)
    | TooManyLinesWithoutDate => Some 0           (* fd.seek(0)            *)
    | MaxSearchableLineLengthReached => Some (lenZ c)   (* fd.seek(0, 2)   *)
    | AssertionFailed | FuelExhausted => None
    end.

  Definition apply_to_file (since pos0 : Z) : option Z :=
    position_of (run since pos0).

  (* apply_to_file(fd, destructive=False): a successful search seeks back to
     where the file was (fd.seek(orig_offset)); the four give-up handlers seek
     exactly as in the destructive case *)
  Definition position_of_nd (pos0 : Z) (o : outcome) : option Z :=
    match o with
    | OkPos _ => Some pos0
    | _ => position_of o
    end.
  Definition apply_to_file_nd (since pos0 : Z) : option Z :=
    position_of_nd pos0 (run since pos0).

  (* the value apply_to_file returns: the position, except that a new offset
     equal to the file length is reported as None *)
  Definition retval_of (o : outcome) : option (option Z) :=
    match o with
    | OkPos p => Some (if p =? lenZ c then None else Some p)
    | _ => match position_of o with Some p => Some (Some p) | None => None end
    end.
  Definition apply_to_file_retval (since pos0 : Z) : option (option Z) :=
    retval_of (run since pos0).
End SinceSeek.

(* codes used by the harness *)
Definition jv_outcome (o : outcome) : jv :=
  match o with
  | OkPos p => JL [JZ 0; JZ p]
  | NoTimestampsFoundInFile => JL [JZ 1]
  | NoValidLinesFoundInFile => JL [JZ 2]
  | TooManyLinesWithoutDate => JL [JZ 3]
  | MaxSearchableLineLengthReached => JL [JZ 4]
  | AssertionFailed => JL [JZ 5]
  | FuelExhausted => JL [JZ 6]
  end.
