(* Model of searchkit/constraints.py: LogFileDateSinceSeeker.find_token,
   find_token_reverse, try_find_line and LogLine.start_offset/end_offset,
   as the code is NOW (with the `read_offset == 0` stop of find_token_reverse
   and the short-read / clipped-window end-of-file tests of commit 19d446e;
   the loops before that commit are kept below as legacy_* variants).

   Parameters: H = SEEK_HORIZON (> 0), A = MAX_SEEK_HORIZON_EXPAND (> 0).
   A file is [content : list Z]; only the byte 10 (LF) is interpreted.
   `file.seek(off); file.read(n)`  =  firstn n (skipn off content)
   (Python returns fewer bytes at end of file and b'' at or past it).

   Definitions only - no proofs here. *)
From Coq Require Import ZArith List Bool.
From SK Require Import Model.Base.
Import ListNotations.
Open Scope Z_scope.

(* SearchState(status, offset), or the exception MaxSearchableLineLengthReached *)
Inductive tok : Type :=
| Found (o : Z)          (* FindTokenStatus.FOUND, offset of the line feed *)
| ReachedEof (o : Z)     (* FindTokenStatus.REACHED_EOF (0 or len)         *)
| ErrMaxLine.            (* raise MaxSearchableLineLengthReached           *)

Definition tok_found (t : tok) : bool :=
  match t with Found _ => true | _ => false end.
Definition tok_off (t : tok) : Z :=
  match t with Found o => o | ReachedEof o => o | ErrMaxLine => 0 end.

(* f.seek(off); f.read(n).  Only called with off >= 0 and n >= 0 for
   offsets inside the file (negative seeks raise and read(-1) reads to the
   end in Python; neither is reachable for 0 <= offset <= len, see
   Proofs/Seek.v [ftr_window]). *)
Definition read (c : list Z) (off n : Z) : list Z :=
  firstn (Z.to_nat n) (skipn (Z.to_nat off) c).

(* chunk.find(b'\n') : index of the first LF *)
Fixpoint find_lf (l : list Z) : option Z :=
  match l with
  | [] => None
  | x :: r => if x =? 10 then Some 0
              else match find_lf r with Some i => Some (i + 1) | None => None end
  end.

(* chunk.rfind(b'\n') : index of the last LF *)
Fixpoint rfind_lf (l : list Z) : option Z :=
  match l with
  | [] => None
  | x :: r => match rfind_lf r with
              | Some i => Some (i + 1)
              | None => if x =? 10 then Some 0 else None
              end
  end.

(* find_token:
     attempts = A; current_offset = 0; seek(start)
     while attempts > 0:
         attempts -= 1
         chunk = read(H)                      # sequential: at start+current
         if not chunk: return REACHED_EOF, len
         i = chunk.find(LF)
         if i != -1: return FOUND, start + current_offset + i
         current_offset += len(chunk)
         if len(chunk) < H: return REACHED_EOF, len      # short read
     raise MaxSearchableLineLengthReached
   [attempts] = value of `attempts` when the loop condition is tested. *)
Fixpoint find_token_loop (H : Z) (c : list Z) (attempts : nat)
         (start cur : Z) : tok :=
  match attempts with
  | O => ErrMaxLine
  | S a =>
      let chunk := read c (start + cur) H in
      match chunk with
      | [] => ReachedEof (lenZ c)
      | _ => match find_lf chunk with
             | Some i => Found (start + cur + i)
             | None => if lenZ chunk <? H then ReachedEof (lenZ c)
                       else find_token_loop H c a start (cur + lenZ chunk)
             end
      end
  end.

Definition find_token (H A : Z) (c : list Z) (start : Z) : tok :=
  find_token_loop H c (Z.to_nat A) start 0.

(* find_token_reverse:
     attempts = A; current_offset = -H
     while True:
         attempts -= 1
         read_offset = max(start + current_offset, 0)      (written with a conditional)
         read_size = H
         if start + current_offset <= 0: read_size = H + (start + current_offset)
         seek(read_offset); chunk = read(read_size)
         if not chunk: return REACHED_EOF, 0
         i = chunk.rfind(LF)
         if i != -1: return FOUND, read_offset + i
         if read_size < H: return REACHED_EOF, 0            # clipped window
         if attempts <= 0: break
         current_offset -= len(chunk)
         if read_offset == 0: return REACHED_EOF, 0
     raise MaxSearchableLineLengthReached
   [attempts] = value of `attempts` at the top of the loop body (before the
   decrement); the model is entered with A > 0. *)
Fixpoint find_token_reverse_loop (H : Z) (c : list Z) (attempts : nat)
         (start cur : Z) : tok :=
  match attempts with
  | O => ErrMaxLine
  | S a =>
      let ro := if start + cur >? 0 then start + cur else 0 in
      let rs := if start + cur <=? 0 then H + (start + cur) else H in
      let chunk := read c ro rs in
      match chunk with
      | [] => ReachedEof 0
      | _ => match rfind_lf chunk with
             | Some i => Found (ro + i)
             | None =>
                 if rs <? H then ReachedEof 0
                 else match a with
                      | O => ErrMaxLine
                      | S _ => if ro =? 0 then ReachedEof 0
                               else find_token_reverse_loop H c a start
                                      (cur - lenZ chunk)
                      end
             end
      end
  end.

Definition find_token_reverse (H A : Z) (c : list Z) (start : Z) : tok :=
  find_token_reverse_loop H c (Z.to_nat A) start (- H).

(* LogLine.start_offset / end_offset (the same bodies are generated from the
   source as Gen.Exprs.logline_start_offset / logline_end_offset; Props/C11.v
   proves the agreement) *)
Definition start_offset (slf : tok) : Z :=
  if tok_found slf then tok_off slf + 1 else tok_off slf.
Definition end_offset (elf : tok) : Z :=
  if tok_found elf then tok_off elf - 1 else tok_off elf.

(* try_find_line(epicenter, slf_off=None, elf_off=None) *)
Inductive line_res : Type :=
| Line (slf elf : tok)   (* LogLine(line_start_lf, line_end_lf); no Err inside *)
| LineErr                (* MaxSearchableLineLengthReached *)
| LineAssert.            (* one of the five `assert`s failed (never, see
                            Proofs/Seek.v [try_find_line_spec]) *)

Definition try_find_line (H A : Z) (c : list Z) (epicenter : Z)
           (slf_off elf_off : option Z) : line_res :=
  let elf := match elf_off with
             | None => find_token H A c epicenter
             | Some e => Found e
             end in
  match elf with
  | ErrMaxLine => LineErr
  | _ =>
      let slf := match slf_off with
                 | None => find_token_reverse H A c epicenter
                 | Some s => Found s
                 end in
      match slf with
      | ErrMaxLine => LineErr
      | _ =>
          if (tok_off slf <=? lenZ c) && (0 <=? tok_off slf) &&
             (tok_off elf <=? lenZ c) && (0 <=? tok_off elf) &&
             (tok_off slf <=? tok_off elf)
          then Line slf elf else LineAssert
      end
  end.


(* ---- the loops BEFORE commit 19d446e (regression corpus) -----------------
   Without the short-read / clipped-window tests the forward scan needed one
   more attempt for the empty read and the backward scan never reported
   start-of-file on its last attempt: a first line or an unterminated last
   line only got (A-1)*H of the A*H budget (Proofs/SeekLegacy.v). *)
Fixpoint legacy_find_token_loop (H : Z) (c : list Z) (attempts : nat)
         (start cur : Z) : tok :=
  match attempts with
  | O => ErrMaxLine
  | S a =>
      let chunk := read c (start + cur) H in
      match chunk with
      | [] => ReachedEof (lenZ c)
      | _ => match find_lf chunk with
             | Some i => Found (start + cur + i)
             | None => legacy_find_token_loop H c a start (cur + lenZ chunk)
             end
      end
  end.
Definition legacy_find_token (H A : Z) (c : list Z) (start : Z) : tok :=
  legacy_find_token_loop H c (Z.to_nat A) start 0.

Fixpoint legacy_find_token_reverse_loop (H : Z) (c : list Z) (attempts : nat)
         (start cur : Z) : tok :=
  match attempts with
  | O => ErrMaxLine
  | S a =>
      let ro := if start + cur >? 0 then start + cur else 0 in
      let rs := if start + cur <=? 0 then H + (start + cur) else H in
      let chunk := read c ro rs in
      match chunk with
      | [] => ReachedEof 0
      | _ => match rfind_lf chunk with
             | Some i => Found (ro + i)
             | None =>
                 match a with
                 | O => ErrMaxLine
                 | S _ => if ro =? 0 then ReachedEof 0
                          else legacy_find_token_reverse_loop H c a start
                                 (cur - lenZ chunk)
                 end
             end
      end
  end.
Definition legacy_find_token_reverse (H A : Z) (c : list Z) (start : Z) : tok :=
  legacy_find_token_reverse_loop H c (Z.to_nat A) start (- H).

(* try_find_line(epicenter) of the old code, no known line feeds *)
Definition legacy_try_find_line (H A : Z) (c : list Z) (epicenter : Z)
  : option (tok * tok) :=
  match legacy_find_token H A c epicenter with
  | ErrMaxLine => None
  | elf => match legacy_find_token_reverse H A c epicenter with
           | ErrMaxLine => None
           | slf => Some (slf, elf)
           end
  end.

(* what the harness observes: (status, offset) pairs *)
Definition jv_tok (t : tok) : jv :=
  match t with
  | Found o => JL [JZ 1; JZ o]
  | ReachedEof o => JL [JZ 2; JZ o]
  | ErrMaxLine => JL [JZ 0]
  end.
Definition jv_line (r : line_res) : jv :=
  match r with
  | Line s e => JL [jv_tok s; jv_tok e; JZ (start_offset s); JZ (end_offset e)]
  | LineErr => JL [JZ 0]
  | LineAssert => JL [JZ (-1)]
  end.

(* LogLine.date: _read_line(MAX_DATETIME_READ_BYTES) at start_offset, handed
   to the constraint's timestamp matcher (an oracle [tsw] on byte windows) *)
Definition logline_window (W : Z) (c : list Z) (slf : tok) : list Z :=
  read c (start_offset slf) W.
Definition logline_date (tsw : list Z -> option Z) (W : Z) (c : list Z)
           (slf : tok) : option Z :=
  tsw (logline_window W c slf).
