(* C14 - model of searchkit/search.py SearchResultsCollection (definitions only).

   Identifiers are small integers chosen by the harness:
     path id   : Z   (> 0 a non-empty path string, 0 = Python None,
                      -1 = the empty string: both are falsy for `if path:`)
     tag id    : Z   (the *result* tag, e.g. 'T' or the part tag 'T-start')
     def id    : Z   (SearchDef / SequenceSearchDef .id, a uuid4)
     section id: Z   (SequenceSearchDef section uuid4)
   A python dict is a list of (key, value) pairs in insertion order. *)
From Coq Require Import ZArith List Bool.
Import ListNotations.
Open Scope Z_scope.

(* ------------------------------------------------------------ python dicts *)
Section Dict.
  Context {K V : Type} (keqb : K -> K -> bool).

  Fixpoint dget (d : list (K * V)) (k : K) : option V :=
    match d with
    | [] => None
    | (k', v) :: t => if keqb k' k then Some v else dget t k
    end.

  (* d[k] = v : an existing key keeps its position *)
  Fixpoint dset (d : list (K * V)) (k : K) (v : V) : list (K * V) :=
    match d with
    | [] => [(k, v)]
    | (k', v') :: t =>
        if keqb k' k then (k', v) :: t else (k', v') :: dset t k v
    end.

  (* d.update(e) *)
  Definition dupdate (d e : list (K * V)) : list (K * V) :=
    fold_left (fun acc kv => dset acc (fst kv) (snd kv)) e d.
End Dict.

(* `if k not in d: d[k] = [x] else: d[k].append(x)` *)
Fixpoint dappend {K X : Type} (keqb : K -> K -> bool)
         (d : list (K * list X)) (k : K) (x : X) : list (K * list X) :=
  match d with
  | [] => [(k, [x])]
  | (k', l) :: t =>
      if keqb k' k then (k', l ++ [x]) :: t
      else (k', l) :: dappend keqb t k x
  end.

Definition oz_eqb (a b : option Z) : bool :=
  match a, b with
  | None, None => true
  | Some x, Some y => x =? y
  | _, _ => false
  end.

(* ---------------------------------------------------------------- results *)
(* SearchResultMinimal as seen through its properties: linenumber,
   source_id, .tag (metadata[0] resolved through the store), .sequence_id
   (metadata[1] resolved), .section_id and the parts (group index, store
   index).  [uid] is the identity of the python object. *)
Record result := mkR {
  uid : Z; ln : Z; src : Z;
  tag : option Z; seq : option Z; section : option Z;
  parts : list (Z * Z) }.

(* what the collection uses of the SearchCatalog *)
Record catalog := mkCat {
  sources : list (Z * Z);          (* _source_ids : source id -> path id *)
  tagtab : list (Z * list Z) }.    (* _search_tags : tag id -> [def id]  *)

Definition none_path : Z := 0.
Definition truthy (p : Z) : bool := 0 <? p.       (* `if path:` *)

(* source_id_to_path: an unknown id is logged and resolves to None *)
Definition resolve (cat : catalog) (s : Z) : Z :=
  match dget Z.eqb (sources cat) s with Some p => p | None => none_path end.

(* _results_by_path *)
Definition coll := list (Z * list result).

Definition add (cat : catalog) (c : coll) (batch : list result) : coll :=
  fold_left (fun c r => dappend Z.eqb c (resolve cat (src r)) r) batch c.

Definition build (cat : catalog) (batches : list (list result)) : coll :=
  fold_left (add cat) batches [].

Definition files (c : coll) : list Z := map fst c.

Definition find_by_path (c : coll) (p : Z) : list result :=
  match dget Z.eqb c p with Some l => l | None => [] end.

(* property `all`: yield from every value of _results_by_path *)
Definition all (c : coll) : list result := flat_map snd c.

(* attribute `data`: a fresh dict filled from _results_by_path *)
Definition data (c : coll) : coll :=
  fold_left (fun d e => dset Z.eqb d (fst e) (snd e)) c [].

(* UserDict protocol over `data`: keys(), [k], items() *)
Definition keys (c : coll) : list Z := map fst (data c).
Definition getitem (c : coll) (k : Z) : option (list result) :=
  dget Z.eqb (data c) k.
Definition items (c : coll) : list (Z * list result) :=
  map (fun k => (k, match getitem c k with Some l => l | None => [] end))
      (keys c).

(* __len__ *)
Definition len (c : coll) : Z :=
  fold_left (fun n f => n + Z.of_nat (length (find_by_path c f))) (files c) 0.

Definition paths_of (c : coll) (p : Z) : list Z :=
  if truthy p then [p] else files c.

Definition tag_is (t : option Z) (r : result) : bool := oz_eqb (tag r) t.
Definition is_seq (r : result) : bool :=
  match seq r with Some _ => true | None => false end.
Definition seq_is (d : Z) (r : result) : bool := oz_eqb (seq r) (Some d).

Definition find_by_tag (c : coll) (t : option Z) (p : Z) : list result :=
  flat_map (fun q => filter (tag_is t) (find_by_path c q)) (paths_of c p).

Definition all_sequence_results (c : coll) (p : Z) : list result :=
  flat_map (fun q => filter is_seq (find_by_path c q)) (paths_of c p).

Definition sections := list (option Z * list result).

Definition group_sections (d : Z) (rs : list result) : sections :=
  fold_left (fun acc r =>
               if seq_is d r then dappend oz_eqb acc (section r) r else acc)
            rs [].

Definition find_sequence_sections (c : coll) (d : Z) (p : Z) : sections :=
  group_sections d (all_sequence_results c p).

Inductive lookup (A : Type) := KeyError | Ok (a : A).
Arguments KeyError {A}.
Arguments Ok {A} a.

Definition merge_sections (c : coll) (p : Z) (ds : list Z) : sections :=
  fold_left (fun acc d => dupdate oz_eqb acc (find_sequence_sections c d p))
            ds [].

Definition find_sequence_by_tag (cat : catalog) (c : coll) (t : Z) (p : Z)
  : lookup sections :=
  match dget Z.eqb (tagtab cat) t with
  | None => KeyError
  | Some ds => Ok (merge_sections c p ds)
  end.

(* reset(): a fresh _results_by_path *)
Definition reset : coll := [].
