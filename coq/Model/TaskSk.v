(* C01 / C07 - T1 tie between Model/Task.v and the skeletons of the
   functions it mirrors, which the translator regenerates from the source
   (trees: Gen/SkelTree.v `tk_*`, flat lists: Gen/Skeleton.v `sk_*`, local
   expressions / updates: Gen/XTask.v).  Definitions only.

   The trees of Model/Stm.v write return / break / continue as one [SExit];
   the flat lists keep them apart.  [xshape] joins the two: it erases reads
   and writes ([calls_only_list], Model/SequenceSk.v), and re-labels every
   exit with its kind from the flat list, numbering ifs, loops and returns
   in source order.  The result ([xstm]) is
   (a) compared with the expected shape written below next to the model
       branch each node stands for, and
   (b) executed by a small generic interpreter ([xrun]) over the model's own
       state: every call IS the model operation of that name, every `if` is
       decided by the model condition of that number, every loop ranges over
       what the model says it ranges over; Proofs/TaskSk.v shows that
       running the trees of SearchDef.run, apply_single and
       _flush_results_buffer this way equals sd_run / apply_single /
       flush_loop for ALL inputs.
   Extra reads, logging and anything the translator does not map are
   harmless; a dropped, re-ordered or re-nested call, test, loop, handler or
   a changed exit kind breaks (a) and (b). *)
From Coq Require Import String ZArith List Bool Arith.
From SK Require Import Model.Skel Model.Stm Model.SequenceSk Model.Task.
Import ListNotations.
Open Scope list_scope.

(* ------------------------------------------------------------- xstm *)
Inductive xstm : Type :=
| XEv (e : ev)
| XRaise (x : string)
| XRet (i : nat)                       (* i-th return of the function *)
| XBreak
| XContinue
| XIf (i : nat) (a b : list xstm)      (* i-th if *)
| XLoop (i : nat) (body : list xstm)   (* i-th loop *)
| XTry (body : list xstm) (hs : list (string * list xstm))
       (orelse fin : list xstm).

Definition exit_kinds (sk : list ev) : list ev :=
  filter (fun e => match e with Ret | Break | Continue => true | _ => false
                   end) sk.

(* exit kinds still to hand out, next if / loop / return number *)
Record cnt := mkCnt { c_kinds : list ev; c_if : nat; c_loop : nat;
                      c_ret : nat }.

Fixpoint annot (s : stm) (c : cnt) {struct s} : option (xstm * cnt) :=
  let go := fix go (l : list stm) (c : cnt) : option (list xstm * cnt) :=
    match l with
    | [] => Some ([], c)
    | x :: r =>
        match annot x c with
        | Some (x', c1) =>
            match go r c1 with
            | Some (r', c2) => Some (x' :: r', c2)
            | None => None
            end
        | None => None
        end
    end in
  match s with
  | SEv e => Some (XEv e, c)
  | SRaise x => Some (XRaise x, c)
  | SExit =>
      match c_kinds c with
      | Ret :: k => Some (XRet (c_ret c),
                          mkCnt k (c_if c) (c_loop c) (S (c_ret c)))
      | Break :: k => Some (XBreak, mkCnt k (c_if c) (c_loop c) (c_ret c))
      | Continue :: k =>
          Some (XContinue, mkCnt k (c_if c) (c_loop c) (c_ret c))
      | _ => None
      end
  | SIf a b =>
      let i := c_if c in
      match go a (mkCnt (c_kinds c) (S i) (c_loop c) (c_ret c)) with
      | Some (a', c1) =>
          match go b c1 with
          | Some (b', c2) => Some (XIf i a' b', c2)
          | None => None
          end
      | None => None
      end
  | SLoop b =>
      let i := c_loop c in
      match go b (mkCnt (c_kinds c) (c_if c) (S i) (c_ret c)) with
      | Some (b', c1) => Some (XLoop i b', c1)
      | None => None
      end
  | STry b hs o f =>
      match go b c with
      | Some (b', c1) =>
          match (fix goh (hs : list (string * list stm)) (c : cnt)
                   : option (list (string * list xstm) * cnt) :=
                   match hs with
                   | [] => Some ([], c)
                   | (h, hb) :: r =>
                       match go hb c with
                       | Some (hb', c1) =>
                           match goh r c1 with
                           | Some (r', c2) => Some ((h, hb') :: r', c2)
                           | None => None
                           end
                       | None => None
                       end
                   end) hs c1 with
          | Some (hs', c2) =>
              match go o c2 with
              | Some (o', c3) =>
                  match go f c3 with
                  | Some (f', c4) => Some (XTry b' hs' o' f', c4)
                  | None => None
                  end
              | None => None
              end
          | None => None
          end
      | None => None
      end
  end.

Fixpoint annot_list (l : list stm) (c : cnt) : option (list xstm * cnt) :=
  match l with
  | [] => Some ([], c)
  | x :: r =>
      match annot x c with
      | Some (x', c1) =>
          match annot_list r c1 with
          | Some (r', c2) => Some (x' :: r', c2)
          | None => None
          end
      | None => None
      end
  end.

(* ifs / loops / try blocks that contain nothing once reads, writes and
   unmapped code are erased (progress or statistics logging, a local
   dict built in a loop ...) are dropped: they cannot matter *)
Fixpoint prune (s : stm) : list stm :=
  let go := fix go (l : list stm) : list stm :=
              match l with [] => [] | x :: r => prune x ++ go r end in
  match s with
  | SIf a b =>
      match go a, go b with
      | [], [] => []
      | a', b' => [SIf a' b']
      end
  | SLoop b =>
      match go b with
      | [] => []
      | b' => [SLoop b']
      end
  | STry b hs o f =>
      let hs' := map (fun h => (fst h, go (snd h))) hs in
      match go b, go o, go f, flat_map snd hs' with
      | [], [], [], [] => []
      | b', o', f', _ => [STry b' hs' o' f']
      end
  | other => [other]
  end.

Fixpoint prune_list (l : list stm) : list stm :=
  match l with [] => [] | x :: r => prune x ++ prune_list r end.

(* the function's control skeleton: calls, raises, structure, exit kinds;
   None when tree and flat list disagree on the number of exits *)
Definition xshape (tree : list stm) (flat : list ev) : option (list xstm) :=
  match annot_list (prune_list (calls_only_list tree))
                   (mkCnt (exit_kinds flat) 0 0 0) with
  | Some (x, c) => match c_kinds c with [] => Some x | _ => None end
  | None => None
  end.

(* a guarded call followed by a nested test, `if a: c(); if b: X`, and the
   merged form `if a and not c(): X` (the Walker lists the calls of a test
   before the `if`) have the same normal form: the calls, then one `if`.
   Which condition guards the call is then no longer visible in the shape:
   where this normal form is used, the guard is extracted as an expression
   instead (Gen/XTask.v, e.g. searchdef_run_hint_gate). *)
Definition is_ev (s : stm) : bool :=
  match s with SEv _ => true | _ => false end.

Fixpoint hoist (s : stm) : list stm :=
  let go := fix go (l : list stm) : list stm :=
              match l with [] => [] | x :: r => hoist x ++ go r end in
  match s with
  | SIf a b =>
      match go b, rev (go a) with
      | [], SIf x [] :: revpre =>
          if forallb is_ev revpre then rev revpre ++ [SIf x []]
          else [SIf (go a) []]
      | b', _ => [SIf (go a) b']
      end
  | SLoop b => [SLoop (go b)]
  | STry b hs o f =>
      [STry (go b) (map (fun h => (fst h, go (snd h))) hs) (go o) (go f)]
  | other => [other]
  end.

Fixpoint hoist_list (l : list stm) : list stm :=
  match l with [] => [] | x :: r => hoist x ++ hoist_list r end.

Definition xshape_hoisted (tree : list stm) (flat : list ev)
  : option (list xstm) :=
  match annot_list (hoist_list (prune_list (calls_only_list tree)))
                   (mkCnt (exit_kinds flat) 0 0 0) with
  | Some (x, c) => match c_kinds c with [] => Some x | _ => None end
  | None => None
  end.

(* ------------------------------------------------------ interpreter *)
Inductive ctl : Type := CNorm | CRet | CBrk | CCont | CRaise (x : string).

Section Interp.
  Variable S : Type.

  Inductive cres : Type :=
  | COk (s : S)                  (* the call returns *)
  | CRaises (x : string) (s : S) (* the call raises x *)
  | CBad.                        (* a call the model does not know *)

  Inductive lkind : Type :=
  | LFor (steps : list (S -> S))            (* for x in ..: bind x *)
  | LWhile (cond : S -> bool) (fuel : nat). (* while cond: *)

  Inductive xres : Type :=
  | XOk (s : S) (c : ctl)
  | XSpin (s : S)                (* a while loop that does not end *)
  | XBad.                        (* the tree does not fit the model *)

  (* the model's reading of the function *)
  Variable call : string -> S -> cres.
  (* i-th if: decision, and the state after the local assignments of the
     branch taken (they are not events of the tree) *)
  Variable guard : nat -> S -> option (bool * S).
  Variable loop : nat -> S -> option lkind.
  (* local assignments on entering the handler of class x *)
  Variable handler : string -> S -> S.
  (* i-th return: record the value returned *)
  Variable ret : nat -> S -> S.

  Fixpoint for_iter (run : S -> xres) (steps : list (S -> S)) (s : S)
    : xres :=
    match steps with
    | [] => XOk s CNorm
    | f :: r =>
        match run (f s) with
        | XOk s1 CNorm | XOk s1 CCont => for_iter run r s1
        | XOk s1 CBrk => XOk s1 CNorm
        | other => other
        end
    end.

  Fixpoint while_iter (run : S -> xres) (cond : S -> bool) (n : nat) (s : S)
    : xres :=
    match n with
    | O => if cond s then XSpin s else XOk s CNorm
    | Datatypes.S n' =>
        if cond s then
          match run s with
          | XOk s1 CNorm | XOk s1 CCont => while_iter run cond n' s1
          | XOk s1 CBrk => XOk s1 CNorm
          | other => other
          end
        else XOk s CNorm
    end.

  (* after the protected part: run the finally block; its own exit wins *)
  Definition then_finally (runf : S -> xres) (r : xres) : xres :=
    match r with
    | XOk s c =>
        match runf s with
        | XOk s1 CNorm => XOk s1 c
        | other => other
        end
    | other => other
    end.

  Fixpoint xrun (x : xstm) (s : S) {struct x} : xres :=
    let go := fix go (l : list xstm) (s : S) : xres :=
      match l with
      | [] => XOk s CNorm
      | y :: r =>
          match xrun y s with
          | XOk s1 CNorm => go r s1
          | other => other
          end
      end in
    match x with
    | XEv (Call f) =>
        match call f s with
        | COk s1 => XOk s1 CNorm
        | CRaises e s1 => XOk s1 (CRaise e)
        | CBad => XBad
        end
    | XEv _ => XOk s CNorm
    | XRaise e => XOk s (CRaise e)
    | XRet i => XOk (ret i s) CRet
    | XBreak => XOk s CBrk
    | XContinue => XOk s CCont
    | XIf i a b =>
        match guard i s with
        | Some (true, s1) => go a s1
        | Some (false, s1) => go b s1
        | None => XBad
        end
    | XLoop i body =>
        match loop i s with
        | Some (LFor steps) => for_iter (go body) steps s
        | Some (LWhile cond fuel) => while_iter (go body) cond fuel s
        | None => XBad
        end
    | XTry body hs orelse fin =>
        then_finally (go fin)
          match go body s with
          | XOk s1 (CRaise e) =>
              match (fix runh (hs : list (string * list xstm))
                       : option xres :=
                       match hs with
                       | [] => None
                       | (h, hb) :: r =>
                           if catches h e then Some (go hb (handler e s1))
                           else runh r
                       end) hs with
              | Some r => r
              | None => XOk s1 (CRaise e)
              end
          | XOk s1 CNorm => go orelse s1
          | other => other
          end
    end.

  Fixpoint xrun_list (l : list xstm) (s : S) : xres :=
    match l with
    | [] => XOk s CNorm
    | y :: r =>
        match xrun y s with
        | XOk s1 CNorm => xrun_list r s1
        | other => other
        end
    end.
End Interp.

Arguments COk {S}.
Arguments CRaises {S}.
Arguments CBad {S}.
Arguments LFor {S}.
Arguments LWhile {S}.
Arguments XOk {S}.
Arguments XSpin {S}.
Arguments XBad {S}.

Local Open Scope string_scope.

(* =============================================== (a) expected shapes *)
(* SearchDef.run  <->  sd_run / first_match *)
Definition x_searchdef_run : list xstm :=
  [ XEv (Call "hint_search");             (* ohint h l  (only with a hint) *)
    XIf 0 [XRet 0] [];                    (* hint and not found => None *)
    XLoop 0                               (* first_match (s_pats d) *)
      [ XEv (Call "pattern_match");       (*   omatch p l *)
        XIf 1 [XBreak] [] ];              (*   Some g => Some g  (FIRST hit) *)
    XRet 1 ].                             (* the match (or None) *)
(* (normal form [xshape_hoisted]: `if self.hint: ret = search; if not ret:
   return None` and `if self.hint and not search: return None` coincide) *)

(* SearchConstraintsManager.apply_single  <->  apply_single(_loop) *)
Definition x_apply_single : list xstm :=
  [ XIf 0 [XRet 0] [];                    (* [] => (true, true) *)
    XLoop 0                               (* apply_single_loop outs .. *)
      [ XTry
          [ XEv (Call "apply_to_line");
            XIf 1 [XContinue] [] ]        (* Pass :: r => loop r true all *)
          [ ("CouldNotApplyConstraint",
             [XContinue]) ]               (* Undecided :: r => loop r any false *)
          [] [];
        XRet 1 ];                         (* Fail :: _ => (false, false) *)
    XRet 2 ].                             (* [] => (any_passed, all_passed) *)

(* SearchConstraintSearchSince.apply_to_line  <->  the oracle ocon *)
Definition x_apply_to_line : list xstm :=
  [ XIf 0 [XRaise "CouldNotApplyConstraint"] [];   (* since_date invalid *)
    XEv (Call "extracted_datetime");
    XIf 1 [XRaise "CouldNotApplyConstraint"] [];   (* no timestamp: Undecided *)
    XIf 2 [XRet 0] [];                             (* ts >= since: Pass *)
    XRet 1 ].                                      (* Fail *)

(* SearchTask._flush_results_buffer  <->  flush_loop *)
Definition x_flush_results_buffer : list xstm :=
  [ XLoop 0                               (* match buf with _ :: _ *)
      [ XTry
          [ XEv (Call "slice_buffer");    (*   batch := py_slice_to buf limit *)
            XEv (Call "put_result");      (*   coll ++ [batch] *)
            XLoop 1                       (*   pop_n (Z.to_nat limit) buf *)
              [ XEv (Call "buffer_pop") ] ]
          [ ("IndexError", []) ]          (*   raised => limit - 1 *)
          [] [] ] ].

(* SearchTask._simple_search  <->  simple_step + push *)
Definition x_simple_search : list xstm :=
  [ XEv (Call "def_run");                 (* sd_run d l *)
    XIf 0 [XRet 0] [];                    (* None => (tt, []) *)
    XEv (Call "new_result");              (* mk_result d ln g *)
    XEv (Call "buffer_append");           (* push: t_buf st ++ [r] *)
    XIf 1 [XEv (Call "flush")] [] ].      (*   NBUF <=? length => flush *)

(* SearchResult.store_result  <->  store_result: tied through the
   expressions and the branch condition extracted by the plugin
   (C01_store_result_indices, C01_store_result_loop_condition), which
   accepts if/else, negated-and-swapped and guard-clause forms *)

(* SearchTask._run_search  <->  run_file / run_search / lines_loop /
   slots_step / slot_step *)
Definition x_run_search : list xstm :=
  [ XEv (Call "stats_reset");
    XLoop 0 [ XIf 0 [XEv (Call "seq_reset")] [] ];  (* init of the handlers *)
    XEv (Call "apply_global");            (* run_file: apply_global ... *)
    XEv (Call "enumerate_lines");         (* lines_loop 0 (skipn pos ..) *)
    XLoop 1                               (* lines_loop: l :: r, ln + 1 *)
      [ XEv (Call "decode_line");         (*   oracle tables of the line *)
        XLoop 2                           (*   slots_step: s :: r *)
          [ XIf 1                         (*     slot_step: sl_run s = false *)
              [ XEv (Call "apply_single");
                XIf 2 [XContinue] [] ]    (*       valid = false => (s, []) *)
              [];                         (*       else runnable := allp *)
            XIf 3                         (*     step (sl_def s) .. ln l *)
              [ XEv (Call "sequence_search") ]
              [ XEv (Call "simple_search") ] ] ];
    XEv (Call "process_sequences");       (* post (slot_states sls) ln *)
    XRet 0 ].                             (* (logging blocks are pruned) *)

(* SearchTask.execute  <->  execute *)
Definition x_execute : list xstm :=
  [ XEv (Call "getsize");
    XIf 0 [XRet 0] [];                    (* empty file: nothing *)
    XTry
      [ XEv (Call "gzip_open");
        XTry [ XEv (Call "gzip_probe") ]
             [ ("OSError",
                [ XEv (Call "plain_open");
                  XEv (Call "run_search");        (* run_search ds lines *)
                  XEv (Call "plain_close") ]) ]
             [ XEv (Call "run_search") ]          (* run_search ds lines *)
             [ XEv (Call "flush") ];              (* flush (...), always *)
        XEv (Call "gzip_close");
        XEv (Call "sync") ]
      [ ("UnicodeDecodeError", [XRaise "reraise"]);
        ("EOFError", [XRaise "FileSearchException"]);
        ("Exception", [XRaise "FileSearchException"]) ]
      [] [];
    XRet 1 ].

(* SearchTask.put_result  <->  coll ++ [batch] (single process) *)
Definition x_put_result : list xstm :=
  [ XIf 0 [ XEv (Call "coll_add"); XRet 0 ] [];   (* t_coll st ++ [batch] *)
    XLoop 0                                       (* queue path: C02 *)
      [ XTry [ XIf 1 [XEv (Call "q_put")] [XEv (Call "q_put_block")];
               XBreak ]
             [ ("queue.Full", [ XEv (Call "sleep") ]) ]
             [] [] ] ].

(* SearchConstraintsManager.apply_global  <->  apply_global(_loop) *)
Definition x_apply_global : list xstm :=
  [ XIf 0 [XRet 0] [];                    (* globals = [] => (0, 0, []) *)
    XIf 1 [XRet 1] [];                    (* intersects restr ids => same *)
    XLoop 0                               (* apply_global_loop *)
      [ XEv (Call "apply_to_file");       (*   atf g pos *)
        XIf 2 [XRet 2] [] ];              (*   Some o => (o, pos', ..) *)
    XRet 3 ].                             (* (0, pos, applied) *)

(* ============================================ (b) the three readings *)
Definition is_some {A} (o : option A) : bool :=
  match o with Some _ => true | None => false end.

(* ---- SearchDef.run ---- *)
Section RunSearchDef.
  Variable line : Type.
  Variable omatch : Z -> line -> option (list Z).
  Variable ohint : Z -> line -> bool.
  Variable d : sdef.
  Variable l : line.
  (* the two tests as the source writes them (Gen/XTask.v) *)
  Variable gate : bool -> Z -> bool.     (* hint pre-check performed? *)
  Variable leaves : bool -> bool.        (* pattern loop left? *)

  Record rst := mkRst {
    rs_hint : bool;                 (* truth of `ret` after hint.search *)
    rs_ret : option (list Z);       (* `ret` of the pattern loop (None before
                                       it: `ret = None`) *)
    rs_cur : Z;                     (* `pattern` *)
    rs_out : option (option (list Z))   (* value returned *)
  }.

  Definition sr_call (f : string) (s : rst) : cres rst :=
    if String.eqb f "hint_search" then
      (* without a hint nothing is searched: the gate below is false *)
      COk (mkRst (match s_hint d with Some h => ohint h l | None => true end)
                 (rs_ret s) (rs_cur s) (rs_out s))
    else if String.eqb f "pattern_match" then
      COk (mkRst (rs_hint s) (omatch (rs_cur s) l) (rs_cur s) (rs_out s))
    else CBad.

  Definition sr_guard (i : nat) (s : rst) : option (bool * rst) :=
    match i with
    | 0%nat =>                    (* if self.hint [and] not <search>: *)
        Some (gate (is_some (s_hint d)) (Z.of_nat (length (s_pats d)))
              && negb (rs_hint s), s)
    | 1%nat => Some (leaves (is_some (rs_ret s)), s)   (* if ret: (loop) *)
    | _ => None
    end.

  Definition sr_loop (i : nat) (s : rst) : option (lkind rst) :=
    match i with
    | 0%nat =>                                   (* for pattern in patterns *)
        Some (LFor (map (fun p s => mkRst (rs_hint s) (rs_ret s) p (rs_out s))
                        (s_pats d)))
    | _ => None
    end.

  Definition sr_ret (i : nat) (s : rst) : rst :=
    mkRst (rs_hint s) (rs_ret s) (rs_cur s)
          (Some match i with
                | 0%nat => None            (* return None *)
                | _ => rs_ret s            (* return ret *)
                end).

  Definition run_searchdef_tree (t : list xstm) : option (option (list Z)) :=
    match xrun_list rst sr_call sr_guard sr_loop (fun _ s => s) sr_ret t
                    (mkRst false None 0 None) with
    | XOk s CRet => rs_out s
    | _ => None
    end.
End RunSearchDef.

(* ---- apply_single ---- *)
(* the local updates and return values, as extracted from the source
   (Gen/XTask.v) *)
Record as_src := mkAsSrc {
  a_ret_empty : bool * bool;
  a_init : bool * bool;
  a_on_pass : bool * bool -> bool * bool;
  a_on_undecided : bool * bool -> bool * bool;
  a_ret_fail : bool * bool -> bool * bool;
  a_ret_end : bool * bool -> bool * bool
}.

Section RunApplySingle.
  Variable src : as_src.
  Variable outs : list outcome.     (* what each constraint answers *)

  Record ast_ := mkAst {
    as_flags : bool * bool;         (* (any_passed, all_passed) *)
    as_cur : outcome;               (* the constraint at hand *)
    as_truth : bool;                (* value of c.apply_to_line(line) *)
    as_out : option (bool * bool)   (* Result returned *)
  }.

  Definition as_call (f : string) (s : ast_) : cres ast_ :=
    if String.eqb f "apply_to_line" then
      match as_cur s with
      | Pass => COk (mkAst (as_flags s) (as_cur s) true (as_out s))
      | Fail => COk (mkAst (as_flags s) (as_cur s) false (as_out s))
      | Undecided => CRaises "CouldNotApplyConstraint" s
      end
    else CBad.

  Definition as_guard (i : nat) (s : ast_) : option (bool * ast_) :=
    match i with
    | 0%nat =>                           (* if not searchdef.constraints: *)
        Some (match outs with [] => true | _ => false end, s)
    | 1%nat =>                           (* if c.apply_to_line(line): *)
        Some (as_truth s,
              if as_truth s
              then mkAst (a_on_pass src (as_flags s)) (as_cur s)
                         (as_truth s) (as_out s)
              else s)
    | _ => None
    end.

  Definition as_loop (i : nat) (s : ast_) : option (lkind ast_) :=
    match i with
    | 0%nat =>                           (* for c in constraints.values() *)
        Some (LFor (map (fun o s => mkAst (as_flags s) o (as_truth s)
                                          (as_out s)) outs))
    | _ => None
    end.

  Definition as_handler (x : string) (s : ast_) : ast_ :=
    mkAst (a_on_undecided src (as_flags s)) (as_cur s) (as_truth s)
          (as_out s).

  Definition as_ret (i : nat) (s : ast_) : ast_ :=
    mkAst (as_flags s) (as_cur s) (as_truth s)
          (Some match i with
                | 0%nat => a_ret_empty src
                | 1%nat => a_ret_fail src (as_flags s)
                | _ => a_ret_end src (as_flags s)
                end).

  Definition run_apply_single_tree (t : list xstm) : option (bool * bool) :=
    match xrun_list ast_ as_call as_guard as_loop as_handler as_ret t
                    (mkAst (a_init src) Fail false None) with
    | XOk s CRet => as_out s
    | _ => None
    end.
End RunApplySingle.

(* ---- _flush_results_buffer ---- *)
Record fl_src := mkFlSrc {
  f_init : Z -> Z;               (* limit = QueueTransitBuffer.MAX *)
  f_slice : Z -> Z;              (* results_buffer[:limit] *)
  f_count : Z -> Z;              (* range(limit) *)
  f_pop_index : Z -> Z;          (* pop(0) *)
  f_on_index_error : Z -> Z      (* limit -= 1 *)
}.

Section RunFlush.
  Variable R : Type.
  Variable src : fl_src.

  Record fst_ := mkFst {
    fs_limit : Z;
    fs_buf : list R;
    fs_coll : list (list R);
    fs_batch : list R
  }.

  Definition fl_call (f : string) (s : fst_) : cres fst_ :=
    if String.eqb f "slice_buffer" then
      COk (mkFst (fs_limit s) (fs_buf s) (fs_coll s)
                 (py_slice_to R (fs_buf s) (f_slice src (fs_limit s))))
    else if String.eqb f "put_result" then
      COk (mkFst (fs_limit s) (fs_buf s) (fs_coll s ++ [fs_batch s])
                 (fs_batch s))
    else if String.eqb f "buffer_pop" then
      if (f_pop_index src (fs_limit s) =? 0)%Z then
        match fs_buf s with
        | [] => CRaises "IndexError" s
        | _ :: t => COk (mkFst (fs_limit s) t (fs_coll s) (fs_batch s))
        end
      else CBad                     (* the model pops the head *)
    else CBad.

  Definition fl_loop (i : nat) (s : fst_) : option (lkind fst_) :=
    match i with
    | 0%nat =>                      (* while self.results_buffer: *)
        Some (LWhile (fun s => match fs_buf s with [] => false | _ => true end)
                     (Datatypes.S (length (fs_buf s))))
    | 1%nat =>                      (* for _ in range(limit): *)
        Some (LFor (repeat (fun s => s)
                           (Z.to_nat (f_count src (fs_limit s)))))
    | _ => None
    end.

  Definition fl_handler (x : string) (s : fst_) : fst_ :=
    mkFst (f_on_index_error src (fs_limit s)) (fs_buf s) (fs_coll s)
          (fs_batch s).

  (* (buffer left, batches handed over, does not terminate) *)
  Definition run_flush_tree (t : list xstm) (MAX : Z) (buf : list R)
             (coll : list (list R)) : option (list R * list (list R) * bool) :=
    match xrun_list fst_ fl_call (fun _ _ => None) fl_loop fl_handler
                    (fun _ s => s) t (mkFst (f_init src MAX) buf coll []) with
    | XOk s CNorm => Some (fs_buf s, fs_coll s, false)
    | XSpin s => Some (fs_buf s, fs_coll s, true)
    | _ => None
    end.
End RunFlush.

(* ------------------------- the model's own reading of the local updates *)
(* what Model/Task.v assumes of the expressions / updates that the trees do
   not show; Props/C01.v and Props/C07.v prove that the definitions
   extracted from the source (Gen/XTask.v) ARE these *)
Definition as_src_model : as_src :=
  mkAsSrc (true, true) (false, true)
          (fun v => let '(any_passed, all_passed) := v in (true, all_passed))
          (fun v => let '(any_passed, all_passed) := v in (any_passed, false))
          (fun v => let '(any_passed, all_passed) := v in (false, false))
          (fun v => let '(any_passed, all_passed) := v in
                    (any_passed, all_passed)).

Definition fl_src_model : fl_src :=
  mkFlSrc (fun m => m) (fun limit => limit) (fun limit => limit)
          (fun _ => 0%Z) (fun limit => (limit - 1)%Z).

(* run a reading on the shape extracted from the source *)
Definition on_shape {A} (shape : option (list xstm))
           (f : list xstm -> option A) : option A :=
  match shape with Some t => f t | None => None end.

(* ================================ constructors: which source feeds what *)
(* [writes t]: every write event of a skeleton with the block it sits in
   ("" = top level, "then" / "else" / "loop" / "try" ..., nested with '.')
   and the reads / calls evaluated since the previous write of that block
   (a branch starts afresh, a loop body inherits the reads of its iterable).
   Independent assignments may be re-ordered, log lines and locals added;
   feeding an attribute from another argument, dropping a compilation or
   moving a write under / out of a condition changes the table. *)
Definition ctx_in (ctx part : string) : string :=
  if String.eqb ctx "" then part else (ctx ++ "." ++ part)%string.

Fixpoint writes_stm (ctx : string) (pend : list string) (s : stm)
  : list (string * string * list string) * list string :=
  let go := fix go (ctx : string) (pend : list string) (l : list stm)
    : list (string * string * list string) :=
    match l with
    | [] => []
    | x :: r =>
        let '(w, pend') := writes_stm ctx pend x in (w ++ go ctx pend' r)%list
    end in
  match s with
  | SEv (Rd c) => ([], (pend ++ [c])%list)
  | SEv (Call f) => ([], (pend ++ [f])%list)
  | SEv (Wr c) => ([(c, ctx, pend)], [])
  | SEv _ | SRaise _ | SExit => ([], pend)
  | SIf a b =>
      ((go (ctx_in ctx "then") [] a ++ go (ctx_in ctx "else") [] b)%list, [])
  | SLoop b => (go (ctx_in ctx "loop") pend b, [])
  | STry b hs o f =>
      ((go (ctx_in ctx "try") [] b
        ++ flat_map (fun h => go (ctx_in ctx "except") [] (snd h)) hs
        ++ go (ctx_in ctx "tryelse") [] o
        ++ go (ctx_in ctx "finally") [] f)%list, [])
  end.

Fixpoint writes_list (ctx : string) (pend : list string) (l : list stm)
  : list (string * string * list string) :=
  match l with
  | [] => []
  | x :: r =>
      let '(w, pend') := writes_stm ctx pend x in
      (w ++ writes_list ctx pend' r)%list
  end.

(* the writes of one attribute, in source order *)
Definition writes_to (field : string) (t : list stm)
  : list (string * list string) :=
  map (fun w => (snd (fst w), snd w))
      (filter (fun w => String.eqb (fst (fst w)) field)
              (writes_list "" [] t)).

(* the last call event of a straight-line constructor *)
Definition last_call (t : list stm) : option string :=
  match rev (filter (fun s => match s with SEv (Call _) => true | _ => false
                              end) t) with
  | SEv (Call f) :: _ => Some f
  | _ => None
  end.

(* SearchDef(pattern, tag, hint, store_result_contents, field_info,
   constraints=...)  <->  the [sdef] the model works with: the patterns in
   the order given (a single string = a one-element list), hint present iff
   truthy, tag / store flag / constraints as given *)
Definition pattern_arg_list {P} (is_list : bool) (single : P) (many : list P)
  : list P := if is_list then many else [single].

Definition sdef_of_args (key : Z) (is_list : bool) (single : Z)
           (many : list Z) (hint_truthy : bool) (hint : Z) (store : bool)
           (tag : Z) (constraints : list Z) : sdef :=
  mkSdef key (pattern_arg_list is_list single many)
         (if hint_truthy then Some hint else None) store tag constraints.

(* expected provenance tables *)
Definition w_searchdef_init : list (string * list (string * list string)) :=
  [ ("patterns",                          (* s_pats *)
     [ ("then", ["arg_pattern"; "re_compile"]);      (* [compile pattern] *)
       ("else", []);                                 (* [] *)
       ("else.loop", ["arg_pattern"; "re_compile"]) ]); (* map compile *)
    ("store_result_contents",             (* s_store *)
     [ ("", ["arg_store_result_contents"]) ]);
    ("tag", [ ("", ["arg_tag"]) ]);       (* s_tag *)
    ("field_info", [ ("", ["arg_field_info"]) ]);
    ("hint",                              (* s_hint *)
     [ ("", ["arg_hint"]);                           (* as given (falsy) *)
       ("then", ["arg_hint"; "re_compile"]) ]);      (* compiled when truthy *)
    ("sequence_def", [ ("", []) ]) ].     (* None *)

Definition w_searchdefbase_init : list (string * list (string * list string)) :=
  [ ("constraints_attr", [ ("", ["arg_constraints"]) ]) ].   (* s_cons *)

Definition w_link_to_sequence : list (string * list (string * list string)) :=
  [ ("sequence_def", [ ("", ["arg_sequence_def"]) ]);
    ("tag", [ ("", ["arg_tag"]) ]) ].     (* a section's tag: the sequence's *)

Definition w_searchtask_init : list (string * list (string * list string)) :=
  [ ("proc", [ ("", []) ]);
    ("info", [ ("", ["arg_info"]) ]);     (* ds, path *)
    ("stats", [ ("", ["stats_new"]) ]);
    ("constraints_manager", [ ("", ["arg_constraints_manager"]) ]);
    ("results_manager", [ ("", ["arg_results_manager"]) ]);
    ("decode_kwargs",                     (* the decode oracle's policy *)
     [ ("", []); ("then", ["arg_decode_errors"]) ]);
    ("results_buffer", [ ("", []) ]) ].   (* t_buf = [] *)

Definition w_resultsmanager_init
  : list (string * list (string * list string)) :=
  [ ("results_store", [ ("", ["arg_results_store"]) ]);
    ("results_queue", [ ("", ["arg_results_queue"]) ]);
    ("results_collection", [ ("", ["arg_results_collection"]) ]) ].

Definition writes_table (fields : list string) (t : list stm)
  : list (string * list (string * list string)) :=
  map (fun f => (f, writes_to f t)) fields.

(* a python dict built from (key, value) items: keys in first-insertion
   order *)
Definition dict_keys {C} (items : list (Z * C)) : list Z :=
  map fst (dedupe_by fst [] items).
