(* C19 - symbolic file paths of MPCache (definitions only).
   A path is a list of components (what os.path.join receives), a component
   a concatenation of literal text and variables (global_path, cache_type,
   cache_id, key).  Gen/XCache.v holds the paths extracted from the source
   (translator/plugins/cache.py). *)
From Coq Require Import String List Bool.
Import ListNotations.
Open Scope string_scope.

Inductive patom : Type := PLit (s : string) | PVar (v : string).
Definition pcomp := list patom.
Definition ppath := list pcomp.

Definition penv := string -> string.

Definition inst_atom (e : penv) (a : patom) : string :=
  match a with PLit s => s | PVar v => e v end.

Fixpoint inst_comp (e : penv) (c : pcomp) : string :=
  match c with
  | [] => ""
  | a :: r => inst_atom e a ++ inst_comp e r
  end.

(* the components handed to os.path.join *)
Definition inst (e : penv) (p : ppath) : list string := map (inst_comp e) p.

Definition set_var (e : penv) (v x : string) : penv :=
  fun w => if String.eqb w v then x else e w.

(* some component is exactly the variable v *)
Definition comp_is_var (v : string) (c : pcomp) : bool :=
  match c with
  | [PVar w] => String.eqb w v
  | _ => false
  end.

Definition has_whole_var (v : string) (p : ppath) : bool :=
  existsb (comp_is_var v) p.

(* every variable of the path is one of vs *)
Definition atom_vars_in (vs : list string) (a : patom) : bool :=
  match a with
  | PLit _ => true
  | PVar v => existsb (String.eqb v) vs
  end.

Definition vars_in (vs : list string) (p : ppath) : bool :=
  forallb (forallb (atom_vars_in vs)) p.

Definition patom_eqb (a b : patom) : bool :=
  match a, b with
  | PLit x, PLit y | PVar x, PVar y => String.eqb x y
  | _, _ => false
  end.

Fixpoint pcomp_eqb (a b : pcomp) : bool :=
  match a, b with
  | [], [] => true
  | x :: a', y :: b' => patom_eqb x y && pcomp_eqb a' b'
  | _, _ => false
  end.

Fixpoint ppath_eqb (a b : ppath) : bool :=
  match a, b with
  | [], [] => true
  | x :: a', y :: b' => pcomp_eqb x y && ppath_eqb a' b'
  | _, _ => false
  end.

(* the i-th component is the literal s *)
Definition comp_is_lit (s : string) (c : pcomp) : bool :=
  match c with
  | [PLit t] => String.eqb t s
  | _ => false
  end.

Definition nth_is_lit (i : nat) (s : string) (p : ppath) : bool :=
  match nth_error p i with
  | Some c => comp_is_lit s c
  | None => false
  end.
