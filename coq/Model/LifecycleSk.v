(* C10 - checkers / interpreters for the small functions around the run's
   life cycle: ThreadManager (helper-thread start/stop), the worker clean-up,
   the constraint manager's constructor, the stats accessor and the exception
   classes.  Evaluated on Gen/Skeleton.v in Props/C10.v.  Definitions only. *)
From Coq Require Import String List Bool Arith.
From SK Require Import Model.Skel Model.Exn Model.Lifecycle.
Import ListNotations.

(* ---- executing a flat skeleton whose `if`s all test ONE boolean [b]:
   the names of the calls made, in order *)
Inductive ifmode := Exec | SkipToElse (d : nat) | SkipToEnd (d : nat).

Fixpoint run_if (b : bool) (m : ifmode) (sk : list ev) : list string :=
  match sk with
  | [] => []
  | e :: r =>
      match m with
      | Exec =>
          match e with
          | IfB => if b then run_if b Exec r else run_if b (SkipToElse 0) r
          | Else => run_if b (SkipToEnd 0) r
          | IfE => run_if b Exec r
          | Call g => g :: run_if b Exec r
          | Ret => []                      (* early return *)
          | _ => run_if b Exec r
          end
      | SkipToElse d =>
          match e with
          | IfB => run_if b (SkipToElse (S d)) r
          | IfE => run_if b (match d with O => Exec | S d' => SkipToElse d' end) r
          | Else => run_if b (match d with O => Exec | S _ => SkipToElse d end) r
          | _ => run_if b (SkipToElse d) r
          end
      | SkipToEnd d =>
          match e with
          | IfB => run_if b (SkipToEnd (S d)) r
          | IfE => run_if b (match d with O => Exec | S d' => SkipToEnd d' end) r
          | _ => run_if b (SkipToEnd d) r
          end
      end
  end.

(* what ThreadManager.stop() does, as the life-cycle model has it: nothing
   for a thread that was never started, otherwise set the stop event and
   THEN join *)
Definition model_stop_calls (running : bool) : list string :=
  if running then ["event_set"; "thread_join"]%string else [].

Definition writes_of (sk : list ev) : list string :=
  flat_map (fun e => match e with Wr c => [c] | _ => [] end) sk.
Definition reads_of (sk : list ev) : list string :=
  flat_map (fun e => match e with Rd c => [c] | _ => [] end) sk.
Definition str_list_eqb (a b : list string) : bool :=
  Nat.eqb (length a) (length b) &&
  forallb (fun p => String.eqb (fst p) (snd p)) (combine a b).

(* the `if` of stop() tests the running flag: it is read right before *)
Fixpoint if_tests_cell (c : string) (sk : list ev) : bool :=
  match sk with
  | Rd c' :: IfB :: _ => String.eqb c c'
  | _ :: r => if_tests_cell c r
  | [] => false
  end.

(* ---- the worker clean-up never raises for a worker that is already gone:
   every os.kill sits in the body of a try whose only handler swallows
   ProcessLookupError, and the function raises nothing itself *)
Definition no_raise (sk : list ev) : bool :=
  forallb (fun e => match e with RaiseE _ => false | _ => true end) sk.
Definition kill_guarded (sk : list ev) : bool :=
  match call_regions "kill" [] sk with
  | [] => false
  | rs => forallb (fun st => match st with [RgBody] => true | _ => false end) rs
  end
  && match handlers_at 1 0 sk with
     | [(h, r)] => String.eqb h "ProcessLookupError" && String.eqb r "swallow"
     | _ => false
     end
  && no_raise sk.

(* ---- an exception class whose __init__ neither calls the base __init__
   nor touches .args keeps the constructor arguments BaseException.__new__
   stored, which is what unpickling in the parent process calls it with *)
Definition plain_exc_init (sk : list ev) : bool :=
  negb (mem_str "super_init" (calls_of sk))
  && negb (mem_str "args" (writes_of sk))
  && mem_str "msg" (writes_of sk).

(* ---- an exception of class [x] raised by call [g] reaches the handler
   table of the OUTERMOST try: no try statement in between whose body
   contains the call has a handler that would catch it first.
   ([guarded_events] lists, per event, the handler classes of the enclosing
   try BODIES, innermost first.) *)
Definition reaches_outer_table (g x : string) (sk : list ev) : bool :=
  let occ := filter (fun p => ev_is (Call g) (fst p)) (guarded_events [] sk) in
  negb (Nat.eqb (length occ) 0) &&
  forallb (fun p =>
             match rev (snd p) with
             | [] => false                      (* not inside any try *)
             | _ :: inner => negb (caught_by x inner)
             end) occ.

(* ---- only text goes into a FileSearchException: whatever the exception
   object holds is pickled when a worker hands its failure back to the
   parent, and text always pickles *)
Definition only_text_raised (sites : list (string * list string)) : bool :=
  negb (Nat.eqb (length sites) 0) &&
  forallb (fun s => forallb (String.eqb "str") (snd s)) sites.

(* ---- _run_search resets the sequence definitions BEFORE it reads the
   first line: a task that failed inside an open section cannot leave the
   definition "started" for the next search that uses it *)
Fixpoint calls_before (stop : string) (sk : list ev) : list string :=
  match sk with
  | [] => []
  | Call g :: r => if String.eqb g stop then [] else g :: calls_before stop r
  | _ :: r => calls_before stop r
  end.
Definition resets_before_reading (sk : list ev) : bool :=
  mem_str "seq_reset" (calls_before "enumerate_lines" sk)
  && mem_str "enumerate_lines" (calls_of sk)
  && negb (mem_str "sequence_search" (calls_before "enumerate_lines" sk)).
