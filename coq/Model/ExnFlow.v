(* Interprocedural composition of the exception-flow analysis (Model/Stm.v)
   along searchkit's call graph below SearchTask.execute.  Everything here
   is PARAMETRIC in the function bodies (tree skeletons); Props/C13.v
   instantiates it with the bodies regenerated from the source
   (Gen/SkelTree.v).

   Leaf origins (what CONTENT can make raise):
     - strict decoding of a searched line        -> UnicodeDecodeError
     - datetime(..vals) on timestamp-shaped text -> ValueError
   Trusted not to raise because of content: re matching on decoded text,
   the 64-byte window decode (errors='backslashreplace'), seek/read/tell. *)
From Coq Require Import String List Bool.
From SK Require Import Model.Skel Model.Stm.
Import ListNotations.
Open Scope string_scope.
Open Scope list_scope.

(* strict decoding (decode_errors=None) *)
Definition o_strict (e : ev) : list string :=
  match e with
  | Rd c => if String.eqb c "strptime" then ["ValueError"; "OverflowError"]
            else []
  | Call f => if String.eqb f "decode_line" then ["UnicodeDecodeError"] else []
  | _ => []
  end.

(* a lenient policy ('ignore', 'replace', 'backslashreplace'): decoding a
   line never raises *)
Definition o_lenient (e : ev) : list string :=
  match e with
  | Rd c => if String.eqb c "strptime" then ["ValueError"; "OverflowError"]
            else []
  | _ => []
  end.

(* extend an origin map: event [Call f] / [Rd f] raises what [callee] lets
   escape *)
Definition with_call (f : string) (callee : list string)
           (o : ev -> list string) (e : ev) : list string :=
  match e with
  | Call g => if String.eqb f g then callee else o e
  | Rd g => if String.eqb f g then callee else o e
  | _ => o e
  end.

Record bodies := {
  b_extracted_datetime : list stm;
  b_logline_date : list stm;
  b_find_token : list stm;
  b_find_token_reverse : list stm;
  b_try_find_line : list stm;
  b_tfld : list stm;
  b_getitem : list stm;
  b_seeker_run : list stm;
  b_apply_to_file : list stm;
  b_apply_global : list stm;
  b_apply_to_line : list stm;
  b_apply_single : list stm;
  b_run_search : list stm;
  b_execute : list stm
}.

Section Graph.
  Variable o_leaf : ev -> list string.
  Variable B : bodies.
  Definition E (o : ev -> list string) (b : list stm) := esc_list o [] b.

  Definition e_extracted_datetime := E o_leaf (b_extracted_datetime B).
  Definition o_date := with_call "extracted_datetime" e_extracted_datetime o_leaf.
  Definition e_logline_date := E o_date (b_logline_date B).
  Definition e_find_token := E o_leaf (b_find_token B).
  Definition e_find_token_reverse := E o_leaf (b_find_token_reverse B).
  Definition o_tfl := with_call "find_token" e_find_token
                        (with_call "find_token_reverse" e_find_token_reverse o_leaf).
  Definition e_try_find_line := E o_tfl (b_try_find_line B).
  Definition o_tfld := with_call "try_find_line" e_try_find_line
                         (with_call "line_date" e_logline_date o_leaf).
  Definition e_tfld := E o_tfld (b_tfld B).
  Definition o_seek := with_call "tfld" e_tfld
                         (with_call "line_date" e_logline_date o_leaf).
  Definition e_getitem := E o_seek (b_getitem B).
  Definition o_run := with_call "bisect_left" e_getitem o_seek.
  Definition e_seeker_run := E o_run (b_seeker_run B).
  Definition o_atf := with_call "seeker_run" e_seeker_run o_leaf.
  Definition e_apply_to_file := E o_atf (b_apply_to_file B).
  Definition o_ag := with_call "apply_to_file" e_apply_to_file o_leaf.
  Definition e_apply_global := E o_ag (b_apply_global B).
  Definition e_apply_to_line := E o_date (b_apply_to_line B).
  Definition o_as := with_call "apply_to_line" e_apply_to_line o_leaf.
  Definition e_apply_single := E o_as (b_apply_single B).
  Definition o_rs := with_call "apply_global" e_apply_global
                       (with_call "apply_single" e_apply_single o_leaf).
  Definition e_run_search := E o_rs (b_run_search B).
  Definition o_ex := with_call "run_search" e_run_search o_leaf.
  Definition e_execute := E o_ex (b_execute B).
End Graph.
