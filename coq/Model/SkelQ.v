(* Small queries over flat skeletons (list ev), used by instantiation
   lemmas: "event a occurs, once, before event b, at this nesting". *)
From Coq Require Import String List Bool Arith.
From SK Require Import Model.Skel.
Import ListNotations.
Open Scope string_scope.
Open Scope list_scope.

Fixpoint index_of (a : ev) (sk : list ev) : option nat :=
  match sk with
  | [] => None
  | e :: r => if ev_is a e then Some 0
              else match index_of a r with Some i => Some (S i) | None => None end
  end.

Fixpoint count_of (a : ev) (sk : list ev) : nat :=
  match sk with
  | [] => 0
  | e :: r => (if ev_is a e then 1 else 0) + count_of a r
  end.

(* first occurrence of a is before first occurrence of b *)
Definition before (a b : ev) (sk : list ev) : bool :=
  match index_of a sk, index_of b sk with
  | Some i, Some j => Nat.ltb i j
  | _, _ => false
  end.

Definition once (a : ev) (sk : list ev) : bool := Nat.eqb (count_of a sk) 1.

(* (loop depth, if depth, try-handler depth) at the first occurrence of a *)
Fixpoint nesting_at (a : ev) (l i : nat) (sk : list ev) : option (nat * nat) :=
  match sk with
  | [] => None
  | e :: r =>
      if ev_is a e then Some (l, i)
      else match e with
           | LoopB => nesting_at a (S l) i r
           | LoopE => nesting_at a (pred l) i r
           | IfB => nesting_at a l (S i) r
           | IfE => nesting_at a l (pred i) r
           | _ => nesting_at a l i r
           end
  end.

Definition unconditional_in_loop (a : ev) (depth : nat) (sk : list ev) : bool :=
  match nesting_at a 0 0 sk with
  | Some (l, 0) => Nat.eqb l depth
  | _ => false
  end.

Definition first_is (a : ev) (sk : list ev) : bool :=
  match sk with e :: _ => ev_is a e | [] => false end.

(* a immediately followed by b (first occurrence of a) *)
Fixpoint followed_by (a b : ev) (sk : list ev) : bool :=
  match sk with
  | [] => false
  | e :: r => if ev_is a e then match r with e' :: _ => ev_is b e' | [] => false end
              else followed_by a b r
  end.
