(* Model of searchkit/result.py over the store model (definitions only).

   A match is given by the regular-expression ORACLE as the list of its
   groups 1..n ([None] = optional group that did not take part); a search
   without groups stores group(0).  Field casts (ResultFieldInfo types) are
   user functions: an oracle [cast name raw] tabulated by the harness.
   Strings / values / names are abstract ids. *)
From Coq Require Import ZArith List Bool.
From SK Require Import Model.Base Model.Store.
Import ListNotations.
Open Scope Z_scope.

(* ResultFieldInfo: ordered field names, each with or without a type *)
Definition finfo := list (Z * bool).

(* (PART_OFFSET_IDX, PART_OFFSET_VALUE, PART_OFFSET_FIELD?) *)
Definition part := (Z * option Z * option Z)%type.

Record minimal := mkMin {
  m_data : list part;
  m_meta : option Z * option Z;        (* (tag index, sequence id index) *)
  m_names : option (list Z)            (* field_names *)
}.

(* ResultFieldInfo.index_to_name: None = FileSearchException("field with
   index .. not found in mapping") *)
Definition index_to_name (fi : finfo) (i : Z) : option Z :=
  if i <? 0 then None else option_map fst (nth_error fi (Z.to_nat i)).

(* ResultFieldInfo.ensure_type *)
Definition ensure_type (cast : Z -> Z -> Z) (fi : finfo) (name : Z)
           (raw : Z) : Z :=
  match find (fun p => fst p =? name) fi with
  | Some (_, true) => cast name raw
  | _ => raw
  end.

Inductive rres (A : Type) : Type :=
| ROk (a : A)
| RErrAlloc                 (* ResultStoreException *)
| RErrField.                (* FileSearchException: more matched groups than fields *)
Arguments ROk {A} a.
Arguments RErrAlloc {A}.
Arguments RErrField {A}.

(* SearchResult._save_part(part_index, value) *)
Definition save_part (cast : Z -> Z -> Z) (s : store) (tag sq : option Z)
           (fi : option finfo) (pidx : Z) (raw : option Z)
  : rres (store * part) :=
  let named :=            (* Some (name, value) | error *)
      match raw, fi with
      | Some r, Some (f0 :: f) =>         (* `if self.field_info:` *)
          match index_to_name (f0 :: f) (pidx - 1) with
          | None => None
          | Some nm => Some (Some nm, Some (ensure_type cast (f0 :: f) nm r))
          end
      | other, _ => Some (None, other)
      end in
  match named with
  | None => RErrField
  | Some (name, value) =>
      match add s (tag, sq, value) with
      | ErrAlloc => RErrAlloc
      | Ok (s1, (_, _, store_id)) => ROk (s1, (pidx, store_id, name))
      end
  end.

Fixpoint save_parts (cast : Z -> Z -> Z) (s : store) (tag sq : option Z)
         (fi : option finfo) (pidx : Z) (groups : list (option Z))
  : rres (store * list part) :=
  match groups with
  | [] => ROk (s, [])
  | g :: r =>
      match save_part cast s tag sq fi pidx g with
      | ROk (s1, p) =>
          match save_parts cast s1 tag sq fi (pidx + 1) r with
          | ROk (s2, ps) => ROk (s2, p :: ps)
          | RErrAlloc => RErrAlloc
          | RErrField => RErrField
          end
      | RErrAlloc => RErrAlloc
      | RErrField => RErrField
      end
  end.

(* SearchResult.__init__ (store_result) followed by .export (metadata):
   [groups] = groups 1..n, or [] with [whole] = group(0) *)
Definition make_result (cast : Z -> Z -> Z) (s : store) (tag sq : option Z)
           (fi : option finfo) (store_contents : bool)
           (groups : list (option Z)) (whole : Z) : rres (store * minimal) :=
  let saved :=
      if negb store_contents then ROk (s, [])
      else match groups with
           | [] => match save_part cast s tag sq fi 0 (Some whole) with
                   | ROk (s1, p) => ROk (s1, [p])
                   | RErrAlloc => RErrAlloc
                   | RErrField => RErrField
                   end
           | _ => save_parts cast s tag sq fi 1 groups
           end in
  match saved with
  | ROk (s1, ps) =>
      match add s1 (tag, sq, None) with
      | ErrAlloc => RErrAlloc
      | Ok (s2, (ti, si, _)) =>
          ROk (s2, mkMin ps (ti, si)
                         (match fi with
                          | Some (f0 :: f) => Some (map fst (f0 :: f))
                          | _ => None
                          end))
      end
  | RErrAlloc => RErrAlloc
  | RErrField => RErrField
  end.

(* ---- reading back (SearchResultMinimal) over a lookup function
   [lk] = results_store[...] of whatever store is registered ---- *)
Inductive field := FIdx (i : Z) | FName (n : Z).

Fixpoint get_store_id (d : list part) (f : field) : option Z :=
  match d with
  | [] => None
  | (pi, sid, pname) :: r =>
      let hit := match pname, f with
                 | Some nm, FName n => nm =? n
                 | None, FName _ => false        (* int index != str *)
                 | _, FIdx i => pi =? i
                 end in
      if hit then match sid with
                  | Some k => Some k
                  | None => get_store_id r f
                  end
      else get_store_id r f
  end.

Inductive rd :=
| Val (v : option Z)        (* a value or None *)
| KeyErr                    (* results_store[store_id] raised KeyError *)
| AttrErr.                  (* AttributeError *)

Definition get (lk : Z -> option Z) (m : minimal) (f : field) : rd :=
  match get_store_id (m_data m) f with
  | Some k => match lk k with Some v => Val (Some v) | None => KeyErr end
  | None => Val None
  end.

(* __iter__ : results_store.get(part[VALUE]) (None for a missing key) *)
Definition iter (lk : Z -> option Z) (m : minimal) : list (option Z) :=
  map (fun p : part => match snd (fst p) with
                       | Some k => lk k
                       | None => None
                       end) (m_data m).

Definition getattr (lk : Z -> option Z) (m : minimal) (name : Z) : rd :=
  match m_names m with
  | Some (n0 :: ns) =>
      if existsb (Z.eqb name) (n0 :: ns) then get lk m (FName name) else AttrErr
  | _ => AttrErr
  end.

Definition tag_of (lk : Z -> option Z) (m : minimal) : option Z :=
  match fst (m_meta m) with Some k => lk k | None => None end.

Definition seq_of (lk : Z -> option Z) (m : minimal) : option Z :=
  match snd (m_meta m) with Some k => lk k | None => None end.

(* ================= Specification (independent of the code above) =========
   What SHOULD come back for group [pidx] (1-based; 0 = whole line): the
   capture, cast by the type of the field at the group's POSITION if that
   field declares one; None for a group that did not take part. *)
Definition fields_of (fi : option finfo) : finfo :=
  match fi with Some f => f | None => [] end.

Definition expected_value (cast : Z -> Z -> Z) (fi : option finfo) (pidx : Z)
           (raw : option Z) : option Z :=
  match raw with
  | None => None
  | Some r =>
      if pidx <? 1 then Some r else
      match nth_error (fields_of fi) (Z.to_nat (pidx - 1)) with
      | Some (nm, true) => Some (cast nm r)
      | _ => Some r
      end
  end.

(* the name under which group [pidx] can be asked for *)
Definition expected_name (fi : option finfo) (pidx : Z) : option Z :=
  if pidx <? 1 then None
  else option_map fst (nth_error (fields_of fi) (Z.to_nat (pidx - 1))).

(* configuration sanity: every matched group has a field when fields are
   declared (else searchkit raises FileSearchException), names are unique
   (they are dict keys) *)
Definition covered (fi : option finfo) (pidx : Z) (raw : option Z) : Prop :=
  match raw, fields_of fi with
  | Some _, _ :: _ => expected_name fi pidx <> None
  | _, _ => True
  end.
