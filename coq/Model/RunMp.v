(* CAPSTONE 2 - the composed model of a MULTI-file FileSearcher.run():

     FileSearcher.run: len(self.files) > 1 -> _run_mp          (dispatch, C18)
       one SearchTask per catalog entry, each in a worker:
         SearchTask.execute on its own file                    Model/Run.v
           (gzip/plain, apply_global + apply_to_file on the      [simple_stream]
            bytes, the per-line loop, the flush batching)        - UNCHANGED
         put_result(batch) -> results queue                    Model/Pipeline.v
       collector thread, manager, final purge, return          Model/Pipeline.v
       stats: per completed future stats.update(..), jobs      Model/Stats.v
                                                                 [run_mp]

   Nothing is re-modelled; the bridges this file adds:

   (M1) Model/Pipeline.v transports payloads [Z] that "stand for (line
        number, tag, values, section id)"; Model/Task.v produces [result]
        records.  The payload of a result IS ITS POSITION in its task's
        output ([number_from]): the batches fed to the pipeline are the
        batches Task.execute hands to put_result - the SAME cuts - with every
        result replaced by its index; [decode] reads a transported payload
        back.  (Source ids are list positions on both sides.)
   (M2) Model/Stats.v [run_mp] merges the task statistics "in completion
        order"; Model/Pipeline.v has that order: the effective [Finish]
        actions of the schedule ([finish_order]).
   (M3) the dispatch test `len(self.files) > 1` is a parameter [uses_pool]
        (instantiated in Props with Gen.Exprs.run_uses_pool, C18).

   A worker whose task hangs or raises is C10's business: the run is then
   reported as MpHangs / MpRaises without modelling the teardown.

   Definitions only. *)
From Coq Require Import ZArith List Bool Arith.
From SK Require Import Model.Base Model.Task Model.Stats Model.Gzip Model.Run
     Model.Pipeline.
Import ListNotations.
Open Scope Z_scope.

(* one catalog entry: the file and the definitions registered on it (as
   registered) *)
Record mfile : Type := mkMfile { mf_file : bfile; mf_defs : list sdef }.

(* ---------------------------------------------------------------- (M1) *)
(* the same batches, every element replaced by its running index *)
Fixpoint number_from {R} (i : nat) (bs : list (list R)) : list (list Z) :=
  match bs with
  | [] => []
  | b :: r => map Z.of_nat (seq i (length b)) :: number_from (i + length b) r
  end.

(* a transported payload read back: position in the task's output *)
Definition decode {R} (rs : list R) (zs : list Z) : list R :=
  flat_map (fun z => match nth_error rs (Z.to_nat z) with
                     | Some r => [r]
                     | None => []
                     end) zs.

(* ---------------------------------------------------------------- (M2) *)
(* the tasks whose future completed, in completion order *)
Fixpoint finish_order (Q : Z) (sched : list action) (s : gstate) : list nat :=
  match sched with
  | [] => []
  | a :: r =>
      match step Q s a with
      | Some s' =>
          match a with
          | Finish t => t :: finish_order Q r s'
          | _ => finish_order Q r s'
          end
      | None => finish_order Q r s
      end
  end.

(* all workers' tasks, or the first that did not complete *)
Inductive gathered (R : Type) : Type :=
| GDone (l : list (list (list R) * stats))
| GHangs
| GRaises.
Arguments GDone {R}.
Arguments GHangs {R}.
Arguments GRaises {R}.

Fixpoint gather {R} (ts : list (task_out R)) : gathered R :=
  match ts with
  | [] => GDone []
  | TkDone bs s :: r =>
      match gather r with
      | GDone l => GDone ((bs, s) :: l)
      | x => x
      end
  | TkHangs :: _ => GHangs
  | TkRaises :: _ => GRaises
  end.

(* what run() leaves behind: _results_by_path (path = position of the file
   in the catalog, in insertion order) and the statistics *)
Inductive mp_out : Type :=
| MpOk (coll : list (nat * list Task.result)) (s : stats)
| MpNotReturned          (* the schedule does not reach the return of run() *)
| MpHangs
| MpRaises.

(* find_by_path on the returned collection *)
Fixpoint mp_find (p : nat) (c : list (nat * list Task.result))
  : list Task.result :=
  match c with
  | [] => []
  | (q, l) :: c' => if Nat.eqb q p then l else mp_find p c'
  end.

Section Mp.
  Variables H A L W : Z.
  Variable tsw : list Z -> option Z.
  Variable line : Type.
  Variable classify : list Z -> line.
  Variable omatch : Z -> line -> option (list Z).
  Variable ohint : Z -> line -> bool.
  Variable ocon : Z -> line -> Task.outcome.
  Variables MAX NBUF : Z.

  (* SearchTask.execute of one catalog entry - Model/Run.v, unchanged *)
  Definition file_task (since : option Z) (restrictions : list Z)
             (mf : mfile) : task_out Task.result :=
    Gzip.execute (task_out Task.result)
      (simple_stream H A L W tsw line classify omatch ohint ocon MAX NBUF
                     (mf_defs mf) since restrictions)
      (TkDone [] empty_task_stats) (mf_file mf).

  Definition file_tasks since restrictions (files : list mfile) :=
    gather (map (file_task since restrictions) files).

  (* (M1) what the workers feed to the pipeline *)
  Definition payloads (l : list (list (list Task.result) * stats))
    : list (list (list Z)) :=
    map (fun x => number_from 0 (fst x)) l.

  Definition nth_done (l : list (list (list Task.result) * stats)) (t : nat)
    : list (list Task.result) * stats := nth t l ([], stats0).

  (* the final state of the pipeline under [sched], if every task completes *)
  Definition mp_final (Q : Z) (sched : list action) since restrictions
             (files : list mfile) : option gstate :=
    match file_tasks since restrictions files with
    | GDone l => Some (Pipeline.run Q sched (init (payloads l)))
    | _ => None
    end.

  (* the schedule reaches the return of run() *)
  Definition mp_returned Q sched since restrictions files : bool :=
    match mp_final Q sched since restrictions files with
    | Some s => is_returned (ph s)
    | None => false
    end.

  (* _run_mp *)
  Definition run_mp_files (Q : Z) (sched : list action) (prev : stats)
             (since : option Z) (restrictions : list Z)
             (files : list mfile) : mp_out :=
    match file_tasks since restrictions files with
    | GDone l =>
        let s0 := init (payloads l) in
        let fin := Pipeline.run Q sched s0 in
        if is_returned (ph fin) then
          MpOk (map (fun pl =>
                       (fst pl,
                        decode (concat (fst (nth_done l (fst pl))))
                               (map snd (snd pl))))
                    (Pipeline.collected fin))
               (run_stats prev
                  (map (fun mf => Stats.lenZ (mf_defs mf)) files)
                  (map (fun t => snd (nth_done l t))
                       (finish_order Q sched s0)))
        else MpNotReturned
    | GHangs => MpHangs
    | GRaises => MpRaises
    end.

  (* ---------------------------------------------------------------- (M3)
     FileSearcher.run: `if len(self.files) > 1: _run_mp() else _run_single()`
     (an empty catalog returns an empty collection and reset statistics) *)
  Definition run_files (uses_pool : Z -> bool) (Q : Z) (sched : list action)
             (prev : stats) (since : option Z) (restrictions : list Z)
             (files : list mfile) : mp_out :=
    if uses_pool (Stats.lenZ files) then
      run_mp_files Q sched prev since restrictions files
    else
      match files with
      | [] => MpOk [] stats0
      | mf :: _ =>
          match run_simple H A L W tsw line classify omatch ohint ocon MAX
                           NBUF prev (mf_file mf) since restrictions
                           (mf_defs mf) with
          | RunOk coll st =>
              MpOk (match coll with [] => [] | _ => [(0%nat, coll)] end) st
          | RunHangs => MpHangs
          | RunRaises => MpRaises
          end
      end.
End Mp.
