(* How often can an event occur in ONE execution of a tree skeleton?
   A generous trace semantics of the skeleton language (every real execution
   of the Python function, complete or cut short by an exception at any
   point, has its event sequence among [trl]) and a static bound. *)
From Coq Require Import String List Bool Arith.
From SK Require Import Model.Skel Model.Stm.
Import ListNotations.
Open Scope list_scope.

Section Count.
  Variable p : ev -> bool.

  Fixpoint count (t : list ev) : nat :=
    match t with
    | [] => 0
    | e :: r => (if p e then 1 else 0) + count r
    end.

  (* static bound: None = no bound (the event sits in a loop) *)
  Definition oadd (a b : option nat) : option nat :=
    match a, b with Some x, Some y => Some (x + y) | _, _ => None end.
  Definition omax (a b : option nat) : option nat :=
    match a, b with Some x, Some y => Some (Nat.max x y) | _, _ => None end.

  Fixpoint maxc (s : stm) {struct s} : option nat :=
    match s with
    | SEv e => Some (if p e then 1 else 0)
    | SRaise _ | SExit => Some 0
    | SIf a b =>
        omax ((fix go (l : list stm) : option nat :=
                 match l with [] => Some 0 | s' :: r => oadd (maxc s') (go r)
                 end) a)
             ((fix go (l : list stm) : option nat :=
                 match l with [] => Some 0 | s' :: r => oadd (maxc s') (go r)
                 end) b)
    | SLoop b =>
        match (fix go (l : list stm) : option nat :=
                 match l with [] => Some 0 | s' :: r => oadd (maxc s') (go r)
                 end) b with
        | Some 0 => Some 0
        | _ => None
        end
    | STry body hs orelse fin =>
        oadd ((fix go (l : list stm) : option nat :=
                 match l with [] => Some 0 | s' :: r => oadd (maxc s') (go r)
                 end) body)
       (oadd ((fix goh (hs' : list (string * list stm)) : option nat :=
                 match hs' with
                 | [] => Some 0
                 | (_, b) :: r =>
                     omax ((fix go (l : list stm) : option nat :=
                              match l with
                              | [] => Some 0
                              | s' :: r' => oadd (maxc s') (go r')
                              end) b) (goh r)
                 end) hs)
       (oadd ((fix go (l : list stm) : option nat :=
                 match l with [] => Some 0 | s' :: r => oadd (maxc s') (go r)
                 end) orelse)
             ((fix go (l : list stm) : option nat :=
                 match l with [] => Some 0 | s' :: r => oadd (maxc s') (go r)
                 end) fin)))
    end.

  Fixpoint maxl (l : list stm) : option nat :=
    match l with
    | [] => Some 0
    | s :: r => oadd (maxc s) (maxl r)
    end.

  Fixpoint maxh (hs : list (string * list stm)) : option nat :=
    match hs with
    | [] => Some 0
    | (_, b) :: r => omax (maxl b) (maxh r)
    end.
End Count.

(* generous traces: a statement may contribute nothing (not reached, or cut
   short), an `if` runs either branch, a loop runs its body any number of
   times, a `try` runs (part of) its body, then (part of) at most one
   handler, (part of) the else block and (part of) the finally block *)
Inductive tr : stm -> list ev -> Prop :=
| tr_skip s : tr s []
| tr_ev e : tr (SEv e) [e]
| tr_if_a a b t : trl a t -> tr (SIf a b) t
| tr_if_b a b t : trl b t -> tr (SIf a b) t
| tr_loop b t1 t2 : trl b t1 -> tr (SLoop b) t2 -> tr (SLoop b) (t1 ++ t2)
| tr_try body hs orelse fin tb th to tf :
    trl body tb -> trh hs th -> trl orelse to -> trl fin tf ->
    tr (STry body hs orelse fin) (tb ++ th ++ to ++ tf)
with trl : list stm -> list ev -> Prop :=
| trl_nil : trl [] []
| trl_cons s r t1 t2 : tr s t1 -> trl r t2 -> trl (s :: r) (t1 ++ t2)
with trh : list (string * list stm) -> list ev -> Prop :=
| trh_none hs : trh hs []
| trh_here h b r t : trl b t -> trh ((h, b) :: r) t
| trh_later hb r t : trh r t -> trh (hb :: r) t.

Definition is_call (f : string) (e : ev) : bool :=
  match e with Call g => String.eqb f g | _ => false end.

(* one of several calls *)
Definition is_call_in (fs : list string) (e : ev) : bool :=
  existsb (fun f => is_call f e) fs.
