(* C02 - the hand-over pipeline of a parallel search, as a small-step
   concurrent model.  Definitions only (executable; no proofs here).

   Source anchors (searchkit as it is now):
     task.py   SearchTask._simple_search / _process_sequence_results
               (append to results_buffer, flush at NUM_BUFFERED_RESULTS),
               _flush_results_buffer (batches of QueueTransitBuffer.MAX),
               put_result (stats['results'] += len(batch) BEFORE the put;
               put_nowait, then blocking put(timeout) retried
               MAX_QUEUE_RETRIES times, then the batch is given up),
               execute (flush in `finally`, returns the stats);
     search.py FileSearcher._run_mp (submit all, start the collector thread,
               merge each future's stats as it completes, stop the collector,
               _purge_results(expected = stats['results']), return),
               _get_results (collector thread: queue -> collection),
               _purge_results (final drain with the expected count),
               SearchResultsCollection.add (files every result of a batch
               under the path of the result's OWN source_id, appending).

   Processes: N worker tasks (whatever the pool size: the pool only restricts
   WHICH tasks are active at a time, and every such restriction is just a
   particular schedule of this model), the manager (main thread), the
   collector thread, the final purge.  A schedule is an arbitrary
   [list action]; [step] is option-valued and a disabled action is a stutter
   ([exec]).  [Tick] is never enabled: it is the explicit stutter used for
   queue.Full / queue.Empty time-outs, sleeps and `empty()` polls. *)
From Coq Require Import ZArith List Bool Arith.
From SK Require Import Model.Base.
Import ListNotations.
Open Scope Z_scope.

(* a result = (source id = index of the task/path that produced it, payload);
   the payload stands for (line number, tag, values, section id) *)
Definition result := (nat * Z)%type.
Definition src (r : result) : nat := fst r.
Definition batch := list result.

(* ---------------------------------------------------------------- producer
   how a task's result list is cut into queue batches: the buffer is flushed
   each time it reaches NBUF results and once more at the end; a flush sends
   slices of at most MAX results. *)
Fixpoint chunks_fuel {A} (fuel m : nat) (l : list A) : list (list A) :=
  match fuel with
  | O => []
  | S f => match l with
           | [] => []
           | _ => firstn m l :: chunks_fuel f m (skipn m l)
           end
  end.
Definition chunks {A} (m : nat) (l : list A) : list (list A) :=
  chunks_fuel (length l) m l.

Definition task_batches {A} (MAX NBUF : nat) (rs : list A) : list (list A) :=
  flat_map (chunks MAX) (chunks NBUF rs).

(* ------------------------------------------------------------------- state *)
Record task := mkTask {
  todo : list batch;      (* batches not yet handed to put_result *)
  sent : Z;               (* stats['results'] of the task *)
  finished : bool         (* its future completed and the manager merged
                             its stats into [expected] *)
}.

Inductive phase := Collecting | Purging | Returned.

(* SearchResultsCollection._results_by_path: insertion-ordered map *)
Definition coll := list (nat * list result).

Fixpoint add_result (r : result) (c : coll) : coll :=
  match c with
  | [] => [(src r, [r])]
  | (p, l) :: c' =>
      if Nat.eqb p (src r) then (p, l ++ [r]) :: c'
      else (p, l) :: add_result r c'
  end.

(* SearchResultsCollection.add(batch) *)
Definition add_batch (b : batch) (c : coll) : coll :=
  fold_left (fun c r => add_result r c) b c.

(* find_by_path *)
Fixpoint find_by_path (p : nat) (c : coll) : list result :=
  match c with
  | [] => []
  | (q, l) :: c' => if Nat.eqb q p then l else find_by_path p c'
  end.

(* len(results) *)
Fixpoint coll_len (c : coll) : Z :=
  match c with
  | [] => 0
  | (_, l) :: c' => lenZ l + coll_len c'
  end.

Record gstate := mkState {
  tasks : list task;
  queue : list batch;          (* head = next to be taken *)
  collected : coll;
  expected : Z;                (* manager's stats['results'] *)
  ph : phase;
  lost : Z                     (* ghost: results given up by Drop *)
}.

Inductive action :=
| Put (t : nat)        (* put_nowait / blocking put succeeds *)
| Drop (t : nat)       (* give-up after MAX_QUEUE_RETRIES failed attempts *)
| Finish (t : nat)     (* future of t completed, stats merged *)
| Collect              (* collector thread: get + add *)
| StartPurge           (* collector stopped, _purge_results entered *)
| PurgeStep            (* purge: get + add *)
| Return               (* purge loop exits; run() returns *)
| Tick.                (* stutter *)

Fixpoint set_nth {A} (n : nat) (x : A) (l : list A) : list A :=
  match l, n with
  | [], _ => []
  | _ :: r, O => x :: r
  | y :: r, S k => y :: set_nth k x r
  end.

Definition blen (bs : list batch) : Z := lenZ (concat bs).

Definition all_finished (s : gstate) : bool := forallb finished (tasks s).

Definition is_collecting (p : phase) : bool :=
  match p with Collecting => true | _ => false end.
Definition is_purging (p : phase) : bool :=
  match p with Purging => true | _ => false end.
Definition is_returned (p : phase) : bool :=
  match p with Returned => true | _ => false end.

(* One atomic step.  [Q] = queue capacity.
   Put: the increment of stats['results'] and the enqueue are two separate
   events in the code, the increment first; the counter is private to the
   worker until its future completes (Finish, which requires todo = []), so
   merging them into one atomic action changes nothing observable.
   Drop: the give-up takes effect after the last back-off sleep, when the
   queue may be in any state, hence no condition on the queue. *)
Definition step (Q : Z) (s : gstate) (a : action) : option gstate :=
  match a with
  | Put t =>
      match nth_error (tasks s) t with
      | Some tk =>
          match todo tk with
          | b :: rest =>
              if lenZ (queue s) <? Q then
                Some (mkState
                        (set_nth t (mkTask rest (sent tk + lenZ b)
                                           (finished tk)) (tasks s))
                        (queue s ++ [b]) (collected s) (expected s) (ph s)
                        (lost s))
              else None
          | [] => None
          end
      | None => None
      end
  | Drop t =>
      match nth_error (tasks s) t with
      | Some tk =>
          match todo tk with
          | b :: rest =>
              Some (mkState
                      (set_nth t (mkTask rest (sent tk + lenZ b)
                                         (finished tk)) (tasks s))
                      (queue s) (collected s) (expected s) (ph s)
                      (lost s + lenZ b))
          | [] => None
          end
      | None => None
      end
  | Finish t =>
      match nth_error (tasks s) t with
      | Some tk =>
          match todo tk with
          | [] =>
              if finished tk then None
              else Some (mkState
                           (set_nth t (mkTask [] (sent tk) true) (tasks s))
                           (queue s) (collected s) (expected s + sent tk)
                           (ph s) (lost s))
          | _ :: _ => None
          end
      | None => None
      end
  | Collect =>
      if is_collecting (ph s) then
        match queue s with
        | b :: q => Some (mkState (tasks s) q (add_batch b (collected s))
                                  (expected s) (ph s) (lost s))
        | [] => None
        end
      else None
  | StartPurge =>
      if is_collecting (ph s) && all_finished s then
        Some (mkState (tasks s) (queue s) (collected s) (expected s) Purging
                      (lost s))
      else None
  | PurgeStep =>
      if is_purging (ph s) then
        match queue s with
        | b :: q => Some (mkState (tasks s) q (add_batch b (collected s))
                                  (expected s) (ph s) (lost s))
        | [] => None
        end
      else None
  | Return =>
      if is_purging (ph s) then
        match queue s with
        | [] => if expected s <=? coll_len (collected s) then
                  Some (mkState (tasks s) [] (collected s) (expected s)
                                Returned (lost s))
                else None
        | _ :: _ => None
        end
      else None
  | Tick => None
  end.

(* disabled action = stutter *)
Definition exec (Q : Z) (s : gstate) (a : action) : gstate :=
  match step Q s a with Some s' => s' | None => s end.

Definition run (Q : Z) (sched : list action) (s : gstate) : gstate :=
  fold_left (exec Q) sched s.

(* infinite schedules, for the termination statement *)
Fixpoint run_n (Q : Z) (sigma : nat -> action) (n : nat) (s : gstate)
  : gstate :=
  match n with
  | O => s
  | S k => exec Q (run_n Q sigma k s) (sigma k)
  end.

Definition is_drop (a : action) : bool :=
  match a with Drop _ => true | _ => false end.
Definition drop_free (sched : list action) : bool :=
  forallb (fun a => negb (is_drop a)) sched.

(* ----------------------------------------------------------- initial state
   [P] : for each task, its batches of payloads; task t tags its results
   with its own source id t (SearchResult(ln, self.info['source_id'], ..)) *)
Definition tag (t : nat) (bs : list (list Z)) : list batch :=
  map (map (pair t)) bs.

Fixpoint tag_tasks (t0 : nat) (P : list (list (list Z))) : list task :=
  match P with
  | [] => []
  | bs :: r => mkTask (tag t0 bs) 0 false :: tag_tasks (S t0) r
  end.

Definition init (P : list (list (list Z))) : gstate :=
  mkState (tag_tasks 0 P) [] [] 0 Collecting 0.

(* initial state when each task is given its flat result list and cuts it
   into batches itself *)
Definition init_flat (MAX NBUF : nat) (R : list (list Z)) : gstate :=
  init (map (task_batches MAX NBUF) R).

(* ------------------------------------------------------- termination measure
   each remaining batch costs a Put and a Collect/PurgeStep, each queued
   batch one Collect/PurgeStep, each unfinished task one Finish, and the
   phase changes (StartPurge, Return) one each. *)
Fixpoint sumZ {A} (f : A -> Z) (l : list A) : Z :=
  match l with [] => 0 | x :: r => f x + sumZ f r end.

Definition task_weight (tk : task) : Z :=
  2 * lenZ (todo tk) + (if finished tk then 0 else 1).

Definition phase_rank (p : phase) : Z :=
  match p with Collecting => 2 | Purging => 1 | Returned => 0 end.

Definition measure (s : gstate) : Z :=
  sumZ task_weight (tasks s) + lenZ (queue s) + phase_rank (ph s).

(* number of non-stutter steps of a finite schedule *)
Fixpoint effective (Q : Z) (sched : list action) (s : gstate) : Z :=
  match sched with
  | [] => 0
  | a :: r => match step Q s a with
              | Some s' => 1 + effective Q r s'
              | None => effective Q r s
              end
  end.

(* -------------------------------------------------------- jv encodings (T2) *)
Definition jv_result (r : result) : jv := JL [JZ (Z.of_nat (src r)); JZ (snd r)].
Definition jv_batch (b : batch) : jv := JL (map jv_result b).
Definition jv_phase (p : phase) : jv :=
  JZ (match p with Collecting => 0 | Purging => 1 | Returned => 2 end).
Definition jv_coll (n : nat) (c : coll) : jv :=
  JL (map (fun p => JL (map (fun r => JZ (snd r)) (find_by_path p c)))
          (seq 0 n)).
