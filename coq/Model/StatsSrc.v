(* Reading the dictionary literal of SearchTaskStats.reset (Gen/XStats.v) as
   a statistics record: every one of the six keys exactly once, integer
   fields from integer literals, searches_by_job from a FRESH empty list. *)
From Coq Require Import String ZArith List Bool.
From SK Require Import Model.Stats.
Import ListNotations.
Open Scope string_scope.

Fixpoint fld (k : string) (l : list (string * option Z))
  : option (option Z) :=
  match l with
  | [] => None
  | (k', v) :: r => if String.eqb k k' then Some v else fld k r
  end.

Definition stats_of_fields (l : list (string * option Z)) : option stats :=
  match fld "searches" l, fld "searches_by_job" l, fld "lines_searched" l,
        fld "jobs_completed" l, fld "total_jobs" l, fld "results" l with
  | Some (Some a), Some None, Some (Some c), Some (Some d), Some (Some e),
    Some (Some f) =>
      if Nat.eqb (List.length l) 6 then Some (mkStats a [] c d e f) else None
  | _, _, _, _, _, _ => None
  end.
