(* C04 - T1 tie between Model/SinceSeek.v and the TREE skeletons the
   translator regenerates from searchkit/constraints.py (Gen/SkelTree.v:
   tk_tfld, tk_seeker_getitem, tk_seeker_run, tk_apply_to_file,
   tk_try_find_line, tk_logline_date) plus the pieces extracted by
   translator/plugins/seek.py (Gen/XSeek.v: seek targets, call arguments,
   comparison operators).  Definitions only.

   (a) expected shapes: [calls_only_list] of a tree (Rd/Wr erased; calls,
       returns, raises, handlers and the if / loop / try nesting kept), each
       written next to the model branch it corresponds to.
   (b) [interp]: an interpreter of such trees with Python's exception flow
       (raise, try / except in order, bare re-raise).  The k-th interpreted
       event IS the model operation supplied for it, the k-th `if` (source
       order) is decided by the model condition supplied for it, the k-th
       `return` yields the value supplied for it.  The instances below run
       apply_to_file, run and __getitem__ over the model's own state;
       Proofs/SinceSeekSk.v proves them equal to the model functions.  A
       dropped, re-ordered or re-nested call / test / raise / handler makes
       the interpretation differ (or the shape theorem fail); a changed seek
       target, call argument or comparison changes Gen/XSeek.v. *)
From Coq Require Import String ZArith List Bool Arith.
From SK Require Import Model.Base Model.Skel Model.Stm Model.SequenceSk
     Model.Seek Model.SinceSeek.
Import ListNotations.
Open Scope list_scope.

(* ------------------------------------------------------ (a) the shapes *)
Local Open Scope string_scope.

(* LogLine.date *)
Definition expected_logline_date : list stm :=
  [ SEv (Call "read_line");            (* logline_window W c slf *)
    SEv (Call "extracted_datetime");   (* tsw (...)              *)
    SExit ].

(* try_find_line *)
Definition expected_try_find_line : list stm :=
  [ SIf [ SEv (Call "find_token") ] [];          (* elf_off = None *)
    SIf [ SEv (Call "find_token_reverse") ] [];  (* slf_off = None *)
    SExit ].                                     (* Line slf elf   *)

(* try_find_line_with_date *)
Definition expected_tfld : list stm :=
  [ SLoop                                  (* Fixpoint tfld, fuel = attempts *)
      [ SEv (Call "try_find_line");        (*   try_find_line H A c offset .. *)
        SIf [ SExit ] [];                  (*   ll_date = Some _ => WdLine    *)
        SIf [ SExit ] [] ];                (*   offset' < 0 || len < offset'  *)
    SExit ].                               (* WdNone *)

(* __getitem__ *)
Definition expected_getitem : list stm :=
  [ SEv (Call "tfld");                     (* r1 := tfld offset None false  *)
    SIf [ SEv (Call "tfld") ] [];          (* wd_unusable r1 => r2 := tfld (offset+1) None true *)
    SIf [ SRaise "TooManyLinesWithoutDate" ] [];   (* wd_unusable r2 => GiTooMany *)
    SIf [] [];                             (* since <= d => line_info := l (assignment, no event) *)
    SExit ].                               (* GiDate d st' *)

(* run *)
Definition expected_run : list stm :=
  [ SEv (Call "tfld");                     (* last-line probe *)
    SIf [ SRaise "NoValidLinesFoundInFile" ] [];   (* truthy && date None (dead) *)
    SIf [ SIf [ SExit ] [] ] [];           (* first line dated / >= since => OkPos pos0 *)
    STry [ SEv (Call "bisect_left") ]      (* bisect ... st0 0 len *)
         [ ("TooManyLinesWithoutDate",
            [ SIf [ SRaise "NoTimestampsFoundInFile" ] [];   (* fst st = false *)
              SRaise "reraise" ]) ]        (* TooManyLinesWithoutDate *)
         [] [];
    SIf [ SRaise "NoValidLinesFoundInFile" ] [];   (* line_info None / falsy *)
    SExit ].                               (* OkPos (ll_start l) *)

(* apply_to_file: its try statement.  (Before it: the `not _is_valid` exit,
   never taken with a since date, and the cached-offset branch, which belongs
   to C08 and may be factored into a helper.) *)
Definition expected_apply_try : stm :=
    STry [ SEv (Call "fd_tell");
           SEv (Call "seeker_new");
           SEv (Call "seeker_run");        (* run since pos0 *)
           SIf [ SEv (Call "fd_seek") ]    (* never: destructive, not None *)
               [ SEv (Call "fd_seek") ];   (* OkPos p => Some p *)
           SIf [] [] ]                     (* cache write: C08 *)
         [ ("NoTimestampsFoundInFile", [ SEv (Call "fd_seek") ]);        (* Some 0 *)
           ("NoValidLinesFoundInFile", [ SEv (Call "fd_seek") ]);        (* Some len *)
           ("TooManyLinesWithoutDate", [ SEv (Call "fd_seek") ]);        (* Some 0 *)
           ("MaxSearchableLineLengthReached", [ SEv (Call "fd_seek") ]) ] (* Some len *)
         [] [].

(* the first try statement at the top level of a function *)
Fixpoint first_try (l : list stm) : option stm :=
  match l with
  | [] => None
  | STry b hs o f :: _ => Some (STry b hs o f)
  | _ :: r => first_try r
  end.
Definition try_of (l : list stm) : list stm :=
  match first_try l with Some t => [t] | None => [] end.

(* what Gen/XSeek.v must contain *)
Local Open Scope Z_scope.
Definition expected_seek_sites : list (Z -> Z -> Z -> Z -> Z) :=
  [ fun cached orig newoff len => orig;       (* new_offset None / non-destructive *)
    fun cached orig newoff len => newoff;     (* fd.seek(new_offset)        *)
    fun cached orig newoff len => 0;          (* NoTimestampsFoundInFile    *)
    fun cached orig newoff len => (len + 0);  (* NoValidLinesFoundInFile    *)
    fun cached orig newoff len => 0;          (* TooManyLinesWithoutDate    *)
    fun cached orig newoff len => (len + 0) ].  (* MaxSearchableLineLengthReached *)
Definition expected_getitem_args : list (Z -> Z * option Z * bool) :=
  [ fun offset => (offset, None, false);
    fun offset => ((offset + 1), None, true) ].
Local Close Scope Z_scope.

(* the top-level statements between the call [f] and the next call [g] *)
Fixpoint upto_call (g : string) (l : list stm) : option (list stm) :=
  match l with
  | [] => None
  | SEv (Call h) :: r =>
      if String.eqb h g then Some []
      else match upto_call g r with Some x => Some (SEv (Call h) :: x) | None => None end
  | x :: r => match upto_call g r with Some y => Some (x :: y) | None => None end
  end.
Fixpoint between_calls (f g : string) (l : list stm) : option (list stm) :=
  match l with
  | [] => None
  | SEv (Call h) :: r =>
      if String.eqb h f then upto_call g r else between_calls f g r
  | _ :: r => between_calls f g r
  end.

(* no return / break / continue, no raise and no call anywhere inside: the
   statements can only compute locals (loops, tests, temporaries) and fall
   through to what follows *)
Fixpoint falls_through (s : stm) : bool :=
  let go := fix go (l : list stm) : bool :=
              match l with [] => true | x :: r => falls_through x && go r end in
  match s with
  | SEv (Call _) => false
  | SEv _ => true
  | SRaise _ => false
  | SExit => false
  | SIf a b => go a && go b
  | SLoop b => go b
  | STry b hs o f =>
      go b && go o && go f &&
      (fix goh (hs : list (string * list stm)) : bool :=
         match hs with [] => true | (_, hb) :: r => go hb && goh r end) hs
  end.
Definition all_fall_through (l : list stm) : bool := forallb falls_through l.

(* -------------------------------------------------- (b) the interpreter *)
Definition cnt : Type := (nat * nat * nat)%type.   (* events, ifs, returns *)
Definition c0 : cnt := (O, O, O).
Definition cadd (a b : cnt) : cnt :=
  let '(a1, a2, a3) := a in let '(b1, b2, b3) := b in
  ((a1 + b1)%nat, (a2 + b2)%nat, (a3 + b3)%nat).

Section Interp.
  Variable St : Type.
  Inductive ires : Type :=
  | INormal (s : St)
  | IExit (k : nat) (s : St)          (* the k-th `return` of the function *)
  | IRaise (x : string) (s : St)
  | IStuck.

  Variable site : ev -> bool.                 (* events that are counted *)
  Variable call : nat -> ev -> St -> ires.    (* event, with the number of
                                                 counted events before it *)
  Variable guard : nat -> St -> bool.         (* k-th `if` *)

  Fixpoint count (s : stm) : cnt :=
    let go := fix go (l : list stm) : cnt :=
                match l with [] => c0 | x :: r => cadd (count x) (go r) end in
    match s with
    | SEv e => if site e then (1, 0, 0)%nat else c0
    | SRaise _ => c0
    | SExit => (0, 0, 1)%nat
    | SIf a b => cadd (0, 1, 0)%nat (cadd (go a) (go b))
    | SLoop b => go b
    | STry b hs o f =>
        cadd (go b)
          (cadd ((fix goh (hs : list (string * list stm)) : cnt :=
                    match hs with
                    | [] => c0
                    | (_, hb) :: r => cadd (go hb) (goh r)
                    end) hs)
                (cadd (go o) (go f)))
    end.
  Fixpoint count_list (l : list stm) : cnt :=
    match l with [] => c0 | x :: r => cadd (count x) (count_list r) end.
  Fixpoint count_handlers (hs : list (string * list stm)) : cnt :=
    match hs with
    | [] => c0
    | (_, hb) :: r => cadd (count_list hb) (count_handlers r)
    end.

  (* [cur]: the exception being handled (for a bare `raise`) *)
  Fixpoint interp (cur : option string) (s : stm) (k : cnt) (st : St)
           {struct s} : ires :=
    let go := fix go (cur : option string) (l : list stm) (k : cnt) (st : St)
                  {struct l} : ires :=
      match l with
      | [] => INormal st
      | x :: r =>
          match interp cur x k st with
          | INormal st' => go cur r (cadd k (count x)) st'
          | other => other
          end
      end in
    match s with
    | SEv e => call (fst (fst k)) e st
    | SRaise x =>
        if String.eqb x "reraise"
        then match cur with Some y => IRaise y st | None => IStuck end
        else IRaise x st
    | SExit => IExit (snd k) st
    | SIf a b =>
        let k1 := cadd k (0, 1, 0)%nat in
        if guard (snd (fst k)) st then go cur a k1 st
        else go cur b (cadd k1 (count_list a)) st
    | SLoop _ => IStuck                 (* loops are not interpreted *)
    | STry b hs o f =>
        match f with
        | _ :: _ => IStuck              (* no `finally` in these functions *)
        | [] =>
            let kh := cadd k (count_list b) in
            let ko := cadd kh (count_handlers hs) in
            match go cur b k st with
            | INormal st1 => go cur o ko st1
            | IRaise x st1 =>
                (fix goh (hs : list (string * list stm)) (kh : cnt) : ires :=
                   match hs with
                   | [] => IRaise x st1
                   | (h, hb) :: r =>
                       if catches h x then go (Some x) hb kh st1
                       else goh r (cadd kh (count_list hb))
                   end) hs kh
            | other => other
            end
        end
    end.

  Fixpoint interp_list (cur : option string) (l : list stm) (k : cnt)
           (st : St) : ires :=
    match l with
    | [] => INormal st
    | x :: r =>
        match interp cur x k st with
        | INormal st' => interp_list cur r (cadd k (count x)) st'
        | other => other
        end
    end.
End Interp.
Arguments INormal {St}. Arguments IExit {St}. Arguments IRaise {St}.
Arguments IStuck {St}.

Definition is_call (names : list string) (e : ev) : bool :=
  match e with
  | Call f => existsb (String.eqb f) names
  | _ => false
  end.

(* outcome <-> exception class name *)
Definition raise_of (o : outcome) : string :=
  match o with
  | NoTimestampsFoundInFile => "NoTimestampsFoundInFile"
  | NoValidLinesFoundInFile => "NoValidLinesFoundInFile"
  | TooManyLinesWithoutDate => "TooManyLinesWithoutDate"
  | MaxSearchableLineLengthReached => "MaxSearchableLineLengthReached"
  | AssertionFailed => "AssertionError"
  | FuelExhausted => "FuelExhausted"
  | OkPos _ => ""
  end.
Definition outcome_of_raise (x : string) : outcome :=
  if String.eqb x "NoTimestampsFoundInFile" then NoTimestampsFoundInFile
  else if String.eqb x "NoValidLinesFoundInFile" then NoValidLinesFoundInFile
  else if String.eqb x "TooManyLinesWithoutDate" then TooManyLinesWithoutDate
  else if String.eqb x "MaxSearchableLineLengthReached"
       then MaxSearchableLineLengthReached
  else if String.eqb x "AssertionError" then AssertionFailed
  else FuelExhausted.

Local Open Scope Z_scope.

(* ---- apply_to_file over (file position, new_offset) --------------------- *)
Section Apply.
  Variable sites : list (Z -> Z -> Z -> Z -> Z).   (* Gen.XSeek.apply_seek_sites *)
  Variable len : Z.                                (* file length *)
  Variable pos0 : Z.                               (* position on entry = orig_offset *)
  Variable o : outcome.                            (* what seeker.run() does *)
  Variable destructive : bool.                     (* the keyword argument *)

  Definition ap_state : Type := (Z * Z)%type.      (* position, new_offset *)
  Definition ap_call (k : nat) (e : ev) (st : ap_state) : ires ap_state :=
    match e with
    | Call f =>
        if String.eqb f "seeker_run" then
          match o with
          | OkPos p => INormal (fst st, p)
          | _ => IRaise (raise_of o) st
          end
        else if String.eqb f "fd_seek" then
          match nth_error sites k with
          | Some tgt => INormal (tgt 0 pos0 (snd st) len, snd st)
          | None => IStuck
          end
        else INormal st
    | _ => INormal st
    end.
  (* new_offset is not None: the first test of the try body is `not
     destructive`; the second (the cache write) has no effect on the position *)
  Definition ap_guard (k : nat) (st : ap_state) : bool :=
    match k with
    | O => negb destructive   (* new_offset is None or not destructive *)
    | _ => false
    end.

  Definition ap_interp (tree : list stm) : option Z :=
    match interp_list ap_state (is_call ["fd_seek"]) ap_call ap_guard None
                      tree c0 (pos0, 0) with
    | INormal st | IExit _ st => Some (fst st)
    | _ => None
    end.
End Apply.

(* ---- run over (probe result, seeker state after bisect) ----------------- *)
Section Run.
  Variables (H A L W : Z) (tsw : list Z -> option Z) (c : list Z).
  Variables (since pos0 : Z).
  Variable probe_args : Z -> Z * option Z * bool.   (* Gen.XSeek.run_tfld_args *)
  Variable shortcut_slf : Z.                        (* Gen.XSeek.run_shortcut_slf *)
  Variable shortcut_cmp : Z -> Z -> bool.           (* Gen.XSeek.run_shortcut_cmp *)

  Definition rn_state : Type := (wd_res * state)%type.
  Definition rn_date0 : option Z := logline_date tsw W c (Found shortcut_slf).

  Definition rn_call (k : nat) (e : ev) (st : rn_state) : ires rn_state :=
    match e with
    | Call f =>
        if String.eqb f "tfld" then
          let '(off, lfo, fw) := probe_args (lenZ c) in
          match try_find_line_with_date H A L W tsw c off lfo fw with
          | WdErr => IRaise "MaxSearchableLineLengthReached" st
          | WdAssert => IRaise "AssertionError" st
          | r => INormal (r, snd st)
          end
        else if String.eqb f "bisect_left" then
          match bisect H A L W tsw c (S (Z.to_nat (lenZ c))) since st0 0
                       (lenZ c) with
          | BsDone _ s => INormal (fst st, s)
          | BsTooMany s => IRaise "TooManyLinesWithoutDate" (fst st, s)
          | BsErr => IRaise "MaxSearchableLineLengthReached" st
          | BsAssert => IRaise "AssertionError" st
          | BsFuel => IRaise "FuelExhausted" st
          end
        else INormal st
    | _ => INormal st
    end.

  (* the five tests of run(), in source order *)
  Definition rn_guard (k : nat) (st : rn_state) : bool :=
    match k with
    | 0%nat => (* result and result.date is None *)
        match fst st with
        | WdLine l => ll_truthy l &&
                      match ll_date W tsw c l with Some _ => false | None => true end
        | _ => false
        end
    | 1%nat => (* result.date is not None *)
        match rn_date0 with Some _ => true | None => false end
    | 2%nat => (* result.date >= since_date *)
        match rn_date0 with Some d => shortcut_cmp d since | None => false end
    | 3%nat => (* not self.found_any_date *)
        negb (fst (snd st))
    | _ => (* not self.line_info *)
        match snd (snd st) with Some l => negb (ll_truthy l) | None => true end
    end.

  Definition rn_interp (tree : list stm) : outcome :=
    match interp_list rn_state (is_call ["tfld"; "bisect_left"]) rn_call
                      rn_guard None tree c0 (WdNone, st0) with
    | IExit 0%nat _ => OkPos pos0                    (* return current *)
    | IExit _ st =>                                  (* return line_info.start_offset *)
        match snd (snd st) with
        | Some l => OkPos (ll_start l)
        | None => AssertionFailed
        end
    | IRaise x _ => outcome_of_raise x
    | _ => FuelExhausted
    end.
End Run.

(* ---- __getitem__ over the current `result` ------------------------------ *)
Section GetItem.
  Variables (H A L W : Z) (tsw : list Z -> option Z) (c : list Z).
  Variables (since : Z) (st : state) (offset : Z).
  Variable tfld_args : list (Z -> Z * option Z * bool).   (* Gen.XSeek.getitem_tfld_args *)
  Variable info_cmp : Z -> Z -> bool.                     (* Gen.XSeek.getitem_line_info_cmp *)

  Definition gi_call (k : nat) (e : ev) (r : wd_res) : ires wd_res :=
    match e with
    | Call f =>
        if String.eqb f "tfld" then
          match nth_error tfld_args k with
          | Some args =>
              let '(off, lfo, fw) := args offset in
              match try_find_line_with_date H A L W tsw c off lfo fw with
              | WdErr => IRaise "MaxSearchableLineLengthReached" r
              | WdAssert => IRaise "AssertionError" r
              | r' => INormal r'
              end
          | None => IStuck
          end
        else INormal r
    | _ => INormal r
    end.
  (* `not result or result.date is None` (twice); the third test guards the
     assignment of line_info, which is applied at the return below *)
  Definition gi_guard (k : nat) (r : wd_res) : bool :=
    match k with
    | 0%nat | 1%nat => wd_unusable W tsw c r
    | _ => false
    end.

  Definition gi_interp (tree : list stm) : gi_res :=
    match interp_list wd_res (is_call ["tfld"]) gi_call gi_guard None tree c0
                      WdNone with
    | IExit _ (WdLine l) =>
        match ll_date W tsw c l with
        | Some d => GiDate d (true, if info_cmp d since then Some l else snd st)
        | None => GiTooMany
        end
    | IRaise x _ =>
        if String.eqb x "TooManyLinesWithoutDate" then GiTooMany
        else if String.eqb x "MaxSearchableLineLengthReached" then GiErr
        else GiAssert
    | _ => GiAssert
    end.
End GetItem.
