(* Model of searchkit.constraints.TimestampMatcherBase (__init__, matched,
   strptime) and of the line SearchConstraintSearchSince.extracted_datetime
   hands to it.

   Two layers:
   - the hand-written model functions ([ts_result], [ts_matched],
     [ts_fields], [ts_line]): the FIRST pattern, in list order, that matches
     AT THE START of the line wins; a field's value is the class's override
     property of that name if there is one, else int() of the named group;
   - interpreters ([exec_init], [eval_strptime], [apply_line_ops],
     [eval_atree]) for the small programs the translator extracts from the
     source (Gen/XTsmatcher.v).  Props/TsMatcher.v proves interpreter of the
     extracted program = hand-written model.

   `re` itself is an oracle: for each pattern, what re.match (at the start)
   and re.search (anywhere) return on the line.  Definitions only. *)
From Coq Require Import Ascii String ZArith List Bool.
From SK Require Import Model.Dates.
Import ListNotations.
Open Scope string_scope.
Open Scope list_scope.
Open Scope Z_scope.

(* ------------------------------------------------------------ oracle *)
(* what the regex engine says about ONE pattern on the line; [M] is the
   match object *)
Record pat_out (M : Type) : Type := PO {
  at_start : option M;      (* re.match(pattern, line) *)
  anywhere : option M       (* re.search(pattern, line) *)
}.
Arguments PO {M}. Arguments at_start {M}. Arguments anywhere {M}.

(* a named group of a match object, as int() sees it *)
Inductive gval : Type :=
| GAbsent           (* no such group, or it did not take part: int() cannot
                       even be attempted (IndexError / TypeError) *)
| GNonInt           (* text int() rejects: ValueError *)
| GInt (z : Z).

(* a match object: the values of the override properties the matcher class
   defines (evaluated on this match) and the named groups *)
Record mobj : Type := MO {
  m_attrs : list (string * Z);
  m_groups : list (string * gval)
}.

Fixpoint assoc {A} (k : string) (l : list (string * A)) : option A :=
  match l with
  | [] => None
  | (k', v) :: r => if String.eqb k k' then Some v else assoc k r
  end.

Definition attr_of (m : mobj) (k : string) : option Z := assoc k (m_attrs m).
Definition group_of (m : mobj) (k : string) : gval :=
  match assoc k (m_groups m) with Some g => g | None => GAbsent end.

(* ------------------------------------------------------------ the model *)
Fixpoint first_some {A} (l : list (option A)) : option A :=
  match l with
  | [] => None
  | Some a :: _ => Some a
  | None :: r => first_some r
  end.

(* __init__: self.result *)
Definition ts_result {M} (pats : list (pat_out M)) : option M :=
  first_some (map at_start pats).

(* matched *)
Definition ts_matched {M} (r : option M) : bool :=
  match r with Some _ => true | None => false end.

(* outcome of strptime before datetime() validates the fields *)
Inductive strp : Type :=
| SOk (t : dt)       (* the six integers handed to datetime() *)
| SValueError        (* int() rejected a group's text *)
| SError.            (* anything else (missing group ...) *)

Inductive fval : Type := FOk (z : Z) | FValueError | FError.

(* value of one field: the override property wins over the group *)
Definition ts_field (attrs : string -> option Z) (groups : string -> gval)
  (key : string) : fval :=
  match attrs key with
  | Some v => FOk v
  | None => match groups key with
            | GInt z => FOk z
            | GNonInt => FValueError
            | GAbsent => FError
            end
  end.

(* the keys in the order the implementation evaluates them; the first
   failing one decides which exception is raised *)
Definition TS_KEYS : list string :=
  ["day"; "month"; "year"; "hours"; "minutes"; "seconds"].

Fixpoint first_failure (l : list fval) : option fval :=
  match l with
  | [] => None
  | FOk _ :: r => first_failure r
  | f :: _ => Some f
  end.

Definition fz (f : fval) : Z := match f with FOk z => z | _ => 0 end.

Definition ts_fields (attrs : string -> option Z) (groups : string -> gval)
  : strp :=
  let f := ts_field attrs groups in
  match first_failure (map f TS_KEYS) with
  | Some FValueError => SValueError
  | Some _ => SError
  | None => SOk (DT (fz (f "year")) (fz (f "month")) (fz (f "day"))
                    (fz (f "hours")) (fz (f "minutes")) (fz (f "seconds")))
  end.

Definition ts_strptime (m : mobj) : strp :=
  ts_fields (attr_of m) (group_of m).

(* what a line contributes to the since constraint: the fields of its
   timestamp, [None] when no pattern matches at its start or int() rejects a
   group (extracted_datetime catches ValueError); [Error] when strptime
   fails in another way (escapes apply_to_line) *)
Inductive line_ts : Type := LTs (o : option dt) | LError.

Definition ts_line (pats : list (pat_out mobj)) : line_ts :=
  match ts_result pats with
  | None => LTs None
  | Some m => match ts_strptime m with
              | SOk t => LTs (Some t)
              | SValueError => LTs None
              | SError => LError
              end
  end.

(* ------------------------------------------- extracted program: __init__ *)
Inductive refn : Type := ReMatch | ReSearch | ReFullmatch.

Inductive iguard : Type := GAlways | GIfRet | GIfNotRet.
Inductive iact : Type :=
| ATry (f : refn)        (* ret = re.<f>(expr, line) *)
| ASetResult             (* self.result = ret *)
| ASetResultNone         (* self.result = None *)
| ABreak
| AContinue.

Record init_prog : Type := IP {
  ip_pre : list iact;                 (* before the loop *)
  ip_body : list (iguard * iact)      (* body of `for expr in self.patterns` *)
}.

Inductive ctl : Type := CNormal | CBroke | CContinued.

Section Init.
  Variable M : Type.

  Record ist : Type := IS {
    i_result : option (option M);     (* outer None: attribute never set *)
    i_ret : option M;
    i_ctl : ctl
  }.

  Definition re_apply (f : refn) (p : pat_out M) : option M :=
    match f with
    | ReMatch => at_start p
    | ReSearch => anywhere p
    | ReFullmatch => None           (* not modelled: never the spec *)
    end.

  Definition guard_holds (g : iguard) (s : ist) : bool :=
    match g, i_ret s with
    | GAlways, _ => true
    | GIfRet, Some _ => true
    | GIfRet, None => false
    | GIfNotRet, Some _ => false
    | GIfNotRet, None => true
    end.

  Definition exec_act (a : iact) (p : pat_out M) (s : ist) : ist :=
    match a with
    | ATry f => IS (i_result s) (re_apply f p) (i_ctl s)
    | ASetResult => IS (Some (i_ret s)) (i_ret s) (i_ctl s)
    | ASetResultNone => IS (Some None) (i_ret s) (i_ctl s)
    | ABreak => IS (i_result s) (i_ret s) CBroke
    | AContinue => IS (i_result s) (i_ret s) CContinued
    end.

  Fixpoint exec_body (b : list (iguard * iact)) (p : pat_out M) (s : ist)
    : ist :=
    match b with
    | [] => s
    | (g, a) :: r =>
        match i_ctl s with
        | CNormal =>
            exec_body r p (if guard_holds g s then exec_act a p s else s)
        | _ => s
        end
    end.

  Fixpoint exec_loop (b : list (iguard * iact)) (pats : list (pat_out M))
    (s : ist) : ist :=
    match pats with
    | [] => s
    | p :: r =>
        let s' := exec_body b p (IS (i_result s) (i_ret s) CNormal) in
        match i_ctl s' with
        | CBroke => s'
        | _ => exec_loop b r s'
        end
    end.

  Fixpoint exec_pre (l : list iact) (s : ist) : ist :=
    match l with
    | [] => s
    | ASetResultNone :: r => exec_pre r (IS (Some None) (i_ret s) (i_ctl s))
    | _ :: r => exec_pre r s
    end.

  (* self.result after __init__; outer None = AttributeError later *)
  Definition exec_init (prog : init_prog) (pats : list (pat_out M))
    : option (option M) :=
    i_result (exec_loop (ip_body prog) pats
                (exec_pre (ip_pre prog) (IS None None CNormal))).
End Init.
Arguments exec_init {M}.

(* ------------------------------------------- extracted program: strptime *)
(* the name looked up: the loop's key, or key.rstrip('s') *)
Inductive nexpr : Type := NKey | NRstripS.
Inductive vsrc : Type :=
| VAttr (n : nexpr)      (* int(getattr(self, n)) *)
| VGroup (n : nexpr).    (* int(self.result.group(n)) *)
Inductive fcond : Type :=
| CHasAttr (n : nexpr)           (* hasattr(self, n) *)
| CGroupCaptured (n : nexpr)     (* the expression captured group n *)
| CNot (c : fcond).

Record strp_prog : Type := SP {
  sp_keys : list string;     (* the literal list the loop runs over *)
  sp_dest : nexpr;           (* vals[<dest>] = ... *)
  sp_cond : fcond;
  sp_then : vsrc;
  sp_else : vsrc
}.

(* str.rstrip('s') *)
Fixpoint rstrip_s (s : string) : string :=
  match s with
  | EmptyString => EmptyString
  | String c r =>
      match rstrip_s r with
      | EmptyString => if Ascii.eqb c "s"%char then EmptyString
                       else String c EmptyString
      | r' => String c r'
      end
  end.

Definition nm (n : nexpr) (key : string) : string :=
  match n with NKey => key | NRstripS => rstrip_s key end.

Section Strptime.
  Variable attrs : string -> option Z.
  Variable groups : string -> gval.

  Fixpoint eval_cond (c : fcond) (key : string) : bool :=
    match c with
    | CHasAttr n => match attrs (nm n key) with Some _ => true | None => false end
    | CGroupCaptured n =>
        match groups (nm n key) with GAbsent => false | _ => true end
    | CNot c' => negb (eval_cond c' key)
    end.

  Definition eval_src (v : vsrc) (key : string) : fval :=
    match v with
    | VAttr n => match attrs (nm n key) with
                 | Some z => FOk z
                 | None => FError          (* AttributeError *)
                 end
    | VGroup n => match groups (nm n key) with
                  | GInt z => FOk z
                  | GNonInt => FValueError
                  | GAbsent => FError
                  end
    end.

  Definition eval_key (p : strp_prog) (key : string) : fval :=
    if eval_cond (sp_cond p) key then eval_src (sp_then p) key
    else eval_src (sp_else p) key.

  (* the vals dict: later keys overwrite earlier ones *)
  Definition vals_of (p : strp_prog) : list (string * fval) :=
    rev (map (fun k => (nm (sp_dest p) k, eval_key p k)) (sp_keys p)).

  (* datetime(year=, month=, day=, hour=, minute=, second=): exactly these
     six keywords (anything else / a missing one is a TypeError) *)
  Definition DT_KWARGS : list string :=
    ["year"; "month"; "day"; "hour"; "minute"; "second"].

  Definition kw (vals : list (string * fval)) (k : string) : Z :=
    match assoc k vals with Some f => fz f | None => 0 end.

  Definition eval_strptime (p : strp_prog) : strp :=
    let vals := vals_of p in
    match first_failure (map (eval_key p) (sp_keys p)) with
    | Some FValueError => SValueError
    | Some _ => SError
    | None =>
        if forallb (fun k => match assoc k vals with Some _ => true
                                                | None => false end) DT_KWARGS
           && forallb (fun kv => existsb (String.eqb (fst kv)) DT_KWARGS) vals
        then SOk (DT (kw vals "year") (kw vals "month") (kw vals "day")
                     (kw vals "hour") (kw vals "minute") (kw vals "second"))
        else SError
    end.
End Strptime.

(* --------------------- extracted program: the line given to the matcher *)
(* operations extracted_datetime applies to `line` before ts_matcher_cls(line) *)
Inductive lineop : Type :=
| LDecodeIfBytes                         (* bytes -> str, str unchanged *)
| LSlice (lo hi : option Z).             (* line = line[lo:hi] *)

(* on an already decoded line (a list of code points); non-negative bounds *)
Definition apply_lineop (o : lineop) (line : list Z) : list Z :=
  match o with
  | LDecodeIfBytes => line
  | LSlice lo hi =>
      let l := match lo with Some a => skipn (Z.to_nat a) line | None => line end in
      match hi with
      | Some b => firstn (Z.to_nat (b - match lo with Some a => a | None => 0 end)) l
      | None => l
      end
  end.

Definition apply_line_ops (ops : list lineop) (line : list Z) : list Z :=
  fold_left (fun l o => apply_lineop o l) ops line.

(* ------------------- extracted program: SearchConstraintSearchSince.apply_to_line *)
Inductive acond : Type :=
| AIsValid              (* self._is_valid *)
| AHasTs                (* truthiness of the extracted datetime *)
| ADateOk               (* self._line_date_is_valid(extracted) *)
| ANot (c : acond).

Inductive aresult : Type :=
| RRaise (x : string) | RRet (b : bool) | RFallOff.

Inductive atree : Type :=
| ALeaf (incs : list string) (r : aresult)    (* counters bumped on the way *)
| ANode (c : acond) (t f : atree).

Section Apply.
  Variables (valid has_ts date_ok : bool).

  Fixpoint eval_acond (c : acond) : bool :=
    match c with
    | AIsValid => valid
    | AHasTs => has_ts
    | ADateOk => date_ok
    | ANot c' => negb (eval_acond c')
    end.

  Fixpoint eval_atree (t : atree) : list string * aresult :=
    match t with
    | ALeaf incs r => (incs, r)
    | ANode c a b => if eval_acond c then eval_atree a else eval_atree b
    end.
End Apply.

Definition count_inc (name : string) (incs : list string) : Z :=
  Z.of_nat (length (filter (String.eqb name) incs)).

(* ------------------------------------------------ strptime-style formats *)
(* the directive letters of a format: the characters that follow a '%' *)
Fixpoint fmt_directives (s : string) : list ascii :=
  match s with
  | String "%" (String c r) => c :: fmt_directives r
  | String _ r => fmt_directives r
  | EmptyString => []
  end.

(* exactly the six whole-second directives, each once, in any order *)
Definition whole_second_format (s : string) : bool :=
  let d := fmt_directives s in
  Nat.eqb (length d) 6 &&
  forallb (fun c => existsb (Ascii.eqb c) d)
          ["Y"; "m"; "d"; "H"; "M"; "S"]%char.

(* what one call of apply_to_line means for the caller and the counters:
   (outcome, increments of _line_pass, of _line_fail); None = a behaviour
   the property has no name for *)
Definition tree_outcome (r : list string * aresult)
  : option (bool * bool * Z * Z) :=
  (* (decided?, passed?, pass increments, fail increments) *)
  let p := count_inc "_line_pass" (fst r) in
  let f := count_inc "_line_fail" (fst r) in
  match snd r with
  | RRet b => Some (true, b, p, f)
  | RRaise x => if String.eqb x "CouldNotApplyConstraint"
                then Some (false, false, p, f) else None
  | RFallOff => None
  end.
