(* Model of the per-file search task (searchkit/task.py SearchTask, the parts
   of searchkit/search.py and searchkit/searchdef.py / result.py it calls).
   Definitions only.

   What is modelled (function by function, as the code is NOW):
     SearchDef.run                     -> sd_run
     SearchResult.store_result         -> store_result (+ store_result_contents)
     SearchDefBase.constraints         -> constraints_of (dict keyed by id)
     SearchConstraintsManager.apply_single -> apply_single
     SearchConstraintsManager.apply_global -> apply_global
     FileSearcher.add (restrictions)   -> add_restriction
     SearchTask.search_defs(+_conditional) -> search_defs
     SearchTask._run_search            -> lines_loop / run_search
     SearchTask._simple_search         -> simple_step + push
     SearchTask._flush_results_buffer  -> flush_loop / flush
     SearchTask.put_result (single process: collection.add) -> coll ++ [batch]
     SearchTask.execute                -> execute
   What is an oracle (tabulated by the harness with plain Python):
     re.match of pattern p on a line   -> omatch p l : option (list Z)
                                          (Some (group 0 :: groups()) as ids)
     re.search of hint h on a line     -> ohint h l : bool
     constraint c on a line            -> ocon c l : Pass | Fail | Undecided
                                          (Undecided = CouldNotApplyConstraint)
     file position left by a file-level constraint -> atf (in lines)
   The per-line loop is generic in the per-definition handler
     step : D -> St -> ln -> line -> St * list R
   (simple searches: St = unit, simple_step below; sequence searches plug in
   their own state machine and an end-of-file [post] pass). *)
From Coq Require Import ZArith List Bool.
Import ListNotations.
Open Scope Z_scope.

(* ---------------------------------------------------------------- basics *)
Inductive outcome : Type := Pass | Fail | Undecided.

Definition is_pass (o : outcome) : bool :=
  match o with Pass => true | _ => false end.
Definition is_fail (o : outcome) : bool :=
  match o with Fail => true | _ => false end.
Definition is_und (o : outcome) : bool :=
  match o with Undecided => true | _ => false end.

Definition memZ (x : Z) (l : list Z) : bool := existsb (Z.eqb x) l.

(* a python dict built by inserting the elements in order, keyed by [key]:
   first occurrence of every key, in first-insertion order *)
Fixpoint dedupe_by {A} (key : A -> Z) (seen : list Z) (l : list A) : list A :=
  match l with
  | [] => []
  | a :: r =>
      if memZ (key a) seen then dedupe_by key seen r
      else a :: dedupe_by key (key a :: seen) r
  end.

(* SearchDefBase.constraints = {c.id: c for c in self._constraints} *)
Definition constraints_of (cids : list Z) : list Z :=
  dedupe_by (fun c => c) [] cids.

(* ------------------------------------------------------- apply_single
   any_passed = False; all_passed = True
   for c in constraints:  True -> any_passed = True; continue
                          CouldNotApplyConstraint -> all_passed = False; continue
                          False -> return (False, False)
   return (any_passed, all_passed)            [(True, True) when no constraints]
   result = (line_is_valid, all_constraints_passed) *)
Fixpoint apply_single_loop (outs : list outcome) (any_passed all_passed : bool)
  : bool * bool :=
  match outs with
  | [] => (any_passed, all_passed)
  | Pass :: r => apply_single_loop r true all_passed
  | Undecided :: r => apply_single_loop r any_passed false
  | Fail :: _ => (false, false)
  end.

Definition apply_single (outs : list outcome) : bool * bool :=
  match outs with
  | [] => (true, true)
  | _ => apply_single_loop outs false true
  end.

(* ------------------------------------------------------- apply_global
   [pos] is the file position in lines (0 = start of file); a file-level
   constraint g applied at position p returns (offset or None, new position)
   - the oracle [atf] (C04 is about what that position is).
     if not global_constraints: return 0
     if global_restrictions & search_ids: return 0
     for c in global_constraints:
        off = c.apply_to_file(fd); if off is not None: return off
     return 0
   Returns (offset, file position, constraints applied). *)
Definition intersects (a b : list Z) : bool := existsb (fun x => memZ x b) a.

Fixpoint apply_global_loop {G} (atf : G -> nat -> option Z * nat)
         (globals : list G) (pos : nat) (applied : list G)
  : Z * nat * list G :=
  match globals with
  | [] => (0, pos, applied)
  | g :: r =>
      let '(off, pos') := atf g pos in
      match off with
      | Some o => (o, pos', applied ++ [g])
      | None => apply_global_loop atf r pos' (applied ++ [g])
      end
  end.

Definition apply_global {G} (atf : G -> nat -> option Z * nat)
           (globals : list G) (restrictions search_ids : list Z)
  : Z * nat * list G :=
  match globals with
  | [] => (0, 0%nat, [])
  | _ => if intersects restrictions search_ids then (0, 0%nat, [])
         else apply_global_loop atf globals 0%nat []
  end.

(* FileSearcher.add: the id joins global_restrictions when the search is
   registered with allow_global_constraints=False *)
Definition add_restriction (restrictions : list Z) (id : Z) (allow : bool)
  : list Z :=
  if allow then restrictions else id :: restrictions.

(* ================================================= the generic task loop *)
Section Loop.
  Variable line : Type.            (* a decoded line (oracle record) *)
  Variable D : Type.               (* search definitions *)
  Variable St : Type.              (* per-definition handler state *)
  Variable R : Type.               (* exported results *)
  Variable key : D -> Z.           (* object identity of a definition *)
  Variable cons : D -> list Z.     (* its constraint ids, as given *)
  Variable ocon : Z -> line -> outcome.
  Variable init : D -> St.
  Variable step : D -> St -> Z -> line -> St * list R.
  (* end-of-file pass (_process_sequence_results); [] for simple searches *)
  Variable post : list (D * St) -> Z -> list R.
  Variable MAX : Z.                (* QueueTransitBuffer.MAX *)
  Variable NBUF : Z.               (* NUM_BUFFERED_RESULTS *)

  (* results_buffer, what put_result handed to the collection (one entry
     per call), and "the flush loop never terminates" *)
  Record tstate : Type := mkT {
    t_buf : list R;
    t_coll : list (list R);
    t_div : bool
  }.

  (* buf[:limit] with python's meaning for any integer limit *)
  Definition py_slice_to (buf : list R) (limit : Z) : list R :=
    if 0 <=? limit then firstn (Z.to_nat limit) buf
    else firstn (length buf - Z.to_nat (- limit)) buf.

  (* for _ in range(n): buf.pop(0)   -> (buffer left, IndexError raised?)
     the pops done before the IndexError stay done *)
  Fixpoint pop_n (n : nat) (buf : list R) : list R * bool :=
    match n with
    | O => (buf, false)
    | S n' =>
        match buf with
        | [] => (buf, true)
        | _ :: t => pop_n n' t
        end
    end.

  (* while self.results_buffer:
        try:    put_result(buf[:limit]); for _ in range(limit): buf.pop(0)
        except IndexError: limit -= 1
     fuel exhausted with a non-empty buffer = the loop does not terminate *)
  Fixpoint flush_loop (fuel : nat) (limit : Z) (buf : list R)
           (coll : list (list R)) : list R * list (list R) * bool :=
    match fuel with
    | O => match buf with [] => ([], coll, false) | _ => (buf, coll, true) end
    | S f =>
        match buf with
        | [] => ([], coll, false)
        | _ =>
            let batch := py_slice_to buf limit in
            let '(buf', raised) := pop_n (Z.to_nat limit) buf in
            flush_loop f (if raised then limit - 1 else limit) buf'
                       (coll ++ [batch])
        end
    end.

  Definition flush (st : tstate) : tstate :=
    if t_div st then st
    else
      let '(b, c, dv) :=
        flush_loop (S (length (t_buf st))) MAX (t_buf st)
                   (t_coll st) in
      mkT b c dv.

  (* results_buffer.append(r); if len(results_buffer) >= NUM_BUFFERED_RESULTS:
     _flush_results_buffer() *)
  Definition push (st : tstate) (r : R) : tstate :=
    if t_div st then st
    else
      let buf := t_buf st ++ [r] in
      let st' := mkT buf (t_coll st) false in
      if NBUF <=? Z.of_nat (length buf) then flush st' else st'.

  (* one entry of search_defs / runnable *)
  Record slot : Type := mkSlot { sl_def : D; sl_run : bool; sl_st : St }.

  Definition has_constraints (d : D) : bool :=
    match constraints_of (cons d) with [] => false | _ => true end.

  (* search_defs: dict keyed by definition, False for the conditional ones *)
  Definition init_slot (d : D) : slot :=
    mkSlot d (negb (has_constraints d)) (init d).
  Definition search_defs (ds : list D) : list slot :=
    map init_slot (dedupe_by key [] ds).

  Definition outcomes (d : D) (l : line) : list outcome :=
    map (fun c => ocon c l) (constraints_of (cons d)).

  (* body of `for s_def in self.search_defs` for one definition:
       if not runnable: ret = apply_single(..)
                        if not ret.line_is_valid: continue
                        runnable = ret.all_constraints_passed
       <search the line>                                                  *)
  Definition slot_step (ln : Z) (l : line) (s : slot) : slot * list R :=
    if sl_run s then
      let '(st', out) := step (sl_def s) (sl_st s) ln l in
      (mkSlot (sl_def s) true st', out)
    else
      let '(valid, allp) := apply_single (outcomes (sl_def s) l) in
      if valid then
        let '(st', out) := step (sl_def s) (sl_st s) ln l in
        (mkSlot (sl_def s) allp st', out)
      else (s, []).

  Fixpoint slots_step (ln : Z) (l : line) (sls : list slot) (st : tstate)
    : list slot * tstate :=
    match sls with
    | [] => ([], st)
    | s :: r =>
        let '(s', out) := slot_step ln l s in
        let st' := fold_left push out st in
        let '(r', st'') := slots_step ln l r st' in
        (s' :: r', st'')
    end.

  (* ln = 0; for ln, line in enumerate(fd, start=1): ...   (returns last ln) *)
  Fixpoint lines_loop (ln : Z) (lines : list line) (sls : list slot)
           (st : tstate) : list slot * tstate * Z :=
    match lines with
    | [] => (sls, st, ln)
    | l :: r =>
        let '(sls', st') := slots_step (ln + 1) l sls st in
        lines_loop (ln + 1) r sls' st'
    end.

  Definition slot_states (sls : list slot) : list (D * St) :=
    map (fun s => (sl_def s, sl_st s)) sls.

  Definition run_search (ds : list D) (lines : list line) : tstate :=
    let '(sls, st, ln) :=
      lines_loop 0 lines (search_defs ds) (mkT [] [] false) in
    fold_left push (post (slot_states sls) ln) st.

  Inductive task_result : Type :=
  | TaskOk (batches : list (list R))   (* what the collection received *)
  | TaskHangs.                         (* _flush_results_buffer spins *)

  (* execute: _run_search, then `finally: self._flush_results_buffer()`.
     (The real execute returns early for a zero-length file; here lines = []
     gives the same empty collection as long as [post] yields nothing for
     handlers that never saw a line.  results_store.sync() is C02/C05's.) *)
  Definition execute (ds : list D) (lines : list line) : task_result :=
    let st := flush (run_search ds lines) in
    if t_div st then TaskHangs else TaskOk (t_coll st).

  (* SearchResultsCollection.add appends every element of every batch *)
  Definition collected (t : task_result) : list R :=
    match t with TaskOk bs => concat bs | TaskHangs => [] end.

  (* a whole file: global constraint first, then the lines from the position
     it left; line numbers count from the first line searched *)
  Definition run_file {G} (atf : G -> nat -> option Z * nat)
             (globals : list G) (restrictions : list Z) (ds : list D)
             (file_lines : list line) : task_result :=
    let ids := map (fun s => key (sl_def s)) (search_defs ds) in
    let '(_, pos, _) := apply_global atf globals restrictions ids in
    execute ds (skipn pos file_lines).
End Loop.

Arguments mkT {R}.
Arguments t_buf {R}.
Arguments t_coll {R}.
Arguments t_div {R}.
Arguments TaskOk {R}.
Arguments TaskHangs {R}.
Arguments collected {R}.
Arguments sl_def {D St}.
Arguments sl_run {D St}.
Arguments sl_st {D St}.
Arguments mkSlot {D St}.

(* ===================================================== simple searches *)
Record sdef : Type := mkSdef {
  s_key : Z;               (* object identity *)
  s_pats : list Z;         (* pattern ids, in list order *)
  s_hint : option Z;       (* hint id *)
  s_store : bool;          (* store_result_contents *)
  s_tag : Z;               (* tag id *)
  s_cons : list Z          (* constraint ids *)
}.

Record result : Type := mkResult {
  r_key : Z;               (* ghost: which definition produced it *)
  r_ln : Z;                (* linenumber *)
  r_tag : Z;
  r_parts : list (Z * Z)   (* (part index, value id) *)
}.

Section Simple.
  Variable line : Type.
  (* re.match: None, or Some (group(0) :: groups()) as value ids *)
  Variable omatch : Z -> line -> option (list Z).
  (* re.search of the hint *)
  Variable ohint : Z -> line -> bool.

  (* for pattern in self.patterns: ret = pattern.match(line); if ret: break *)
  Fixpoint first_match (pats : list Z) (l : line) : option (list Z) :=
    match pats with
    | [] => None
    | p :: r =>
        match omatch p l with
        | Some g => Some g
        | None => first_match r l
        end
    end.

  (* SearchDef.run *)
  Definition sd_run (d : sdef) (l : line) : option (list Z) :=
    match s_hint d with
    | Some h => if ohint h l then first_match (s_pats d) l else None
    | None => first_match (s_pats d) l
    end.

  (* for i in range(1, num_groups + 1): _save_part(i, result.group(i)) *)
  Fixpoint save_groups (i : Z) (gs : list Z) : list (Z * Z) :=
    match gs with
    | [] => []
    | g :: r => (i, g) :: save_groups (i + 1) r
    end.

  (* SearchResult.store_result on (group 0 :: groups) *)
  Definition store_result (groups : list Z) : list (Z * Z) :=
    match groups with
    | [] => []                       (* no group 0: not a match object *)
    | g0 :: [] => [(0, g0)]
    | _ :: gs => save_groups 1 gs
    end.

  Definition mk_result (d : sdef) (ln : Z) (groups : list Z) : result :=
    mkResult (s_key d) ln (s_tag d)
             (if s_store d then store_result groups else []).

  (* _simple_search: state-less handler, at most one result per line *)
  Definition simple_step (d : sdef) (_ : unit) (ln : Z) (l : line)
    : unit * list result :=
    match sd_run d l with
    | Some g => (tt, [mk_result d ln g])
    | None => (tt, [])
    end.

  Variable ocon : Z -> line -> outcome.

  Definition simple_execute (MAX NBUF : Z) (ds : list sdef)
             (lines : list line) : task_result result :=
    execute line sdef unit result s_key s_cons ocon (fun _ => tt)
            simple_step (fun _ _ => []) MAX NBUF ds lines.

  Definition simple_run_file {G} (MAX NBUF : Z)
             (atf : G -> nat -> option Z * nat) (globals : list G)
             (restrictions : list Z) (ds : list sdef)
             (file_lines : list line) : task_result result :=
    run_file line sdef unit result s_key s_cons ocon (fun _ => tt)
             simple_step (fun _ _ => []) MAX NBUF atf globals restrictions
             ds file_lines.
End Simple.

(* ------------------------------------------ table-driven oracle records
   (used by the cases files and the examples: a line is the table of what
   re / the constraints answer on it) *)
Record tline : Type := mkTline {
  tl_match : list (Z * list Z);     (* pattern id -> group 0 :: groups *)
  tl_hint : list Z;                 (* hint ids found in the line *)
  tl_con : list (Z * outcome)       (* constraint id -> outcome *)
}.

Fixpoint assocZ {A} (k : Z) (l : list (Z * A)) : option A :=
  match l with
  | [] => None
  | (k', v) :: r => if k =? k' then Some v else assocZ k r
  end.

Definition t_omatch (p : Z) (l : tline) : option (list Z) :=
  assocZ p (tl_match l).
Definition t_ohint (h : Z) (l : tline) : bool := memZ h (tl_hint l).
(* a constraint absent from the table cannot be applied *)
Definition t_ocon (c : Z) (l : tline) : outcome :=
  match assocZ c (tl_con l) with Some o => o | None => Undecided end.
