(* Common definitions: a universal value type used to compare model outputs
   with canonicalised implementation outputs inside Coq (cases files). *)
From Coq Require Import ZArith List Bool.
Import ListNotations.
Open Scope Z_scope.

Inductive jv : Type :=
| JZ (z : Z)
| JL (l : list jv).

Fixpoint jv_eqb (a b : jv) {struct a} : bool :=
  match a, b with
  | JZ x, JZ y => Z.eqb x y
  | JL xs, JL ys =>
      (fix go (xs ys : list jv) {struct xs} : bool :=
         match xs, ys with
         | [], [] => true
         | x :: xs', y :: ys' => jv_eqb x y && go xs' ys'
         | _, _ => false
         end) xs ys
  | _, _ => false
  end.

Definition JB (b : bool) : jv := JZ (if b then 1 else 0).
Definition JO {A} (f : A -> jv) (o : option A) : jv :=
  match o with None => JL [] | Some a => JL [f a] end.
Definition JZs (l : list Z) : jv := JL (map JZ l).

(* indices (from 0) of the positions where the two lists differ; a length
   mismatch is reported as index -1 *)
Fixpoint mismatches_from (i : Z) (got want : list jv) : list Z :=
  match got, want with
  | [], [] => []
  | g :: gs, w :: ws =>
      if jv_eqb g w then mismatches_from (i + 1) gs ws
      else i :: mismatches_from (i + 1) gs ws
  | _, _ => [-1]
  end.
Definition mismatches := mismatches_from 0.

Definition nthZ {A} (l : list A) (i : Z) (d : A) : A :=
  if i <? 0 then d else nth (Z.to_nat i) l d.

Definition lenZ {A} (l : list A) : Z := Z.of_nat (length l).

(* repeat with a binary count: avoids large nat literals in cases files *)
Definition repeatN {A} (x : A) (n : N) : list A :=
  N.iter n (fun l => x :: l) [].
