(* Model of SearchConstraintSearchSince.__init__ / since_date /
   extracted_datetime / apply_to_line / stats (searchkit/constraints.py).

   The three source expressions the behaviour hinges on are PARAMETERS of the
   model; Props/C16.v and the harness instantiate them with the functions the
   translator regenerates from the source on every run (Gen/Exprs.v):
     init     = since_init          (days/hours selection of __init__)
     since_of = since_secs          (current_date - timedelta(days, hours or 0))
     date_ok  = line_date_is_valid  (_line_date_is_valid)
   The timestamp matcher (regex patterns, field overrides) is an oracle: a
   line enters as [None] (no pattern matched) or [Some fields]. *)
From Coq Require Import ZArith List Bool.
From SK Require Import Model.Dates Spec.Since.   (* Spec: the [outcome] type *)
Import ListNotations.
Open Scope Z_scope.

(* the constraint object: configuration and the two line counters *)
Record cstate : Type := CS {
  c_cur : Z;       (* current_date, in seconds *)
  c_days : Z;      (* self.days *)
  c_hours : Z;     (* self.hours *)
  c_pass : Z;      (* self._line_pass *)
  c_fail : Z       (* self._line_fail *)
}.

(* extracted_datetime: matched fields -> datetime(year=.., ..); a ValueError
   (fields that are no real date) means "no timestamp" *)
Definition extracted_datetime (line : option dt) : option Z :=
  match line with
  | None => None
  | Some t => if valid_dt t then Some (secs t) else None
  end.

Section Since.
  Variable init : Z -> Z -> Z * Z.
  Variable since_of : Z -> Z -> Z -> Z.
  Variable date_ok : Z -> Z -> bool.

  (* __init__(current_date, ts_matcher_cls, days, hours) *)
  Definition mk (cur days hours : Z) : cstate :=
    let '(d, h) := init days hours in CS cur d h 0 0.

  (* since_date (a cached property of fields that never change) *)
  Definition since (st : cstate) : Z :=
    since_of (c_cur st) (c_days st) (c_hours st).

  (* apply_to_line: True / False / raise CouldNotApplyConstraint *)
  Definition apply_to_line (st : cstate) (line : option dt)
    : outcome * cstate :=
    match extracted_datetime line with
    | None => (Undecided, st)
    | Some ts =>
        if date_ok ts (since st)
        then (Pass, CS (c_cur st) (c_days st) (c_hours st)
                       (c_pass st + 1) (c_fail st))
        else (Fail, CS (c_cur st) (c_days st) (c_hours st)
                       (c_pass st) (c_fail st + 1))
    end.

  (* the lines presented one after the other to the same object *)
  Fixpoint run (st : cstate) (lines : list (option dt))
    : list outcome * cstate :=
    match lines with
    | [] => ([], st)
    | l :: r =>
        let '(o, st1) := apply_to_line st l in
        let '(os, st2) := run st1 r in
        (o :: os, st2)
    end.

  (* a fresh constraint, then the lines; stats()['line'] at the end *)
  Definition session (cur : dt) (days hours : Z) (lines : list (option dt))
    : Z * list outcome * Z * Z :=
    let st0 := mk (secs cur) days hours in
    let '(os, st) := run st0 lines in
    (since st0, os, c_pass st, c_fail st).
End Since.
