(* C03 - T1 tie between the model of Model/Sequence.v and the TREE skeletons
   of SearchTask._sequence_search / _process_sequence_results that the
   translator regenerates from the source (Gen/SkelTree.v).  Definitions
   only.

   (a) [calls_only]: the tree with every Rd/Wr event erased - calls and
       if / loop / try structure only; expected shapes below, each written
       next to the model branch it corresponds to.
   (b) [interp]: a small interpreter of such a tree over the model's own
       state ([ctl], [op] lists): every Call event IS the corresponding model
       operation, every `if` is classified by what it reads and decided by
       the corresponding model condition ([sinterp], [einterp]); it names the
       attributes (and the local `ret`) the source must have read for that
       test (since the last call / test; an assignment is not a read) - extra reads, logging and other harmless edits do not
       matter, a dropped, re-ordered or re-nested test or call does.
   Props/C03.v proves: interpreting the extracted tree = [ctl_step]. *)
From Coq Require Import String ZArith List Bool Arith.
From SK Require Import Model.Skel Model.Stm Model.Sequence.
Import ListNotations.
Open Scope list_scope.

(* ------------------------------------------------------------ (a) shape *)
Fixpoint calls_only (s : stm) : list stm :=
  let go := fix go (l : list stm) : list stm :=
              match l with [] => [] | x :: r => calls_only x ++ go r end in
  match s with
  | SEv (Rd _) | SEv (Wr _) => []
  | SEv e => [SEv e]
  | SRaise x => [SRaise x]
  | SExit => [SExit]
  | SIf a b => [SIf (go a) (go b)]
  | SLoop b => [SLoop (go b)]
  | STry b hs o f =>
      [STry (go b) (map (fun h => (fst h, go (snd h))) hs) (go o) (go f)]
  end.

Fixpoint calls_only_list (l : list stm) : list stm :=
  match l with [] => [] | x :: r => calls_only x ++ calls_only_list r end.

Local Open Scope string_scope.

(* _sequence_search: how often each call occurs in the source text (in any
   arrangement of ifs / early returns / helpers walked in place): the start
   pattern, the end pattern and the body pattern are each run at ONE place;
   one remove + reset (restart); one stop; two starts (first start, and
   re-open without an end); results are added at two places (start/end
   result, body result) *)
Fixpoint calls_of (s : stm) : list string :=
  let go := fix go (l : list stm) : list string :=
              match l with [] => [] | x :: r => (calls_of x ++ go r)%list end in
  match s with
  | SEv (Call f) => [f]
  | SIf a b => (go a ++ go b)%list
  | SLoop b => go b
  | STry b hs o f => (go b ++ go o ++ go f)%list
  | _ => []
  end.
Fixpoint calls_of_list (l : list stm) : list string :=
  match l with [] => [] | x :: r => (calls_of x ++ calls_of_list r)%list end.
Definition count_call (f : string) (l : list stm) : nat :=
  length (filter (String.eqb f) (calls_of_list l)).
Definition expected_sequence_search_counts : list (string * nat) :=
  [("start_run", 1); ("end_run", 1); ("body_run", 1);
   ("results_remove", 1); ("def_reset", 1); ("def_stop", 1);
   ("def_start", 2); ("results_add", 2)]%nat.
Definition sequence_search_counts (t : list stm) : bool :=
  forallb (fun fc => Nat.eqb (count_call (fst fc) t) (snd fc))
          expected_sequence_search_counts
  && Nat.eqb (length (calls_of_list t)) 10.

(* ------------------------------------------------------ (b) interpreter *)
Record ist := {
  i_k : ctl;                 (* the definition's state *)
  i_ret : option Z;          (* `ret` *)
  i_sid : nat;               (* last value read from current_section_id *)
  i_role : role;             (* `s_term`: which sub-definition tags the result *)
  i_ops : list op;           (* effects on the SequenceSearchResults object *)
  i_flt : list nat;          (* section ids put into filter_section_id *)
  i_reads : list string      (* attributes read since the last call / test *)
}.

Definition upd_k (s : ist) (k : ctl) (r : role) : ist :=
  {| i_k := k; i_ret := i_ret s; i_sid := i_sid s; i_role := r;
     i_ops := i_ops s; i_flt := i_flt s; i_reads := [] |}.
Definition upd_ret (s : ist) (v : option Z) (r : role) : ist :=
  {| i_k := i_k s; i_ret := v; i_sid := i_sid s; i_role := r;
     i_ops := i_ops s; i_flt := i_flt s; i_reads := [] |}.
Definition upd_ops (s : ist) (o : op) : ist :=
  {| i_k := i_k s; i_ret := i_ret s; i_sid := i_sid s; i_role := i_role s;
     i_ops := i_ops s ++ [o]; i_flt := i_flt s; i_reads := [] |}.
Definition note_read (s : ist) (a : string) : ist :=
  {| i_k := i_k s; i_ret := i_ret s;
     i_sid := if String.eqb a "section_id" then cur (i_k s) else i_sid s;
     i_role := i_role s; i_ops := i_ops s;
     i_flt := if String.eqb a "filter" then [cur (i_k s)] else i_flt s;
     i_reads := a :: i_reads s |}.
Definition note_write (s : ist) (a : string) : ist :=
  {| i_k := i_k s; i_ret := i_ret s; i_sid := i_sid s; i_role := i_role s;
     i_ops := i_ops s;
     i_flt := if String.eqb a "filter" then [cur (i_k s)] else i_flt s;
     i_reads := i_reads s |}.
Definition clear_reads (s : ist) : ist :=
  {| i_k := i_k s; i_ret := i_ret s; i_sid := i_sid s; i_role := i_role s;
     i_ops := i_ops s; i_flt := i_flt s; i_reads := [] |}.

Definition reads_ok (need have : list string) : bool :=
  forallb (fun a => existsb (String.eqb a) have) need.

(* one event = one model operation.  The role of a stored result is that of
   the sub-definition handled last (start() goes with s_term = s_start,
   stop() with s_term = s_end, s_body.run with s_body). *)
Definition do_ev (sh : shape) (c : cline) (e : ev) (s : ist) : option ist :=
  match e with
  | Rd a => Some (note_read s a)
  | Wr a => Some (note_write s a)      (* e.g. `ret = ...`: not a read *)
  | Call f =>
      if String.eqb f "start_run" then Some (upd_ret s (c_start c) RStart)
      else if String.eqb f "end_run" then Some (upd_ret s (c_end c) REnd)
      else if String.eqb f "body_run" then Some (upd_ret s (c_body c) RBody)
      else if String.eqb f "end_run_empty"
      then Some (upd_ret s (end_empty sh) REnd)
      else if String.eqb f "def_reset"
      then Some (upd_k s (do_reset (i_k s)) (i_role s))
      else if String.eqb f "def_start"
      then Some (upd_k s (do_start (i_k s)) RStart)
      else if String.eqb f "def_stop"
      then Some (upd_k s (do_stop (i_k s)) REnd)
      else if String.eqb f "results_remove"
      then Some (upd_ops s (Remove (i_sid s)))
      else if String.eqb f "results_add"
      then match i_ret s with
           | Some v =>
               if reads_ok ["ret"] (i_reads s)      (* the match is `ret` *)
               then Some (upd_ops s (Add (i_role s) (i_sid s) v))
               else None
           | None => None               (* a result without a match *)
           end
      else None                         (* a call the model does not know *)
  | _ => None
  end.

Definition ist0 (k : ctl) : ist :=
  {| i_k := k; i_ret := None; i_sid := O; i_role := RStart; i_ops := [];
     i_flt := []; i_reads := [] |}.

Definition has_ret (s : ist) : bool :=
  match i_ret s with Some _ => true | None => false end.

(* ---- _process_sequence_results, first loop, one definition.

   The tests of this loop are written in many equivalent ways (three
   `if ..: continue` guards, one merged guard, a nested `if`, either branch
   order), so they are NOT matched by position.  Every `if` is classified by
   the attributes it reads (since the last call / test):
     reads `ret`                 -> decided by "the end pattern matched ''"
     reads `filter`              -> a membership test on filter_section_id:
                                    BOTH branches are followed and must give
                                    the same outcome
     otherwise a GATE            -> the conjunction of "started" (if it
        reads `started`) and "has an end" (if it reads `s_end`); the branch
        that leads on to the run of the end pattern is taken when it holds,
        the other one (e.g. `continue`) when it does not
   and the run of the end pattern on '' must come after gates that have read
   both `started` and `s_end`.  (Whether a test is negated cannot be seen in
   the skeleton; that is what the differential runs check.) *)
Fixpoint has_call (f : string) (s : stm) : bool :=
  let go := fix go (l : list stm) : bool :=
              match l with [] => false | x :: r => has_call f x || go r end in
  match s with
  | SEv (Call g) => String.eqb f g
  | SIf a b => go a || go b
  | SLoop b => go b
  | _ => false
  end.
Fixpoint has_call_list (f : string) (l : list stm) : bool :=
  match l with [] => false | x :: r => has_call f x || has_call_list f r end.

Fixpoint has_exit (s : stm) : bool :=
  let go := fix go (l : list stm) : bool :=
              match l with [] => false | x :: r => has_exit x || go r end in
  match s with
  | SExit => true
  | SIf a b => go a || go b
  | _ => false
  end.
Fixpoint has_exit_list (l : list stm) : bool :=
  match l with [] => false | x :: r => has_exit x || has_exit_list r end.

Definition smem (a : string) (l : list string) : bool :=
  existsb (String.eqb a) l.

Inductive eres :=
| EOk (s : ist) (tested : list string) (exited : bool)
| EErr.

Definition eclear (o : eres) : eres :=
  match o with
  | EOk s td ex => EOk (clear_reads s) td ex
  | EErr => EErr
  end.

Fixpoint einterp (sh : shape) (s : stm) (st : ist) (td : list string)
  : list eres :=
  let go := fix go (l : list stm) (st : ist) (td : list string) : list eres :=
    match l with
    | [] => [EOk st td false]
    | x :: r =>
        flat_map (fun o => match o with
                           | EOk st1 td1 false => go r st1 td1
                           | other => [other]
                           end) (einterp sh x st td)
    end in
  match s with
  | SEv (Call f) =>
      if String.eqb f "end_run_empty" &&
         negb (smem "started" td && smem "s_end" td)
      then [EErr]            (* the end pattern is run on an untested def *)
      else match do_ev sh no_match (Call f) st with
           | Some st' => [EOk st' td false]
           | None => [EErr]
           end
  | SEv e =>
      match do_ev sh no_match e st with
      | Some st' => [EOk st' td false]
      | None => [EErr]
      end
  | SExit => [EOk st td true]
  | SIf a b =>
      let rd := i_reads st in
      let st0 := clear_reads st in
      map eclear
        (if smem "filter" rd then (go a st0 td ++ go b st0 td)%list
         else if smem "ret" rd then
           (if has_ret st then go a st0 td else go b st0 td)
         else
           let ok := implb (smem "started" rd) (started (i_k st))
                     && implb (smem "s_end" rd) (has_end sh) in
           let td' := (rd ++ td)%list in
           let pa := has_call_list "end_run_empty" a in
           let pb := has_call_list "end_run_empty" b in
           let xa := has_exit_list a in
           let xb := has_exit_list b in
           if pa && negb pb then (if ok then go a st0 td' else go b st0 td')
           else if pb && negb pa
           then (if ok then go b st0 td' else go a st0 td')
           else if negb pa && negb pb && xa && negb xb
           then (if ok then go b st0 td' else go a st0 td')
           else if negb pa && negb pb && xb && negb xa
           then (if ok then go a st0 td' else go b st0 td')
           else [EErr])
  | _ => [EErr]
  end.

Fixpoint einterp_list (sh : shape) (l : list stm) (st : ist)
         (td : list string) : list eres :=
  match l with
  | [] => [EOk st td false]
  | x :: r =>
      flat_map (fun o => match o with
                         | EOk st1 td1 false => einterp_list sh r st1 td1
                         | other => [other]
                         end) (einterp sh x st td)
  end.

Definition first_loop_body (t : list stm) : option (list stm) :=
  match filter (fun s => match s with SLoop _ => true | _ => false end) t with
  | SLoop b :: _ => Some b
  | _ => None
  end.

Definition eout (o : eres) : option (list op * list nat) :=
  match o with EOk s _ _ => Some (i_ops s, i_flt s) | EErr => None end.

(* one definition at end of file: results added, section ids filtered - one
   outcome per way through the membership tests on the filter (all of them
   must be the model's action) *)
Definition eof_outcomes (t : list stm) (sh : shape) (k : ctl)
  : list (option (list op * list nat)) :=
  match first_loop_body t with
  | Some body => map eout (einterp_list sh body (ist0 k) [])
  | None => []
  end.

(* ---- _sequence_search, one line.

   As for the end-of-file pass, the tests are NOT matched by position (the
   function may be written with `elif`, with early returns, with the
   start/stop part in a private helper walked in place ...).  An `if` is
   classified by what it reads, and the side that is taken when the model's
   condition holds is recognised by what the branches DO:
     reads `ret`                       the match so far is Some / None.
        None side: the branch that runs another pattern (end_run, body_run);
        otherwise Some side: the branch that adds / removes results
     reads `s_end` and `started`       has_end && started.  True side: the
        branch with the restart (results_remove) or the end pattern
     reads `s_body` (and `started`)    (started &&) has_body.  True side:
        the branch that runs the body pattern; else the side that does NOT
        leave the function
     reads `started` only              started.  True side: the branch with
        stop(); else the side without start()
     reads `s_end` only                has_end.  False side: the branch with
        the (second) start(); else the side that leaves
   anything else is an error (fail closed). *)
Definition has_any (fs : list string) (l : list stm) : bool :=
  existsb (fun f => has_call_list f l) fs.

(* [side ta tb xa xb] = which branch is the TRUE side: Some true = a,
   Some false = b; ta/tb: the branch shows the true-side mark *)
Definition pick (ta tb : bool) : option bool :=
  if ta && negb tb then Some true
  else if tb && negb ta then Some false
  else None.
Definition orelse_pick (p q : option bool) : option bool :=
  match p with Some _ => p | None => q end.
Definition flip (p : option bool) : option bool := option_map negb p.

Inductive sres := SOk (s : ist) (exited : bool) | SErr.

Definition sclear (o : sres) : sres :=
  match o with SOk s ex => SOk (clear_reads s) ex | SErr => SErr end.

Fixpoint sinterp (sh : shape) (c : cline) (s : stm) (st : ist) : sres :=
  let go := fix go (l : list stm) (st : ist) : sres :=
    match l with
    | [] => SOk st false
    | x :: r =>
        match sinterp sh c x st with
        | SOk st1 false => go r st1
        | other => other
        end
    end in
  match s with
  | SEv e =>
      match do_ev sh c e st with Some st' => SOk st' false | None => SErr end
  | SExit => SOk st true
  | SIf a b =>
      let rd := i_reads st in
      let st0 := clear_reads st in
      let xa := has_exit_list a in
      let xb := has_exit_list b in
      (* (condition, which branch is its true side) *)
      let r_ret := smem "ret" rd in
      let r_end := smem "s_end" rd in
      let r_st := smem "started" rd in
      let r_body := smem "s_body" rd in
      (* the test is about EXACTLY the attributes of its class *)
      let decision : option (bool * bool) :=
        if r_ret && (r_end || r_st || r_body) then None
        else if r_body && r_end then None
        else if smem "ret" rd then
          option_map (pair (has_ret st))
            (orelse_pick
               (flip (pick (has_any ["end_run"; "body_run"] a)
                           (has_any ["end_run"; "body_run"] b)))
               (pick (has_any ["results_add"; "results_remove"] a)
                     (has_any ["results_add"; "results_remove"] b)))
        else if smem "s_end" rd && smem "started" rd then
          option_map (pair (has_end sh && started (i_k st)))
            (pick (has_any ["results_remove"; "end_run"] a)
                  (has_any ["results_remove"; "end_run"] b))
        else if smem "s_body" rd then
          option_map
            (pair (implb (smem "started" rd) (started (i_k st))
                   && has_body sh))
            (orelse_pick (pick (has_any ["body_run"] a)
                               (has_any ["body_run"] b))
                         (flip (pick xa xb)))
        else if smem "started" rd then
          option_map (pair (started (i_k st)))
            (orelse_pick (pick (has_any ["def_stop"] a)
                               (has_any ["def_stop"] b))
                         (flip (pick (has_any ["def_start"] a)
                                     (has_any ["def_start"] b))))
        else if smem "s_end" rd then
          option_map (pair (has_end sh))
            (orelse_pick (flip (pick (has_any ["def_start"] a)
                                     (has_any ["def_start"] b)))
                         (pick xa xb))
        else None in
      match decision with
      | Some (cond, a_is_true) =>
          sclear (if Bool.eqb cond a_is_true then go a st0 else go b st0)
      | None => SErr
      end
  | _ => SErr
  end.

Fixpoint sinterp_list (sh : shape) (c : cline) (l : list stm) (st : ist)
  : sres :=
  match l with
  | [] => SOk st false
  | x :: r =>
      match sinterp sh c x st with
      | SOk st1 false => sinterp_list sh c r st1
      | other => other
      end
  end.

(* the whole of _sequence_search for one line *)
Definition run_seq_tree (t : list stm) (sh : shape) (k : ctl) (c : cline)
  : option (ctl * list op) :=
  match sinterp_list sh c t (ist0 k) with
  | SOk s _ => Some (i_k s, i_ops s)
  | SErr => None
  end.

(* what the model does with one definition at end of file (seq_eof and
   m_eof_scan), as effects: an end result in the current section, or the
   current section filtered *)
Definition eof_action (sh : shape) (k : ctl) : list op * list nat :=
  if started k && has_end sh then
    match end_empty sh with
    | Some v => ([Add REnd (cur k) v], [])
    | None => ([], [cur k])
    end
  else ([], []).

Definition apply_eof (act : list op * list nat) (acc : list part) (ln : Z)
  : list part :=
  filter (fun p => negb (existsb (Nat.eqb (fst p)) (snd act)))
         (apply_ops (ln + 1)%Z (fst act) acc).

(* ------------------------------------------------------------------------
   SequenceSearchDef.start / reset / stop as extracted by
   translator/plugins/sequence.py (Gen/XSequence.v): straight-line programs
   over the definition's fields. *)
Inductive dstm :=
| DSetMark (m : option Z)   (* self._mark = <literal> *)
| DFreshId                  (* self._section_id = str(uuid.uuid4()) *)
| DCheckId                  (* if self.current_section_id is None: raise *)
| DComplete.                (* self.completed_sections.append(current id) *)

(* `started` is `self._mark == started_mark` *)
Definition mark_started (started_mark : Z) (m : option Z) : bool :=
  match m with Some z => Z.eqb z started_mark | None => false end.

(* state: the model's [ctl] and the list completed_sections; a fresh uuid4
   is the next value of the counter, as everywhere in the model.  DCheckId
   cannot fire: stop() is only called on a started definition, whose id was
   set by start(). *)
Definition run_dstm (started_mark : Z) (st : ctl * list nat) (s : dstm)
  : ctl * list nat :=
  let '(k, comp) := st in
  match s with
  | DSetMark m =>
      ({| started := mark_started started_mark m; cur := cur k;
          next := next k |}, comp)
  | DFreshId =>
      ({| started := started k; cur := next k; next := S (next k) |}, comp)
  | DCheckId => (k, comp)
  | DComplete => (k, (comp ++ [cur k])%list)
  end.

Definition run_dstms (started_mark : Z) (p : list dstm) (st : ctl * list nat)
  : ctl * list nat := fold_left (run_dstm started_mark) p st.

(* which part of a sequence definition (start / end / body argument of
   __init__) is tagged with which suffix: the link table of __init__
   composed with the suffix of each tag property *)
Fixpoint assoc_str (k : string) (l : list (string * string)) : option string :=
  match l with
  | [] => None
  | (a, b) :: r => if String.eqb a k then Some b else assoc_str k r
  end.
Definition part_suffixes (links suffixes : list (string * string))
  : list (string * option string) :=
  map (fun lk => (fst lk, assoc_str (snd lk) suffixes)) links.
(* the harness reads a result's role from exactly these suffixes *)
Definition expected_part_suffixes : list (string * option string) :=
  [("body", Some "-body"); ("end", Some "-end"); ("start", Some "-start")].
