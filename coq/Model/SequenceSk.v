(* C03 - T1 tie between the model of Model/Sequence.v and the TREE skeletons
   of SearchTask._sequence_search / _process_sequence_results that the
   translator regenerates from the source (Gen/SkelTree.v).  Definitions
   only.

   (a) [calls_only]: the tree with every Rd/Wr event erased - calls and
       if / loop / try structure only; expected shapes below, each written
       next to the model branch it corresponds to.
   (b) [interp]: a small interpreter of such a tree over the model's own
       state ([ctl], [op] lists): every Call event IS the corresponding model
       operation, every `if` is decided by the model condition supplied in
       source order ([seq_guards]; for the end-of-file pass see [einterp]); a guard also names the
       attributes (and the local `ret`) the source must have read for that
       test (since the last call / test; an assignment is not a read) - extra reads, logging and other harmless edits do not
       matter, a dropped, re-ordered or re-nested test or call does.
   Props/C03.v proves: interpreting the extracted tree = [ctl_step]. *)
From Coq Require Import String ZArith List Bool Arith.
From SK Require Import Model.Skel Model.Stm Model.Sequence.
Import ListNotations.
Open Scope list_scope.

(* ------------------------------------------------------------ (a) shape *)
Fixpoint calls_only (s : stm) : list stm :=
  let go := fix go (l : list stm) : list stm :=
              match l with [] => [] | x :: r => calls_only x ++ go r end in
  match s with
  | SEv (Rd _) | SEv (Wr _) => []
  | SEv e => [SEv e]
  | SRaise x => [SRaise x]
  | SExit => [SExit]
  | SIf a b => [SIf (go a) (go b)]
  | SLoop b => [SLoop (go b)]
  | STry b hs o f =>
      [STry (go b) (map (fun h => (fst h, go (snd h))) hs) (go o) (go f)]
  end.

Fixpoint calls_only_list (l : list stm) : list stm :=
  match l with [] => [] | x :: r => calls_only x ++ calls_only_list r end.

Local Open Scope string_scope.

(* _sequence_search, calls and tests only *)
Definition expected_sequence_search : list stm :=
  [ SEv (Call "start_run");              (* ret := c_start c *)
    SIf                                  (* has_end sh && started k *)
      [ SIf                              (*   match ret with Some _ *)
          [ SEv (Call "results_remove"); (*     restart (cur k) *)
            SEv (Call "def_reset") ]     (*     do_reset k *)
          [ SEv (Call "end_run") ] ]     (*   | None => c_end c *)
      [];
    SIf                                  (* match ret1 with Some v *)
      [ SIf                              (*   negb (started k1) *)
          [ SEv (Call "def_start") ]     (*     do_start k1 *)
          [ SEv (Call "def_stop");       (*     do_stop k1 *)
            SIf                          (*     negb (has_end sh) *)
              [ SEv (Call "def_start") ] (*       do_start k2 *)
              [] ];
        SEv (Call "results_add") ]       (*   ops1 ++ [Add .. v] *)
      [ SIf                              (* | None: started k1 && has_body sh *)
          [ SEv (Call "body_run");       (*     c_body c *)
            SIf                          (*     Some v *)
              [ SEv (Call "results_add") ] (*     ops1 ++ [Add RBody (cur k1) v] *)
              [] ]
          [] ] ].

(* ------------------------------------------------------ (b) interpreter *)
Record ist := {
  i_k : ctl;                 (* the definition's state *)
  i_ret : option Z;          (* `ret` *)
  i_sid : nat;               (* last value read from current_section_id *)
  i_role : role;             (* `s_term`: which sub-definition tags the result *)
  i_ops : list op;           (* effects on the SequenceSearchResults object *)
  i_flt : list nat;          (* section ids put into filter_section_id *)
  i_reads : list string      (* attributes read since the last call / test *)
}.

Definition upd_k (s : ist) (k : ctl) (r : role) : ist :=
  {| i_k := k; i_ret := i_ret s; i_sid := i_sid s; i_role := r;
     i_ops := i_ops s; i_flt := i_flt s; i_reads := [] |}.
Definition upd_ret (s : ist) (v : option Z) (r : role) : ist :=
  {| i_k := i_k s; i_ret := v; i_sid := i_sid s; i_role := r;
     i_ops := i_ops s; i_flt := i_flt s; i_reads := [] |}.
Definition upd_ops (s : ist) (o : op) : ist :=
  {| i_k := i_k s; i_ret := i_ret s; i_sid := i_sid s; i_role := i_role s;
     i_ops := i_ops s ++ [o]; i_flt := i_flt s; i_reads := [] |}.
Definition note_read (s : ist) (a : string) : ist :=
  {| i_k := i_k s; i_ret := i_ret s;
     i_sid := if String.eqb a "section_id" then cur (i_k s) else i_sid s;
     i_role := i_role s; i_ops := i_ops s;
     i_flt := if String.eqb a "filter" then [cur (i_k s)] else i_flt s;
     i_reads := a :: i_reads s |}.
Definition note_write (s : ist) (a : string) : ist :=
  {| i_k := i_k s; i_ret := i_ret s; i_sid := i_sid s; i_role := i_role s;
     i_ops := i_ops s;
     i_flt := if String.eqb a "filter" then [cur (i_k s)] else i_flt s;
     i_reads := i_reads s |}.
Definition clear_reads (s : ist) : ist :=
  {| i_k := i_k s; i_ret := i_ret s; i_sid := i_sid s; i_role := i_role s;
     i_ops := i_ops s; i_flt := i_flt s; i_reads := [] |}.

Definition reads_ok (need have : list string) : bool :=
  forallb (fun a => existsb (String.eqb a) have) need.

(* one event = one model operation.  The role of a stored result is that of
   the sub-definition handled last (start() goes with s_term = s_start,
   stop() with s_term = s_end, s_body.run with s_body). *)
Definition do_ev (sh : shape) (c : cline) (e : ev) (s : ist) : option ist :=
  match e with
  | Rd a => Some (note_read s a)
  | Wr a => Some (note_write s a)      (* e.g. `ret = ...`: not a read *)
  | Call f =>
      if String.eqb f "start_run" then Some (upd_ret s (c_start c) RStart)
      else if String.eqb f "end_run" then Some (upd_ret s (c_end c) REnd)
      else if String.eqb f "body_run" then Some (upd_ret s (c_body c) RBody)
      else if String.eqb f "end_run_empty"
      then Some (upd_ret s (end_empty sh) REnd)
      else if String.eqb f "def_reset"
      then Some (upd_k s (do_reset (i_k s)) (i_role s))
      else if String.eqb f "def_start"
      then Some (upd_k s (do_start (i_k s)) RStart)
      else if String.eqb f "def_stop"
      then Some (upd_k s (do_stop (i_k s)) REnd)
      else if String.eqb f "results_remove"
      then Some (upd_ops s (Remove (i_sid s)))
      else if String.eqb f "results_add"
      then match i_ret s with
           | Some v =>
               if reads_ok ["ret"] (i_reads s)      (* the match is `ret` *)
               then Some (upd_ops s (Add (i_role s) (i_sid s) v))
               else None
           | None => None               (* a result without a match *)
           end
      else None                         (* a call the model does not know *)
  | _ => None
  end.

(* a test: the attributes the source reads for it, and the model condition *)
Definition guard := (list string * (ist -> bool))%type.


Inductive ires := IOk (s : ist) (gs : list guard) (exited : bool) | IErr.

Fixpoint count_ifs (s : stm) : nat :=
  let go := fix go (l : list stm) : nat :=
              match l with [] => O | x :: r => (count_ifs x + go r)%nat end in
  match s with
  | SIf a b => S (go a + go b)%nat
  | SLoop b => go b
  | _ => O
  end.
Fixpoint count_ifs_list (l : list stm) : nat :=
  match l with [] => O | x :: r => (count_ifs x + count_ifs_list r)%nat end.

(* guards are consumed in source order (pre-order of the `if`s); the tests
   of a branch not taken are skipped *)
Fixpoint interp (sh : shape) (c : cline) (s : stm) (st : ist)
         (gs : list guard) : ires :=
  let go := fix go (l : list stm) (st : ist) (gs : list guard) : ires :=
    match l with
    | [] => IOk st gs false
    | x :: r =>
        match interp sh c x st gs with
        | IOk st1 gs1 false => go r st1 gs1
        | other => other
        end
    end in
  match s with
  | SEv e =>
      match do_ev sh c e st with Some st' => IOk st' gs false | None => IErr end
  | SExit => IOk st gs true
  | SIf a b =>
      match gs with
      | [] => IErr
      | (need, cond) :: gs' =>
          if reads_ok need (i_reads st) then
            if cond st then
              match go a (clear_reads st) gs' with
              | IOk st1 gs1 ex =>
                  IOk (clear_reads st1) (skipn (count_ifs_list b) gs1) ex
              | IErr => IErr
              end
            else
              match go b (clear_reads st) (skipn (count_ifs_list a) gs') with
              | IOk st1 gs1 ex => IOk (clear_reads st1) gs1 ex
              | IErr => IErr
              end
          else IErr
      end
  | _ => IErr
  end.

Fixpoint interp_list (sh : shape) (c : cline) (l : list stm) (st : ist)
         (gs : list guard) : ires :=
  match l with
  | [] => IOk st gs false
  | x :: r =>
      match interp sh c x st gs with
      | IOk st1 gs1 false => interp_list sh c r st1 gs1
      | other => other
      end
  end.

Definition ist0 (k : ctl) : ist :=
  {| i_k := k; i_ret := None; i_sid := O; i_role := RStart; i_ops := [];
     i_flt := []; i_reads := [] |}.

Definition has_ret (s : ist) : bool :=
  match i_ret s with Some _ => true | None => false end.

(* the tests of _sequence_search in source order, as the model decides them
   (compare ctl_step_with in Model/Sequence.v) *)
Definition seq_guards (sh : shape) : list guard :=
  [ (* if seq_def.s_end and seq_def.started: *)
    (["s_end"; "started"], fun s => has_end sh && started (i_k s));
    (*     if ret:   (restart) *)
    (["ret"], has_ret);
    (* if ret: *)
    (["ret"], has_ret);
    (*     if not seq_def.started: *)
    (["started"], fun s => negb (started (i_k s)));
    (*         if seq_def.s_end is None: *)
    (["s_end"], fun _ => negb (has_end sh));
    (* elif seq_def.started and seq_def.s_body: *)
    (["started"; "s_body"], fun s => started (i_k s) && has_body sh);
    (*     if ret:   (body) *)
    (["ret"], has_ret) ].

(* the whole of _sequence_search for one line: every test used, no early
   exit *)
Definition run_seq_tree (t : list stm) (sh : shape) (k : ctl) (c : cline)
  : option (ctl * list op) :=
  match interp_list sh c t (ist0 k) (seq_guards sh) with
  | IOk s [] false => Some (i_k s, i_ops s)
  | _ => None
  end.

(* ---- _process_sequence_results, first loop, one definition.

   The tests of this loop are written in many equivalent ways (three
   `if ..: continue` guards, one merged guard, a nested `if`, either branch
   order), so they are NOT matched by position.  Every `if` is classified by
   the attributes it reads (since the last call / test):
     reads `ret`                 -> decided by "the end pattern matched ''"
     reads `filter`              -> a membership test on filter_section_id:
                                    BOTH branches are followed and must give
                                    the same outcome
     otherwise a GATE            -> the conjunction of "started" (if it
        reads `started`) and "has an end" (if it reads `s_end`); the branch
        that leads on to the run of the end pattern is taken when it holds,
        the other one (e.g. `continue`) when it does not
   and the run of the end pattern on '' must come after gates that have read
   both `started` and `s_end`.  (Whether a test is negated cannot be seen in
   the skeleton; that is what the differential runs check.) *)
Fixpoint has_call (f : string) (s : stm) : bool :=
  let go := fix go (l : list stm) : bool :=
              match l with [] => false | x :: r => has_call f x || go r end in
  match s with
  | SEv (Call g) => String.eqb f g
  | SIf a b => go a || go b
  | SLoop b => go b
  | _ => false
  end.
Fixpoint has_call_list (f : string) (l : list stm) : bool :=
  match l with [] => false | x :: r => has_call f x || has_call_list f r end.

Fixpoint has_exit (s : stm) : bool :=
  let go := fix go (l : list stm) : bool :=
              match l with [] => false | x :: r => has_exit x || go r end in
  match s with
  | SExit => true
  | SIf a b => go a || go b
  | _ => false
  end.
Fixpoint has_exit_list (l : list stm) : bool :=
  match l with [] => false | x :: r => has_exit x || has_exit_list r end.

Definition smem (a : string) (l : list string) : bool :=
  existsb (String.eqb a) l.

Inductive eres :=
| EOk (s : ist) (tested : list string) (exited : bool)
| EErr.

Definition eclear (o : eres) : eres :=
  match o with
  | EOk s td ex => EOk (clear_reads s) td ex
  | EErr => EErr
  end.

Fixpoint einterp (sh : shape) (s : stm) (st : ist) (td : list string)
  : list eres :=
  let go := fix go (l : list stm) (st : ist) (td : list string) : list eres :=
    match l with
    | [] => [EOk st td false]
    | x :: r =>
        flat_map (fun o => match o with
                           | EOk st1 td1 false => go r st1 td1
                           | other => [other]
                           end) (einterp sh x st td)
    end in
  match s with
  | SEv (Call f) =>
      if String.eqb f "end_run_empty" &&
         negb (smem "started" td && smem "s_end" td)
      then [EErr]            (* the end pattern is run on an untested def *)
      else match do_ev sh no_match (Call f) st with
           | Some st' => [EOk st' td false]
           | None => [EErr]
           end
  | SEv e =>
      match do_ev sh no_match e st with
      | Some st' => [EOk st' td false]
      | None => [EErr]
      end
  | SExit => [EOk st td true]
  | SIf a b =>
      let rd := i_reads st in
      let st0 := clear_reads st in
      map eclear
        (if smem "filter" rd then (go a st0 td ++ go b st0 td)%list
         else if smem "ret" rd then
           (if has_ret st then go a st0 td else go b st0 td)
         else
           let ok := implb (smem "started" rd) (started (i_k st))
                     && implb (smem "s_end" rd) (has_end sh) in
           let td' := (rd ++ td)%list in
           let pa := has_call_list "end_run_empty" a in
           let pb := has_call_list "end_run_empty" b in
           let xa := has_exit_list a in
           let xb := has_exit_list b in
           if pa && negb pb then (if ok then go a st0 td' else go b st0 td')
           else if pb && negb pa
           then (if ok then go b st0 td' else go a st0 td')
           else if negb pa && negb pb && xa && negb xb
           then (if ok then go b st0 td' else go a st0 td')
           else if negb pa && negb pb && xb && negb xa
           then (if ok then go a st0 td' else go b st0 td')
           else [EErr])
  | _ => [EErr]
  end.

Fixpoint einterp_list (sh : shape) (l : list stm) (st : ist)
         (td : list string) : list eres :=
  match l with
  | [] => [EOk st td false]
  | x :: r =>
      flat_map (fun o => match o with
                         | EOk st1 td1 false => einterp_list sh r st1 td1
                         | other => [other]
                         end) (einterp sh x st td)
  end.

Definition first_loop_body (t : list stm) : option (list stm) :=
  match filter (fun s => match s with SLoop _ => true | _ => false end) t with
  | SLoop b :: _ => Some b
  | _ => None
  end.

Definition eout (o : eres) : option (list op * list nat) :=
  match o with EOk s _ _ => Some (i_ops s, i_flt s) | EErr => None end.

(* one definition at end of file: results added, section ids filtered - one
   outcome per way through the membership tests on the filter (all of them
   must be the model's action) *)
Definition eof_outcomes (t : list stm) (sh : shape) (k : ctl)
  : list (option (list op * list nat)) :=
  match first_loop_body t with
  | Some body => map eout (einterp_list sh body (ist0 k) [])
  | None => []
  end.

(* what the model does with one definition at end of file (seq_eof and
   m_eof_scan), as effects: an end result in the current section, or the
   current section filtered *)
Definition eof_action (sh : shape) (k : ctl) : list op * list nat :=
  if started k && has_end sh then
    match end_empty sh with
    | Some v => ([Add REnd (cur k) v], [])
    | None => ([], [cur k])
    end
  else ([], []).

Definition apply_eof (act : list op * list nat) (acc : list part) (ln : Z)
  : list part :=
  filter (fun p => negb (existsb (Nat.eqb (fst p)) (snd act)))
         (apply_ops (ln + 1)%Z (fst act) acc).

(* ------------------------------------------------------------------------
   SequenceSearchDef.start / reset / stop as extracted by
   translator/plugins/sequence.py (Gen/XSequence.v): straight-line programs
   over the definition's fields. *)
Inductive dstm :=
| DSetMark (m : option Z)   (* self._mark = <literal> *)
| DFreshId                  (* self._section_id = str(uuid.uuid4()) *)
| DCheckId                  (* if self.current_section_id is None: raise *)
| DComplete.                (* self.completed_sections.append(current id) *)

(* `started` is `self._mark == started_mark` *)
Definition mark_started (started_mark : Z) (m : option Z) : bool :=
  match m with Some z => Z.eqb z started_mark | None => false end.

(* state: the model's [ctl] and the list completed_sections; a fresh uuid4
   is the next value of the counter, as everywhere in the model.  DCheckId
   cannot fire: stop() is only called on a started definition, whose id was
   set by start(). *)
Definition run_dstm (started_mark : Z) (st : ctl * list nat) (s : dstm)
  : ctl * list nat :=
  let '(k, comp) := st in
  match s with
  | DSetMark m =>
      ({| started := mark_started started_mark m; cur := cur k;
          next := next k |}, comp)
  | DFreshId =>
      ({| started := started k; cur := next k; next := S (next k) |}, comp)
  | DCheckId => (k, comp)
  | DComplete => (k, (comp ++ [cur k])%list)
  end.

Definition run_dstms (started_mark : Z) (p : list dstm) (st : ctl * list nat)
  : ctl * list nat := fold_left (run_dstm started_mark) p st.

(* which part of a sequence definition (start / end / body argument of
   __init__) is tagged with which suffix: the link table of __init__
   composed with the suffix of each tag property *)
Fixpoint assoc_str (k : string) (l : list (string * string)) : option string :=
  match l with
  | [] => None
  | (a, b) :: r => if String.eqb a k then Some b else assoc_str k r
  end.
Definition part_suffixes (links suffixes : list (string * string))
  : list (string * option string) :=
  map (fun lk => (fst lk, assoc_str (snd lk) suffixes)) links.
(* the harness reads a result's role from exactly these suffixes *)
Definition expected_part_suffixes : list (string * option string) :=
  [("body", Some "-body"); ("end", Some "-end"); ("start", Some "-start")].
