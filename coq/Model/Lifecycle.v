(* C10 - life cycle of ONE multi-file FileSearcher.run(): a small-step model.

   Actors: the main thread (run -> _run_mp), the pool's worker processes
   (SearchTask.execute), the executor's management thread ("pool"), the two
   helper threads (_get_info, _get_results).  A schedule is a list of actor
   ids; [step] is a partial function (None = the actor cannot move now:
   blocked on a lock / a join / nothing to do), so the model is
   finite-branching and executable.

   The two module-level locks (RESULTS_STORE_LOCK, RESULTS_COLLECTION_LOCK)
   are multiprocessing.Lock objects, i.e. semaphores: they have an owner that
   SURVIVES the run and the death of the owning process.

   What comes from the source (Gen/Skeleton.v, through the functions at the
   end of this file): execute()'s handler table, whether sync() sits outside
   its try, what _run_mp's two BrokenProcessPool handlers raise, which stop()
   calls are in _run_mp's finally and whether that finally first force-frees
   the store lock (the repair of D8).  The step function consults these
   [facts]; nothing about them is hard-wired ([f_fin_free = false] is the
   code before the repair, kept as regression corpus in Props/C10.v).

   Definitions only - no proofs in this file. *)
From Coq Require Import String List Bool Arith.
From SK Require Import Model.Skel.
Import ListNotations.

(* ------------------------------------------------------------ exceptions *)
Definition exc := string.                       (* an exception class name *)
Definition E_FSE : exc := "FileSearchException"%string.
Definition E_UDE : exc := "UnicodeDecodeError"%string.
Definition E_BPP : exc :=
  "concurrent.futures.process.BrokenProcessPool"%string.

(* `except h` catches class e (all classes used here derive from Exception) *)
Definition catches (h e : string) : bool :=
  String.eqb h e || String.eqb h "Exception" || String.eqb h "BaseException".

(* handler table: (caught class, raised class | "reraise") in source order *)
Fixpoint map_exc (hs : list (string * string)) (e : exc) : exc :=
  match hs with
  | [] => e
  | (h, r) :: rest =>
      if catches h e then (if String.eqb r "reraise" then e else r)
      else map_exc rest e
  end.

(* --------------------------------------------------------- task programs *)
Inductive label := LOpen | LLine | LPut | LFlush | LMisc.

Inductive item :=
| IStep (l : label)        (* one step that holds no lock *)
| ICrit (k : nat)          (* `with RESULTS_STORE_LOCK:` around k accesses *)
| IEndTry.                 (* control leaves execute()'s outer try *)

Definition prog := list item.

Definition is_endtry (it : item) : bool :=
  match it with IEndTry => true | _ => false end.

(* position i is still inside the try iff the IEndTry marker lies ahead *)
Definition in_try (p : prog) (i : nat) : bool := existsb is_endtry (skipn i p).

(* ------------------------------------------------------------ fault plan *)
Inductive kind := KRaise (e : exc) | KExit.

(* fires when the worker running task [p_task] stands at item [p_i];
   [p_j = Some r]: inside that item's locked region with r accesses to go *)
Record plan := mkPlan { p_task : nat; p_i : nat; p_j : option nat;
                        p_kind : kind }.

Record facts := mkFacts {
  f_handlers : list (string * string);  (* execute(): outer handler table *)
  f_inner : list (string * string);  (* _run_mp: try around the future loop *)
  f_outer : list (string * string);  (* _run_mp: try around the pool block *)
  f_fin_res : bool;           (* results_thread.stop() in _run_mp's finally *)
  f_fin_info : bool;          (* info_thread.stop()    in _run_mp's finally *)
  f_fin_free : bool }.        (* the finally first force-frees the store lock *)

(* class leaving _run_mp for an exception raised by future.result() /
   by executor.submit() on a broken pool *)
Definition main_class (f : facts) (e : exc) : exc :=
  map_exc (f_outer f) (map_exc (f_inner f) e).
Definition submit_class (f : facts) : exc := map_exc (f_outer f) E_BPP.

Definition facts_ok (f : facts) : bool :=
  String.eqb (main_class f E_BPP) E_FSE && String.eqb (submit_class f) E_FSE
  && f_fin_res f && f_fin_info f.

Record cfg := mkCfg {
  c_progs : list prog;        (* one task per file *)
  c_workers : nat;            (* pool size *)
  c_plan : option plan;
  c_ibud : nat;               (* how often the info thread may poll *)
  c_rbud : nat }.             (* how many batches the results thread takes *)

Definition ntasks (c : cfg) : nat := length (c_progs c).
Definition prog_of (c : cfg) (t : nat) : prog := nth t (c_progs c) [].

(* class that reaches the parent for exception e injected at item i of t *)
Definition raise_class (f : facts) (c : cfg) (t i : nat) (e : exc) : exc :=
  if in_try (prog_of c t) i then map_exc (f_handlers f) e else e.

(* ----------------------------------------------------------------- state *)
Inductive owner := OMain | OInfo | ORes | OWorker (w : nat) | ODead.

Inductive fut := FNone | FQueued | FRunning | FOk | FExc (e : exc) | FBroken.

Inductive wst :=
| WIdle
| WRun (t i : nat) (j : option nat)
| WDead (holding : bool).    (* a dead process keeps a lock it owned *)

Inductive ist := INotStarted | ILoop | IWantStore | IInStore | IWantColl
               | IInColl | IDone.
Inductive rst := RNotStarted | RLoop | RWantColl | RInColl | RFinalWant
               | RFinalIn | RDone.
Inductive pst := PoolOk | PoolDying | PoolBroken.

Inductive phase := PBody | PFin.   (* stop() calls of the body / the finally *)

Inductive mpc :=
| MEnterMgr                         (* with multiprocessing.Manager() *)
| MSubmit (k : nat)                 (* executor.submit of task k *)
| MStartInfo | MStartRes
| MWait                             (* as_completed / future.result() *)
| MStopRes (ph : phase) (oe : option exc) | MJoinRes (ph : phase) (oe : option exc)
| MStopInfo (ph : phase) (oe : option exc) | MJoinInfo (ph : phase) (oe : option exc)
| MPurgeAcq | MPurgeIn              (* _purge_results *)
| MKill                             (* _ensure_worker_processes_killed *)
| MExitPool (oe : option exc)       (* executor.__exit__: shutdown(wait) *)
| MFreeStore (oe : option exc)      (* finally: acquire(timeout) ; release() *)
| MUnproxyAcq | MUnproxyIn          (* rs.unproxy_results() *)
| MExitMgr (oe : option exc)        (* manager shutdown *)
| MReturn | MRaised (e : exc).

Record state := mkS {
  s_pc : mpc;
  s_futs : nat -> fut;
  s_ws : nat -> wst;
  s_info : ist; s_istop : bool; s_ibud : nat;
  s_res : rst; s_rstop : bool; s_rbud : nat;
  s_store : option owner;          (* RESULTS_STORE_LOCK *)
  s_coll : option owner;           (* RESULTS_COLLECTION_LOCK *)
  s_pool : pst;
  s_mgr : bool;                    (* the SyncManager process is alive *)
  s_fired : bool }.

Definition set_pc s v := mkS v (s_futs s) (s_ws s) (s_info s) (s_istop s) (s_ibud s) (s_res s) (s_rstop s) (s_rbud s) (s_store s) (s_coll s) (s_pool s) (s_mgr s) (s_fired s).
Definition set_futs s v := mkS (s_pc s) v (s_ws s) (s_info s) (s_istop s) (s_ibud s) (s_res s) (s_rstop s) (s_rbud s) (s_store s) (s_coll s) (s_pool s) (s_mgr s) (s_fired s).
Definition set_ws s v := mkS (s_pc s) (s_futs s) v (s_info s) (s_istop s) (s_ibud s) (s_res s) (s_rstop s) (s_rbud s) (s_store s) (s_coll s) (s_pool s) (s_mgr s) (s_fired s).
Definition set_info s v := mkS (s_pc s) (s_futs s) (s_ws s) v (s_istop s) (s_ibud s) (s_res s) (s_rstop s) (s_rbud s) (s_store s) (s_coll s) (s_pool s) (s_mgr s) (s_fired s).
Definition set_istop s v := mkS (s_pc s) (s_futs s) (s_ws s) (s_info s) v (s_ibud s) (s_res s) (s_rstop s) (s_rbud s) (s_store s) (s_coll s) (s_pool s) (s_mgr s) (s_fired s).
Definition set_ibud s v := mkS (s_pc s) (s_futs s) (s_ws s) (s_info s) (s_istop s) v (s_res s) (s_rstop s) (s_rbud s) (s_store s) (s_coll s) (s_pool s) (s_mgr s) (s_fired s).
Definition set_res s v := mkS (s_pc s) (s_futs s) (s_ws s) (s_info s) (s_istop s) (s_ibud s) v (s_rstop s) (s_rbud s) (s_store s) (s_coll s) (s_pool s) (s_mgr s) (s_fired s).
Definition set_rstop s v := mkS (s_pc s) (s_futs s) (s_ws s) (s_info s) (s_istop s) (s_ibud s) (s_res s) v (s_rbud s) (s_store s) (s_coll s) (s_pool s) (s_mgr s) (s_fired s).
Definition set_rbud s v := mkS (s_pc s) (s_futs s) (s_ws s) (s_info s) (s_istop s) (s_ibud s) (s_res s) (s_rstop s) v (s_store s) (s_coll s) (s_pool s) (s_mgr s) (s_fired s).
Definition set_store s v := mkS (s_pc s) (s_futs s) (s_ws s) (s_info s) (s_istop s) (s_ibud s) (s_res s) (s_rstop s) (s_rbud s) v (s_coll s) (s_pool s) (s_mgr s) (s_fired s).
Definition set_coll s v := mkS (s_pc s) (s_futs s) (s_ws s) (s_info s) (s_istop s) (s_ibud s) (s_res s) (s_rstop s) (s_rbud s) (s_store s) v (s_pool s) (s_mgr s) (s_fired s).
Definition set_pool s v := mkS (s_pc s) (s_futs s) (s_ws s) (s_info s) (s_istop s) (s_ibud s) (s_res s) (s_rstop s) (s_rbud s) (s_store s) (s_coll s) v (s_mgr s) (s_fired s).
Definition set_mgr s v := mkS (s_pc s) (s_futs s) (s_ws s) (s_info s) (s_istop s) (s_ibud s) (s_res s) (s_rstop s) (s_rbud s) (s_store s) (s_coll s) (s_pool s) v (s_fired s).
Definition set_fired s v := mkS (s_pc s) (s_futs s) (s_ws s) (s_info s) (s_istop s) (s_ibud s) (s_res s) (s_rstop s) (s_rbud s) (s_store s) (s_coll s) (s_pool s) (s_mgr s) v.

Definition upd {A} (g : nat -> A) (i : nat) (x : A) : nat -> A :=
  fun k => if Nat.eqb k i then x else g k.

(* smallest index below n satisfying p *)
Fixpoint first_lt (n : nat) (p : nat -> bool) : option nat :=
  match n with
  | O => None
  | S m => match first_lt m p with
           | Some i => Some i
           | None => if p m then Some m else None
           end
  end.

Fixpoint all_lt (n : nat) (p : nat -> bool) : bool :=
  match n with O => true | S m => all_lt m p && p m end.

(* ------------------------------------------------------------- predicates *)
Definition is_queued (x : fut) := match x with FQueued => true | _ => false end.
Definition is_pending (x : fut) :=
  match x with FQueued | FRunning => true | _ => false end.
Definition is_ok (x : fut) := match x with FOk => true | _ => false end.
Definition is_broken (x : fut) := match x with FBroken => true | _ => false end.
Definition exc_of (x : fut) : option exc :=
  match x with FExc e => Some e | _ => None end.
Definition is_excd (x : fut) := match x with FExc _ => true | _ => false end.

Definition is_idle (x : wst) := match x with WIdle => true | _ => false end.
Definition is_dead (x : wst) := match x with WDead _ => true | _ => false end.
Definition is_live (x : wst) := negb (is_dead x).
Definition wholds (x : wst) : bool :=
  match x with WRun _ _ (Some _) => true | WDead h => h | _ => false end.
(* SIGTERM / SIGKILL / os._exit: the process is gone, its lock is not *)
Definition kill (x : wst) : wst :=
  match x with WDead h => WDead h | other => WDead (wholds other) end.
(* the lock a dead process owned has been taken away from it *)
Definition unhold (x : wst) : wst :=
  match x with WDead _ => WDead false | other => other end.

Definition isSome {A} (o : option A) : bool :=
  match o with Some _ => true | None => false end.

Definition owner_eqb (a b : owner) : bool :=
  match a, b with
  | OMain, OMain | OInfo, OInfo | ORes, ORes | ODead, ODead => true
  | OWorker x, OWorker y => Nat.eqb x y
  | _, _ => false
  end.

Definition final_pc (p : mpc) : bool :=
  match p with MReturn | MRaised _ => true | _ => false end.
Definition final (s : state) : bool := final_pc (s_pc s).

(* ------------------------------------------------------------ main thread *)
Definition after_fin (oe : option exc) : mpc :=
  match oe with None => MUnproxyAcq | Some e => MExitMgr (Some e) end.
Definition fin_info_entry (f : facts) (oe : option exc) : mpc :=
  if f_fin_info f then MStopInfo PFin oe else after_fin oe.
Definition fin_entry (f : facts) (oe : option exc) : mpc :=
  if f_fin_res f then MStopRes PFin oe else fin_info_entry f oe.
Definition next_after_res (f : facts) (ph : phase) (oe : option exc) : mpc :=
  match ph with PBody => MStopInfo PBody oe | PFin => fin_info_entry f oe end.
Definition next_after_info (ph : phase) (oe : option exc) : mpc :=
  match ph with PBody => MPurgeAcq | PFin => after_fin oe end.

Definition first_exc (n : nat) (futs : nat -> fut) : option exc :=
  match first_lt n (fun t => is_excd (futs t)) with
  | Some t => exc_of (futs t)
  | None => None
  end.

Definition step_main (f : facts) (c : cfg) (s : state) : option state :=
  let n := ntasks c in
  match s_pc s with
  | MEnterMgr => Some (set_pc (set_mgr s true) (MSubmit 0))
  | MSubmit k =>
      if Nat.ltb k n then
        match s_pool s with
        | PoolBroken =>
            (* submit() on a pool already marked broken raises
               BrokenProcessPool; the submit loop is outside _run_mp's inner
               try, only the outer handlers see it *)
            Some (set_pc s (MExitPool (Some (submit_class f))))
        | _ => Some (set_pc (set_futs s (upd (s_futs s) k FQueued))
                            (MSubmit (S k)))
        end
      else Some (set_pc s MStartInfo)
  | MStartInfo => Some (set_pc (set_info s ILoop) MStartRes)
  | MStartRes => Some (set_pc (set_res s RLoop) MWait)
  | MWait =>
      match first_exc n (s_futs s) with
      | Some e => Some (set_pc s (MExitPool (Some (main_class f e))))
      | None =>
          if negb (all_lt n (fun t => negb (is_broken (s_futs s t)))) then
            Some (set_pc s (MExitPool (Some (main_class f E_BPP))))
          else if all_lt n (fun t => is_ok (s_futs s t)) then
            Some (set_pc s (MStopRes PBody None))
          else None
      end
  | MStopRes ph oe =>          (* ThreadManager.stop(): `if self.running` *)
      match s_res s with
      | RNotStarted => Some (set_pc s (next_after_res f ph oe))
      | _ => Some (set_pc (set_rstop s true) (MJoinRes ph oe))
      end
  | MJoinRes ph oe =>
      match s_res s with
      | RDone => Some (set_pc s (next_after_res f ph oe))
      | _ => None
      end
  | MStopInfo ph oe =>
      match s_info s with
      | INotStarted => Some (set_pc s (next_after_info ph oe))
      | _ => Some (set_pc (set_istop s true) (MJoinInfo ph oe))
      end
  | MJoinInfo ph oe =>
      match s_info s with
      | IDone => Some (set_pc s (next_after_info ph oe))
      | _ => None
      end
  | MPurgeAcq =>
      match s_coll s with
      | None => Some (set_pc (set_coll s (Some OMain)) MPurgeIn)
      | Some _ => None
      end
  | MPurgeIn => Some (set_pc (set_coll s None) MKill)
  | MKill =>
      Some (set_pc (set_ws s (fun w => if Nat.ltb w (c_workers c)
                                       then kill (s_ws s w) else s_ws s w))
                   (MExitPool None))
  | MExitPool oe =>
      if all_lt (c_workers c) (fun w => is_dead (s_ws s w))
      then Some (set_pc s (if f_fin_free f then MFreeStore oe
                           else fin_entry f oe))
      else None
  | MFreeStore oe =>
      (* `if not LOCK.acquire(timeout=1): warn` then an unconditional
         LOCK.release(): a semaphore may be released by anybody.  The live
         threads of this process hold the lock for far less than the
         timeout, so the acquire only times out on an owner that is gone:
         wait for a live holder, take the lock away from anyone else *)
      match s_store s with
      | Some OInfo | Some OMain | Some ORes => None
      | _ => Some (set_pc (set_ws (set_store s None)
                                  (fun w => unhold (s_ws s w)))
                          (fin_entry f oe))
      end
  | MUnproxyAcq =>
      match s_store s with
      | None => Some (set_pc (set_store s (Some OMain)) MUnproxyIn)
      | Some _ => None
      end
  | MUnproxyIn => Some (set_pc (set_store s None) (MExitMgr None))
  | MExitMgr oe =>
      Some (set_pc (set_mgr s false)
                   (match oe with None => MReturn | Some e => MRaised e end))
  | MReturn | MRaised _ => None
  end.

(* --------------------------------------------------------------- a worker *)
Definition fault_here (c : cfg) (s : state) (t i : nat) (j : option nat)
  : option kind :=
  match c_plan c with
  | Some p =>
      if negb (s_fired s) && Nat.eqb (p_task p) t && Nat.eqb (p_i p) i &&
         match p_j p, j with
         | None, None => true
         | Some a, Some b => Nat.eqb a b
         | _, _ => false
         end
      then Some (p_kind p) else None
  | None => None
  end.

Definition release_if (held : bool) (s : state) : state :=
  if held then set_store s None else s.

Definition step_worker (f : facts) (c : cfg) (s : state) (w : nat)
  : option state :=
  if negb (Nat.ltb w (c_workers c)) then None else
  match s_ws s w with
  | WDead _ => None
  | WIdle =>
      match first_lt (ntasks c) (fun t => is_queued (s_futs s t)) with
      | Some t => Some (set_ws (set_futs s (upd (s_futs s) t FRunning))
                               (upd (s_ws s) w (WRun t 0 None)))
      | None => None
      end
  | WRun t i j =>
      match fault_here c s t i j with
      | Some (KRaise e) =>
          (* the exception unwinds the `with` block (lock released), goes
             through execute()'s handlers if still inside its try, and is
             sent back as the task's result; the worker lives on *)
          let s1 := release_if (isSome j) s in
          Some (set_fired
                  (set_ws (set_futs s1 (upd (s_futs s1) t
                                            (FExc (raise_class f c t i e))))
                          (upd (s_ws s1) w WIdle)) true)
      | Some KExit =>
          (* abrupt exit: the work item can only end up as broken; whatever
             lock the process owns stays owned *)
          Some (set_fired
                  (set_pool
                     (set_ws (set_futs s (upd (s_futs s) t FBroken))
                             (upd (s_ws s) w (WDead (isSome j))))
                     (match s_pool s with PoolOk => PoolDying | x => x end))
                  true)
      | None =>
          match j with
          | Some (S r) => Some (set_ws s (upd (s_ws s) w (WRun t i (Some r))))
          | Some O =>
              Some (set_ws (set_store s None)
                           (upd (s_ws s) w (WRun t (S i) None)))
          | None =>
              match nth_error (prog_of c t) i with
              | None =>         (* execute() returns: result sent back *)
                  let futs' := match s_futs s t with
                               | FRunning => upd (s_futs s) t FOk
                               | _ => s_futs s end in
                  Some (set_ws (set_futs s futs') (upd (s_ws s) w WIdle))
              | Some (ICrit k) =>
                  match s_store s with
                  | None =>
                      Some (set_ws (set_store s (Some (OWorker w)))
                                   (upd (s_ws s) w (WRun t i (Some k))))
                  | Some _ => None                      (* blocked *)
                  end
              | Some _ =>
                  Some (set_ws s (upd (s_ws s) w (WRun t (S i) None)))
              end
          end
      end
  end.

(* ------------------------------------------ the executor's manager thread *)
Definition shutting_down (p : mpc) : bool :=
  match p with MExitPool _ => true | _ => false end.

Definition step_pool (c : cfg) (s : state) : option state :=
  match s_pool s with
  | PoolDying => Some (set_pool s PoolBroken)   (* sentinel seen: _broken *)
  | PoolBroken =>
      (* terminate_broken: fail every pending work item, then terminate
         every remaining worker wherever it is *)
      match first_lt (ntasks c) (fun t => is_pending (s_futs s t)) with
      | Some t => Some (set_futs s (upd (s_futs s) t FBroken))
      | None =>
          match first_lt (c_workers c) (fun w => is_live (s_ws s w)) with
          | Some w => Some (set_ws s (upd (s_ws s) w (kill (s_ws s w))))
          | None => None
          end
      end
  | PoolOk =>
      (* shutdown(wait=True): queued work is still run; a worker with
         nothing left to do exits *)
      if shutting_down (s_pc s) then
        match first_lt (ntasks c) (fun t => is_queued (s_futs s t)) with
        | Some _ => None
        | None =>
            match first_lt (c_workers c) (fun w => is_idle (s_ws s w)) with
            | Some w => Some (set_ws s (upd (s_ws s) w (WDead false)))
            | None => None
            end
        end
      else None
  end.

(* --------------------------------------------------------- helper threads *)
(* _get_info: stop check first; each poll takes the store lock, releases it,
   then takes the collection lock *)
Definition step_info (s : state) : option state :=
  match s_info s with
  | ILoop =>
      if s_istop s then Some (set_info s IDone)
      else match s_ibud s with
           | S b => Some (set_info (set_ibud s b) IWantStore)
           | O => None                           (* sleeping *)
           end
  | IWantStore =>
      match s_store s with
      | None => Some (set_info (set_store s (Some OInfo)) IInStore)
      | Some _ => None
      end
  | IInStore => Some (set_info (set_store s None) IWantColl)
  | IWantColl =>
      match s_coll s with
      | None => Some (set_info (set_coll s (Some OInfo)) IInColl)
      | Some _ => None
      end
  | IInColl => Some (set_info (set_coll s None) ILoop)
  | INotStarted | IDone => None
  end.

(* _get_results: queue first, stop check second; a last look at the
   collection under its lock before exiting *)
Definition step_res (s : state) : option state :=
  match s_res s with
  | RLoop =>
      match s_rbud s with
      | S b => Some (set_res (set_rbud s b) RWantColl)
      | O => if s_rstop s then Some (set_res s RFinalWant) else None
      end
  | RWantColl =>
      match s_coll s with
      | None => Some (set_res (set_coll s (Some ORes)) RInColl)
      | Some _ => None
      end
  | RInColl => Some (set_res (set_coll s None) RLoop)
  | RFinalWant =>
      match s_coll s with
      | None => Some (set_res (set_coll s (Some ORes)) RFinalIn)
      | Some _ => None
      end
  | RFinalIn => Some (set_res (set_coll s None) RDone)
  | RNotStarted | RDone => None
  end.

(* ------------------------------------------------------------------ runs *)
Inductive actor := AMain | AWorker (w : nat) | APool | AInfo | ARes.

Definition step (f : facts) (c : cfg) (s : state) (a : actor) : option state :=
  match a with
  | AMain => step_main f c s
  | AWorker w => step_worker f c s w
  | APool => step_pool c s
  | AInfo => step_info s
  | ARes => step_res s
  end.

Definition step' f c s a : state :=
  match step f c s a with Some s' => s' | None => s end.

Fixpoint run (f : facts) (c : cfg) (sched : list actor) (s : state) : state :=
  match sched with
  | [] => s
  | a :: r => run f c r (step' f c s a)
  end.

(* a run starts with whatever owners the two locks were left with *)
Definition init (c : cfg) (st co : option owner) : state :=
  mkS MEnterMgr (fun _ => FNone) (fun _ => WIdle)
      INotStarted false (c_ibud c) RNotStarted false (c_rbud c)
      st co PoolOk false false.

(* owners seen by the next run: a worker of this run's pool is gone *)
Definition carry (o : option owner) : option owner :=
  match o with Some (OWorker _) => Some ODead | x => x end.

Definition restart (s : state) (c' : cfg) : state :=
  init c' (carry (s_store s)) (carry (s_coll s)).

(* all actors that can ever move *)
Definition actors (c : cfg) : list actor :=
  ([AMain; APool; AInfo; ARes] ++ map AWorker (seq 0 (c_workers c)))%list.

Definition enabledb f c s a : bool := isSome (step f c s a).
Definition stuckb f c s : bool :=
  negb (final s) && forallb (fun a => negb (enabledb f c s a)) (actors c).

(* the lock is owned by a process that no longer exists *)
Definition dead_ownerb (s : state) (o : option owner) : bool :=
  match o with
  | Some ODead => true
  | Some (OWorker w) => is_dead (s_ws s w)
  | _ => false
  end.

(* --------------------------------------------- checkers on handler tables *)
(* execute(): UnicodeDecodeError is re-raised BEFORE the catch-all, the
   catch-all and every other handler raise FileSearchException; only class
   names whose relation to UnicodeDecodeError is known are accepted *)
Fixpoint exec_table_ok (seen_ude : bool) (hs : list (string * string)) : bool :=
  match hs with
  | [] => false
  | (h, r) :: rest =>
      if String.eqb h "Exception" then seen_ude && String.eqb r E_FSE
      else if String.eqb h E_UDE
           then String.eqb r "reraise" && exec_table_ok true rest
           else String.eqb h "EOFError" && String.eqb r E_FSE
                && exec_table_ok seen_ude rest
  end.

(* _run_mp: a try statement catches nothing, or exactly BrokenProcessPool
   (mapping it to FileSearchException): every other class passes unchanged *)
Definition pool_table_ok (hs : list (string * string)) : bool :=
  match hs with
  | [] => true
  | [(h, r)] => String.eqb h E_BPP && String.eqb r E_FSE
  | _ => false
  end.

(* ------------------------------------------------ facts from the skeletons *)
(* handler bodies here are straight-line: the class raised by a handler is
   the first RaiseE before the next structural event; "swallow" if none *)
Fixpoint handler_raises (sk : list ev) : string :=
  match sk with
  | RaiseE r :: _ => r
  | Handler _ :: _ | TryE :: _ | FinallyB :: _ | TryElse :: _ | TryB :: _ =>
      "swallow"%string
  | _ :: r => handler_raises r
  | [] => "swallow"%string
  end.

(* handlers of the try statements at nesting depth d, in source order *)
Fixpoint handlers_at (d depth : nat) (sk : list ev) : list (string * string) :=
  match sk with
  | [] => []
  | TryB :: r => handlers_at d (S depth) r
  | TryE :: r => handlers_at d (pred depth) r
  | Handler h :: r =>
      if Nat.eqb depth d then (h, handler_raises r) :: handlers_at d depth r
      else handlers_at d depth r
  | _ :: r => handlers_at d depth r
  end.

(* Call f occurs, and only at depth 0 after a try statement has been closed *)
Fixpoint call_after_try (f : string) (depth : nat) (closed : bool)
         (sk : list ev) : bool * bool (* (never misplaced, seen) *) :=
  match sk with
  | [] => (true, false)
  | TryB :: r => call_after_try f (S depth) closed r
  | TryE :: r =>
      call_after_try f (pred depth) (closed || Nat.eqb depth 1) r
  | Call g :: r =>
      let '(ok, seen) := call_after_try f depth closed r in
      if String.eqb f g then (ok && Nat.eqb depth 0 && closed, true)
      else (ok, seen)
  | _ :: r => call_after_try f depth closed r
  end.
Definition sync_outside_try (sk : list ev) : bool :=
  let '(ok, seen) := call_after_try "sync" 0 false sk in ok && seen.

(* region stacks (outermost last) at which Call f occurs *)
Inductive region := RgBody | RgHandler | RgElse | RgFinally.
Fixpoint call_regions (f : string) (stack : list region) (sk : list ev)
  : list (list region) :=
  match sk with
  | [] => []
  | TryB :: r => call_regions f (RgBody :: stack) r
  | Handler _ :: r => call_regions f (RgHandler :: tl stack) r
  | TryElse :: r => call_regions f (RgElse :: tl stack) r
  | FinallyB :: r => call_regions f (RgFinally :: tl stack) r
  | TryE :: r => call_regions f (tl stack) r
  | Call g :: r =>
      if String.eqb f g then stack :: call_regions f stack r
      else call_regions f stack r
  | _ :: r => call_regions f stack r
  end.
Definition rg_is_body (r : region) : bool :=
  match r with RgBody => true | _ => false end.
(* Call f occurs, always inside the BODY of the outermost try statement *)
Definition call_in_outer_try_body (f : string) (sk : list ev) : bool :=
  let rs := call_regions f [] sk in
  negb (Nat.eqb (length rs) 0) &&
  forallb (fun st => match rev st with
                     | r :: _ => rg_is_body r
                     | [] => false end) rs.

(* calls in the finally part of the depth-1 try *)
Fixpoint finally_calls (depth : nat) (infin : bool) (sk : list ev)
  : list string :=
  match sk with
  | [] => []
  | TryB :: r => finally_calls (S depth) infin r
  | TryE :: r =>
      finally_calls (pred depth) (if Nat.eqb depth 1 then false else infin) r
  | FinallyB :: r =>
      finally_calls depth (if Nat.eqb depth 1 then true else infin) r
  | Call g :: r =>
      if infin then g :: finally_calls depth infin r
      else finally_calls depth infin r
  | _ :: r => finally_calls depth infin r
  end.

Definition mem_str (x : string) (l : list string) : bool :=
  existsb (String.eqb x) l.

(* calls in the finally part of the depth-1 try that are executed
   unconditionally (inside no `if`) *)
Fixpoint finally_uncond (depth ifd : nat) (infin : bool) (sk : list ev)
  : list string :=
  match sk with
  | [] => []
  | TryB :: r => finally_uncond (S depth) ifd infin r
  | TryE :: r =>
      finally_uncond (pred depth) ifd
                     (if Nat.eqb depth 1 then false else infin) r
  | FinallyB :: r =>
      finally_uncond depth ifd (if Nat.eqb depth 1 then true else infin) r
  | IfB :: r => finally_uncond depth (S ifd) infin r
  | IfE :: r => finally_uncond depth (pred ifd) infin r
  | (LoopB | LoopE) :: r => finally_uncond depth ifd infin r
  | Call g :: r =>
      if infin && Nat.eqb ifd 0 then g :: finally_uncond depth ifd infin r
      else finally_uncond depth ifd infin r
  | _ :: r => finally_uncond depth ifd infin r
  end.

Fixpoint is_subseq (xs l : list string) : bool :=
  match xs, l with
  | [], _ => true
  | _, [] => false
  | x :: xs', y :: l' =>
      if String.eqb x y then is_subseq xs' l' else is_subseq xs l'
  end.

Definition facts_of (sk_execute sk_run_mp : list ev) : facts :=
  let fin := finally_calls 0 false sk_run_mp in
  let unc := finally_uncond 0 0 false sk_run_mp in
  mkFacts (handlers_at 1 0 sk_execute)
          (handlers_at 2 0 sk_run_mp) (handlers_at 1 0 sk_run_mp)
          (mem_str "results_stop" fin) (mem_str "info_stop" fin)
          (* the forced release comes first: before both stop() calls *)
          (is_subseq ["store_lock_force_release"; "results_stop"]%string unc
           && is_subseq ["store_lock_force_release"; "info_stop"]%string unc).

(* the future loop sits in the body of the depth-2 try, the submit loop in
   the body of the depth-1 try only (so [f_inner] applies to the former and
   [f_outer] to both) *)
Definition future_loop_in_inner_try (sk : list ev) : bool :=
  match call_regions "future_result" [] sk with
  | [[RgBody; RgBody]] => true
  | [[RgBody]] => Nat.eqb (length (handlers_at 2 0 sk)) 0  (* no inner try *)
  | _ => false
  end.
Definition submit_in_outer_try_only (sk : list ev) : bool :=
  match call_regions "submit" [] sk with
  | [[RgBody]] => true
  | _ => false
  end.

(* `purge` is called only in normal flow (in no handler / finally region)
   and only after the loop that waits for the futures *)
Definition rg_bad (r : region) : bool :=
  match r with RgHandler | RgFinally => true | _ => false end.
Fixpoint purge_guarded (stack : list region) (sawfut : bool)
         (sk : list ev) : bool * bool (* (ok, seen) *) :=
  match sk with
  | [] => (true, false)
  | TryB :: r => purge_guarded (RgBody :: stack) sawfut r
  | Handler _ :: r => purge_guarded (RgHandler :: tl stack) sawfut r
  | TryElse :: r => purge_guarded (RgElse :: tl stack) sawfut r
  | FinallyB :: r => purge_guarded (RgFinally :: tl stack) sawfut r
  | TryE :: r => purge_guarded (tl stack) sawfut r
  | Call g :: r =>
      if String.eqb g "future_result" then purge_guarded stack true r
      else
        let '(ok, seen) := purge_guarded stack sawfut r in
        if String.eqb g "purge"
        then (ok && sawfut && negb (existsb rg_bad stack), true)
        else (ok, seen)
  | _ :: r => purge_guarded stack sawfut r
  end.
Definition purge_only_after_futures (sk : list ev) : bool :=
  let '(ok, seen) := purge_guarded [] false sk in ok && seen.

(* the given calls occur exactly once each and in this order, and the
   function has no exception handler of its own *)
Fixpoint calls_of (sk : list ev) : list string :=
  match sk with
  | [] => []
  | Call g :: r => g :: calls_of r
  | _ :: r => calls_of r
  end.
Definition count_str (x : string) (l : list string) : nat :=
  length (filter (String.eqb x) l).
Definition no_handlers (sk : list ev) : bool :=
  forallb (fun e => match e with Handler _ => false | _ => true end) sk.
Definition unproxy_inside_manager (sk : list ev) : bool :=
  let cs := calls_of sk in
  let want := ["mgr_enter"; "run_mp"; "unproxy"; "mgr_exit"]%string in
  is_subseq want cs && forallb (fun x => Nat.eqb (count_str x cs) 1) want
  && no_handlers sk.

(* the stop() calls of the normal path precede purge *)
Definition stops_before_purge (sk : list ev) : bool :=
  is_subseq ["future_result"; "results_stop"; "info_stop"; "purge";
             "kill_workers"; "pool_exit"]%string (calls_of sk).

(* --------------------------------------- task programs from the skeletons *)
(* accesses of a skeleton that sit inside its "store" section *)
Fixpoint crit_accesses (held : bool) (sk : list ev) : nat :=
  match sk with
  | [] => 0
  | Acq l :: r => crit_accesses (held || String.eqb l "store") r
  | Rel l :: r => crit_accesses (held && negb (String.eqb l "store")) r
  | (Rd _ | Wr _ | Call _) :: r =>
      (if held then 1 else 0) + crit_accesses held r
  | _ :: r => crit_accesses held r
  end.
Definition takes_store_lock (sk : list ev) : bool :=
  Nat.eqb (count_acq "store" sk) 1.
Definition crit_of (sk : list ev) : item := ICrit (crit_accesses false sk).

(* the files of the fault sweep: [l0] lines before the first result (the
   first result allocates an index block), then [b] times a line followed by
   a hand-over, the final flush, and the store sync *)
Definition task_prog (alloc sync : item) (sync_outside : bool)
           (l0 b : nat) : prog :=
  let body := ([IStep LOpen] ++ repeat (IStep LLine) l0 ++ [alloc]
               ++ concat (repeat [IStep LLine; IStep LPut] b)
               ++ [IStep LFlush])%list in
  if sync_outside then (body ++ [IEndTry; sync])%list
  else (body ++ [sync; IEndTry])%list.

Inductive point :=
| PtBeforeOpen | PtLine | PtBeforePut | PtAfterPut
| PtBeforeAlloc | PtAllocInside | PtAfterAlloc
| PtBeforeSync | PtSyncInside | PtAfterSync | PtAfterLast.

Definition crit_k (it : item) : nat :=
  match it with ICrit k => k | _ => 0 end.

(* where a named point of the sweep lies in [task_prog alloc sync so l0 b]
   (b >= 1) *)
Definition point_pos (alloc sync : item) (sync_outside : bool) (l0 b : nat)
           (pt : point) : nat * option nat :=
  let ia := 1 + l0 in
  let iflush := ia + 1 + 2 * b in
  let isync := if sync_outside then iflush + 2 else iflush + 1 in
  match pt with
  | PtBeforeOpen => (0, None)
  | PtLine => (ia + 1, None)
  | PtBeforePut => (ia + 2, None)
  | PtAfterPut => (ia + 3, None)
  | PtBeforeAlloc => (ia, None)
  | PtAllocInside => (ia, Some (crit_k alloc))
  | PtAfterAlloc => (ia + 1, None)
  | PtBeforeSync => (isync, None)
  | PtSyncInside => (isync, Some (crit_k sync))
  | PtAfterSync => (isync + 1, None)
  | PtAfterLast => (iflush + 3, None)
  end.
