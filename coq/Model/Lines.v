(* How a binary file iterates into lines (Python: `for line in fd` on a file
   opened 'rb', also GzipFile): a line ends after each LF (byte 10); a final
   line without LF is yielded if non-empty. *)
From Coq Require Import ZArith List Bool.
Import ListNotations.
Open Scope Z_scope.

Definition LF : Z := 10.

Fixpoint split_lines_aux (cur : list Z) (c : list Z) : list (list Z) :=
  match c with
  | [] => match cur with [] => [] | _ => [rev cur] end
  | b :: r =>
      if b =? LF then rev (b :: cur) :: split_lines_aux [] r
      else split_lines_aux (b :: cur) r
  end.

Definition split_lines (c : list Z) : list (list Z) := split_lines_aux [] c.

(* the lines read when iteration starts at byte position [pos] *)
Definition lines_from (c : list Z) (pos : nat) : list (list Z) :=
  split_lines (skipn pos c).

Definition is_line_start (c : list Z) (pos : nat) : Prop :=
  pos = 0%nat \/ (pos <= length c)%nat /\ nth (pos - 1) c 0 = LF.

Definition has_no_lf (l : list Z) : Prop := Forall (fun b => b <> LF) l.

(* a well-formed line: no LF except possibly as its last byte; non-empty *)
Definition line_wf (l : list Z) : Prop :=
  l <> [] /\ has_no_lf (removelast l).
