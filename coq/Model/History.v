(* What outlives a run() inside one Python process, and how a run uses it
   (C08).  Definitions only.

   Carried between runs (in-process / single-file mode; in multi-file mode
   every task works on a pickled COPY of the definitions and constraints,
   so the parent's objects are not modified by the workers):
     - per sequence definition: its open-section flag (_mark)
     - per (constraint, path): the cached offset of apply_to_file (_results)
     - statistics (C17) and line counters (not part of the results)
   Abstract components (Section variables), supplied by C01/C03/C04/C07's
   models: [compute] = the position the since-seek finds in a content
   (None: an exception path, which caches nothing), [search] = the results
   of reading the content from a position with the given open-section flags.

   The two switches [reset_seq] / [seek_on_hit] select the CURRENT code
   (true, true) or the behaviour before repairs D4b / D4a. *)
From Coq Require Import ZArith List Bool.
Import ListNotations.
Open Scope Z_scope.

Section H.
  Variable content : Type.
  Variable results : Type.
  Variable compute : content -> option Z.          (* seeker.run() *)
  Variable fallback : content -> Z.                (* position on the exception paths *)
  Variable search : (Z -> bool) -> Z -> content -> results.
  (* search started pos c : read c from pos, definition d starting with
     open-section flag (started d) *)

  Record carried := mkC {
    c_started : Z -> bool;                 (* per sequence definition id *)
    c_cache : Z -> option Z                (* per path id: cached offset *)
  }.
  Definition init : carried := mkC (fun _ => false) (fun _ => None).

  Variable reset_seq : bool.
  Variable seek_on_hit : bool.

  (* apply_to_file on path p with content c, file initially at offset 0:
     returns (position the file is left at, new cache) *)
  Definition apply_to_file (k : carried) (p : Z) (c : content)
    : Z * (Z -> option Z) :=
    match c_cache k p with
    | Some o => ((if seek_on_hit then o else 0), c_cache k)
    | None =>
        match compute c with
        | Some o => (o, fun q => if q =? p then Some o else c_cache k q)
        | None => (fallback c, c_cache k)
        end
    end.

  (* one single-file run: (results, state left behind).  [ends_open d] says
     whether the file ends inside a section of definition d *)
  Variable ends_open : (Z -> bool) -> Z -> content -> Z -> bool.

  Definition run_one (use_global : bool) (k : carried) (p : Z) (c : content)
    : results * carried :=
    let started := if reset_seq then (fun _ => false) else c_started k in
    let '(pos, cache') :=
      if use_global then apply_to_file k p c else (0, c_cache k) in
    (search started pos c, mkC (ends_open started pos c) cache').

  (* a history of single-file runs over a fixed assignment of contents to
     paths (stable contents) *)
  Fixpoint run_history (files : Z -> content) (k : carried)
           (h : list (bool * Z)) : carried :=
    match h with
    | [] => k
    | (g, p) :: r => run_history files (snd (run_one g k p (files p))) r
    end.

  (* a multi-file run: every task works on a pickled copy of the state; the
     parent's objects are left as they were *)
  Definition run_mp (g : bool) (k : carried) (files : Z -> content)
             (ps : list Z) : list results * carried :=
    (map (fun p => fst (run_one g k p (files p))) ps, k).

  Inductive step := Single (g : bool) (p : Z) | Multi (g : bool) (ps : list Z).

  Fixpoint run_steps (files : Z -> content) (k : carried) (h : list step)
    : carried :=
    match h with
    | [] => k
    | Single g p :: r => run_steps files (snd (run_one g k p (files p))) r
    | Multi g ps :: r => run_steps files (snd (run_mp g k files ps)) r
    end.

  (* histories in which files may also CHANGE between runs *)
  Inductive event := Run (s : step) | Change (p : Z) (c : content).

  Definition set_file (files : Z -> content) (p : Z) (c : content)
    : Z -> content := fun q => if q =? p then c else files q.

  Fixpoint run_events (files : Z -> content) (k : carried) (h : list event)
    : (Z -> content) * carried :=
    match h with
    | [] => (files, k)
    | Run s :: r => run_events files (run_steps files k [s]) r
    | Change p c :: r => run_events (set_file files p c) k r
    end.

  (* every change in the history is of the allowed kind *)
  Fixpoint changes_ok (ext : content -> content -> Prop)
           (files : Z -> content) (h : list event) : Prop :=
    match h with
    | [] => True
    | Run _ :: r => changes_ok ext files r
    | Change p c :: r => ext (files p) c /\ changes_ok ext (set_file files p c) r
    end.

  Definition step_results (files : Z -> content) (k : carried) (s : step)
    : list results :=
    match s with
    | Single g p => [fst (run_one g k p (files p))]
    | Multi g ps => fst (run_mp g k files ps)
    end.

  (* the cache only ever holds what a recomputation would give *)
  Definition consistent (files : Z -> content) (k : carried) : Prop :=
    forall p o, c_cache k p = Some o -> compute (files p) = Some o.
End H.
