(* Exceptions as data: which exception classes a skeleton raises, which
   handlers guard which events.  Used by C13 (content alone cannot make a
   search fail) and C10. *)
From Coq Require Import String List Bool.
From SK Require Import Model.Skel.
Import ListNotations.
Open Scope string_scope.

Definition mem (x : string) (l : list string) : bool := existsb (String.eqb x) l.

(* classes named in `raise X(...)` statements ("reraise" = bare raise) *)
Fixpoint raised (sk : list ev) : list string :=
  match sk with
  | [] => []
  | RaiseE e :: r => if String.eqb e "reraise" then raised r else e :: raised r
  | _ :: r => raised r
  end.

(* The try-structure: each event is annotated with the stack of handler
   lists of the try-blocks whose BODY (not handlers / else / finally)
   lexically encloses it.  A frame is (handlers, in_body). *)
Fixpoint handlers_of_try (depth : nat) (sk : list ev) : list string :=
  (* handler names of the try whose TryB was just consumed *)
  match sk with
  | [] => []
  | TryB :: r => handlers_of_try (S depth) r
  | TryE :: r => match depth with O => [] | S d => handlers_of_try d r end
  | Handler e :: r =>
      match depth with
      | O => e :: handlers_of_try depth r
      | _ => handlers_of_try depth r
      end
  | _ :: r => handlers_of_try depth r
  end.

Inductive zone := ZBody | ZOther.

(* walk the skeleton; [frames] = enclosing tries, innermost first *)
Fixpoint guarded_events (frames : list (list string * zone)) (sk : list ev)
  : list (ev * list (list string)) :=
  match sk with
  | [] => []
  | TryB :: r => guarded_events ((handlers_of_try 0 r, ZBody) :: frames) r
  | Handler _ :: r | TryElse :: r | FinallyB :: r =>
      match frames with
      | (hs, _) :: fr => guarded_events ((hs, ZOther) :: fr) r
      | [] => guarded_events [] r
      end
  | TryE :: r =>
      match frames with
      | _ :: fr => guarded_events fr r
      | [] => guarded_events [] r
      end
  | e :: r =>
      (e, map fst (filter (fun f => match snd f with ZBody => true
                                               | ZOther => false end) frames))
      :: guarded_events frames r
  end.

(* is exception class [x] caught by one of the enclosing handler lists?
   "Exception" catches every class used here (all derive from Exception). *)
Definition caught_by (x : string) (stack : list (list string)) : bool :=
  existsb (fun hs => mem x hs || mem "Exception" hs) stack.

(* every occurrence of event [e] in [sk] is guarded against class [x] *)
Definition event_guarded (e : ev) (x : string) (sk : list ev) : bool :=
  forallb (fun p => if ev_is e (fst p) then caught_by x (snd p) else true)
          (guarded_events [] sk)
  && existsb (fun p => ev_is e (fst p)) (guarded_events [] sk).

(* what the first handler matching class [x] in the OUTERMOST try of [sk]
   does: the exception it raises ("reraise" = the same), or "" when it
   swallows *)
Fixpoint handler_action (x : string) (depth : nat) (sk : list ev)
  : option string :=
  match sk with
  | [] => None
  | TryB :: r => handler_action x (S depth) r
  | TryE :: r => handler_action x (pred depth) r
  | Handler e :: r =>
      if Nat.eqb depth 1 && (String.eqb e x || String.eqb e "Exception")
      then match r with
           | RaiseE a :: _ => Some a
           | _ => Some ""
           end
      else handler_action x depth r
  | _ :: r => handler_action x depth r
  end.
