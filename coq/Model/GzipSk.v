(* Shape of execute()'s gzip probe in the tree skeleton. *)
From Coq Require Import String List Bool.
From SK Require Import Model.Skel Model.Stm.
Import ListNotations.
Open Scope string_scope.
Open Scope list_scope.

Definition is_call (f : string) (s : stm) : bool :=
  match s with SEv (Call g) => String.eqb f g | _ => false end.

Definition has_call (f : string) (l : list stm) : bool := existsb (is_call f) l.

(* calls of [l] at top level, in order *)
Definition calls_of (l : list stm) : list string :=
  flat_map (fun s => match s with SEv (Call g) => [g] | _ => [] end) l.

(* the try statement whose body is exactly the probe *)
Definition probe_try_ok (s : stm) : bool :=
  match s with
  | STry [SEv (Call p)] [(h, hb)] orelse fin =>
      String.eqb p "gzip_probe" && String.eqb h "OSError"
      (* not gzip: re-open plain and search THAT descriptor *)
      && (match calls_of hb with
          | ["plain_open"; "run_search"; "plain_close"] => true
          | _ => false end)
      (* gzip: search the gzip descriptor *)
      && (match calls_of orelse with ["run_search"] => true | _ => false end)
      (* results buffered so far are handed over in both cases *)
      && has_call "flush" fin
  | _ => false
  end.

(* execute = getsize shortcut; then, inside the outer try, gzip_open
   followed by the probe try *)
Definition execute_shape_ok (body : list stm) : bool :=
  match body with
  | SEv (Call g) :: SIf [SExit] [] :: STry (SEv (Call o) :: p :: _) _ _ _ :: _ =>
      String.eqb g "getsize" && String.eqb o "gzip_open" && probe_try_ok p
  | _ => false
  end.
