(* C09 - model of searchkit/search.py SearchCatalog (register, _expand_path,
   _filtered_dir, get_source_id), logrotate_log_sort and the task-level
   de-duplication of search definitions (definitions only).

   Strings are lists of code points.  The four fixed regular expressions are
   modelled by hand-written matchers; Props/C09.v ties each matcher to the
   regex string extracted from the source (Gen/Params.v).
   NOT modelled: decimal digits outside ASCII (Python's \d and int() accept
   every Unicode Nd character); os.listdir / glob / isfile are inputs. *)
From Coq Require Import ZArith List Bool.
From SK Require Import Model.Collection.   (* python dict operations *)
Import ListNotations.
Open Scope Z_scope.

Definition str := list Z.

Fixpoint str_eqb (a b : str) : bool :=
  match a, b with
  | [], [] => true
  | x :: a', y :: b' => (x =? y) && str_eqb a' b'
  | _, _ => false
  end.

(* Python 3 `\s` on str patterns = str.isspace() *)
Definition is_space (c : Z) : bool :=
  ((9 <=? c) && (c <=? 13)) || ((28 <=? c) && (c <=? 32)) ||
  (c =? 133) || (c =? 160) || (c =? 5760) ||
  ((8192 <=? c) && (c <=? 8202)) ||
  (c =? 8232) || (c =? 8233) || (c =? 8239) || (c =? 8287) || (c =? 12288).

Definition is_digit (c : Z) : bool := (48 <=? c) && (c <=? 57).

Definition no_ws (s : str) : bool := forallb (fun c => negb (is_space c)) s.

Fixpoint starts_with (p s : str) : bool :=
  match p, s with
  | [], _ => true
  | a :: p', b :: s' => (a =? b) && starts_with p' s'
  | _ :: _, [] => false
  end.

Definition ends_with (s sfx : str) : bool := starts_with (rev sfx) (rev s).

Definition nonempty {A} (l : list A) : bool :=
  match l with [] => false | _ => true end.

Definition dotlog : str := [46; 108; 111; 103].          (* ".log"  *)
Definition dotlogdot : str := [46; 108; 111; 103; 46].   (* ".log." *)

(* some occurrence of ".log" in s *)
Fixpoint has_dotlog (s : str) : bool :=
  match s with
  | [] => false
  | _ :: t => starts_with dotlog s || has_dotlog t
  end.

(* ---- regex 1: re.compile(r"(\S+)\.log\S*").match(path), group(1).
   (\S+) is greedy and backtracks: group(1) ends at the LAST occurrence of
   ".log" that lies inside the leading run of non-whitespace and is preceded
   by at least one character.  [pre_rev] = characters scanned so far,
   reversed; [best] = group(1) for the last occurrence seen. *)
Definition re_group_legacy : str :=
  [40; 92; 83; 43; 41; 92; 46; 108; 111; 103; 92; 83; 42].

Fixpoint grp_scan (pre_rev s : str) (best : option str) : option str :=
  match s with
  | [] => best
  | c :: t =>
      if is_space c then best
      else grp_scan (c :: pre_rev) t
             (if nonempty pre_rev && starts_with dotlog s
              then Some (rev pre_rev) else best)
  end.

Definition grp_legacy (s : str) : option str := grp_scan [] s None.

(* ---- the three regexes of logrotate_log_sort (re.match: anchored at the
   start; `$` = at the end, or before a final newline) *)
Definition re_sort_0 : str := [92; 83; 43; 92; 46; 108; 111; 103; 36].
Definition re_sort_1 : str :=
  [92; 83; 43; 92; 46; 108; 111; 103; 92; 46; 40; 92; 100; 43; 41; 36].
Definition re_sort_2 : str :=
  [92; 83; 43; 92; 46; 108; 111; 103; 92; 46; 40; 92; 100; 43; 41; 92; 46;
   103; 122; 63; 36].

Fixpoint span_digits (s : str) : str * str :=
  match s with
  | c :: t => if is_digit c
              then let '(d, r) := span_digits t in (c :: d, r)
              else ([], s)
  | [] => ([], [])
  end.

Definition digits_val (d : str) : Z :=
  fold_left (fun acc c => acc * 10 + (c - 48)) d 0.

(* r is a REVERSED string.  If the string is A ++ ".log." ++ D with D a
   non-empty (maximal) run of digits: Some (D, rev A) *)
Definition strip_num (r : str) : option (str * str) :=
  let '(drev, rest) := span_digits r in
  if nonempty drev && starts_with (rev dotlogdot) rest
  then Some (rev drev, skipn 5 rest) else None.

(* the \S+ in front of a suffix: non-empty, no whitespace *)
Definition stem_ok (arev : str) : bool := nonempty arev && no_ws arev.

(* \S+\.log  matching all of t *)
Definition fm0 (t : str) : option Z :=
  let r := rev t in
  if starts_with (rev dotlog) r && stem_ok (skipn 4 r) then Some 0 else None.

(* \S+\.log\.(\d+)  matching all of t; r = rev t *)
Definition fm1_rev (r : str) : option Z :=
  match strip_num r with
  | Some (d, arev) => if stem_ok arev then Some (digits_val d) else None
  | None => None
  end.
Definition fm1 (t : str) : option Z := fm1_rev (rev t).

(* \S+\.log\.(\d+)\.gz?  matching all of t *)
Definition fm2 (t : str) : option Z :=
  let r := rev t in
  if starts_with [122; 103; 46] r then fm1_rev (skipn 3 r)
  else if starts_with [103; 46] r then fm1_rev (skipn 2 r)
  else None.

Definition dollar {A} (fm : str -> option A) (s : str) : option A :=
  match fm s with
  | Some z => Some z
  | None => match rev s with
            | 10 :: r => fm (rev r)
            | _ => None
            end
  end.

(* logrotate_log_sort(fname); [nomatch] is the literal 100000 *)
Definition sort_key (nomatch : Z) (s : str) : Z :=
  match dollar fm0 s with
  | Some _ => 0
  | None => match dollar fm1 s with
            | Some n => n
            | None => match dollar fm2 s with
                      | Some n => n
                      | None => nomatch
                      end
            end
  end.

(* ---- regex 1 after the repair of D9:
   re.compile(r"(\S+)\.log(?:\.\d+(?:\.gz)?)?$").match(path), group(1) *)
Definition re_group_fixed : str :=
  [40; 92; 83; 43; 41; 92; 46; 108; 111; 103; 40; 63; 58; 92; 46; 92; 100;
   43; 40; 63; 58; 92; 46; 103; 122; 41; 63; 41; 63; 36].

Definition grp_fixed_full (t : str) : option str :=
  let r := rev t in
  let arev :=
    if starts_with (rev dotlog) r then Some (skipn 4 r)
    else match (if starts_with [122; 103; 46] r then strip_num (skipn 3 r)
                else strip_num r) with
         | Some (_, a) => Some a
         | None => None
         end in
  match arev with
  | Some a => if stem_ok a then Some (rev a) else None
  | None => None
  end.

Definition grp_fixed (s : str) : option str := dollar grp_fixed_full s.

(* sorted(l, key=...) : stable *)
Fixpoint insert_by {A} (key : A -> Z) (x : A) (l : list A) : list A :=
  match l with
  | [] => [x]
  | y :: t => if key x <=? key y then x :: l else y :: insert_by key x t
  end.
Definition sort_by {A} (key : A -> Z) (l : list A) : list A :=
  fold_right (insert_by key) [] l.

(* l[:limit] *)
Definition py_take {A} (limit : Z) (l : list A) : list A :=
  if 0 <=? limit then firstn (Z.to_nat limit) l
  else firstn (length l - Z.to_nat (- limit)) l.

(* ---- _filtered_dir(contents, max_logrotate_depth): contents are paths with
   the answer of os.path.isfile *)
Definition fd_state : Type := (list str * list (str * list str))%type.

Definition fd_step (grp : str -> option str) (acc : fd_state)
           (e : str * bool) : fd_state :=
  let '(newc, groups) := acc in
  let '(path, isfile) := e in
  if negb isfile then acc
  else match grp path with
       | None => (newc ++ [path], groups)
       | Some pfx =>
           if ends_with path dotlog then (newc ++ [pfx ++ dotlog], groups)
           else (newc, dappend str_eqb groups pfx path)
       end.

Definition filtered_dir (grp : str -> option str) (nomatch : Z)
           (contents : list (str * bool)) (depth : Z) : list str :=
  let '(newc, groups) := fold_left (fd_step grp) contents ([], []) in
  newc ++ flat_map (fun g => py_take depth (sort_by (sort_key nomatch) (snd g)))
                   groups.

(* ---- _expand_path: what the file system answered is part of the input *)
Inductive target :=
| TFile (p : str)                                (* isfile(path)           *)
| TDir (dir : str) (names : list (str * bool))   (* isdir: listdir + isfile *)
| TGlob (matches : list (str * bool)).           (* glob.glob + isfile      *)

(* os.path.join(dir, name) for a relative name *)
Definition path_join (dir name : str) : str :=
  if ends_with dir [47] then dir ++ name else dir ++ 47 :: name.

Definition expand_path (grp : str -> option str) (nomatch depth : Z)
           (t : target) : list str :=
  match t with
  | TFile p => [p]
  | TDir d names =>
      filtered_dir grp nomatch
                   (map (fun e => (path_join d (fst e), snd e)) names) depth
  | TGlob ms => filtered_dir grp nomatch ms depth
  end.

(* ---- the catalog *)
Record entry := mkEntry { e_source : Z; e_searches : list Z }.
Record catalog := mkCatalog {
  source_ids : list (Z * str);       (* _source_ids : id -> path      *)
  search_tags : list (Z * list Z);   (* _search_tags : tag -> [def id] *)
  entries : list (str * entry) }.    (* _entries : path -> entry       *)

Definition empty_catalog : catalog := mkCatalog [] [] [].

Fixpoint find_source (t : list (Z * str)) (path : str) : option Z :=
  match t with
  | [] => None
  | (i, p) :: r => if str_eqb p path then Some i else find_source r path
  end.

Definition max_id (t : list (Z * str)) : Z :=
  fold_left (fun m e => Z.max m (fst e)) t
            (match t with (i, _) :: _ => i | [] => 0 end).

(* get_source_id: returns the id and the updated table *)
Definition get_source_id (t : list (Z * str)) (path : str)
  : Z * list (Z * str) :=
  match t with
  | [] => (0, [(0, path)])
  | _ => match find_source t path with
         | Some i => (i, t)
         | None => let i := max_id t + 1 in (i, dset Z.eqb t i path)
         end
  end.

Definition register_tag (tags : list (Z * list Z)) (tag : option Z) (d : Z)
  : list (Z * list Z) :=
  match tag with
  | None => tags
  | Some t =>
      match dget Z.eqb tags t with
      | Some ds => if existsb (Z.eqb d) ds then tags
                   else dset Z.eqb tags t (ds ++ [d])
      | None => dset Z.eqb tags t [d]
      end
  end.

Definition register_path (d : Z) (c : catalog) (path : str) : catalog :=
  match dget str_eqb (entries c) path with
  | Some e =>
      mkCatalog (source_ids c) (search_tags c)
                (dset str_eqb (entries c) path
                      (mkEntry (e_source e) (e_searches e ++ [d])))
  | None =>
      let '(i, t') := get_source_id (source_ids c) path in
      mkCatalog t' (search_tags c)
                (dset str_eqb (entries c) path (mkEntry i [d]))
  end.

(* register(search, user_path) with the expansion already computed *)
Definition register (c : catalog) (d : Z) (tag : option Z)
           (paths : list str) : catalog :=
  fold_left (register_path d)
            paths
            (mkCatalog (source_ids c) (register_tag (search_tags c) tag d)
                       (entries c)).

(* FileSearcher.add x n *)
Definition add_all (grp : str -> option str) (nomatch depth : Z)
           (ops : list (Z * option Z * target)) : catalog :=
  fold_left (fun c op => let '(d, tag, t) := op in
                         register c d tag (expand_path grp nomatch depth t))
            ops empty_catalog.

(* FileSearcher.files *)
Definition cat_files (c : catalog) : list str := map fst (entries c).

(* SearchTask.search_defs: a dict keyed by the definition *)
Definition task_defs (searches : list Z) : list Z :=
  map fst (fold_left (fun d s => dset Z.eqb d s true) searches []).

(* the per-line loop of _run_search for simple searches: [hit s l] = search s
   matches line l; a result is (line number, search) *)
Definition task_results (hit : Z -> Z -> bool) (searches : list Z)
           (lines : list Z) : list (Z * Z) :=
  flat_map (fun l => flat_map (fun s => if hit s l then [(l, s)] else [])
                              (task_defs searches)) lines.

(* FileSearcher.add(searchdef, path, allow_global_constraints): a definition
   added once with allow_global_constraints=False is put into the set
   constraints_manager.global_restrictions (keyed by definition id) *)
Definition fs_restrict (restr : list Z) (allow : bool) (d : Z) : list Z :=
  if negb allow
  then (if existsb (Z.eqb d) restr then restr else restr ++ [d])
  else restr.

Definition fs_restrictions (ops : list (Z * bool)) : list Z :=
  fold_left (fun r op => fs_restrict r (snd op) (fst op)) ops [].
