(* Structured skeletons (trees) of Python functions and an exception-flow
   semantics for them.  Generated instances live in Gen/SkelTree.v
   (translator/skeleton.py).  Used by C13 and C10: "which exception classes
   can leave this function, on ANY execution path".

   The semantics deliberately over-approximates control flow (an `if` may
   take either branch, a loop runs any number of times, return / break /
   continue may or may not leave the enclosing block early), so every real
   execution of the Python function is an execution here, as far as
   exceptions are concerned. *)
From Coq Require Import String List Bool.
From SK Require Import Model.Skel.
Import ListNotations.
Open Scope string_scope.
Open Scope list_scope.

Inductive stm : Type :=
| SEv (e : ev)                         (* shared access / call / lock op *)
| SRaise (x : string)                  (* raise X(...) ; "reraise" = bare raise *)
| SExit                                (* return / break / continue *)
| SIf (a b : list stm)
| SLoop (body : list stm)
| STry (body : list stm) (hs : list (string * list stm))
       (orelse fin : list stm).

(* handler class [h] catches exception class [x] (flattened hierarchy of
   the classes that occur: everything derives from Exception, and
   UnicodeDecodeError is a ValueError) *)
Definition catches (h x : string) : bool :=
  String.eqb h x || String.eqb h "Exception" || String.eqb h "*"
  || (String.eqb h "ValueError" && String.eqb x "UnicodeDecodeError").

Definition handled (x : string) (hs : list (string * list stm)) : bool :=
  existsb (fun h => catches (fst h) x) hs.

(* the first handler that catches x *)
Fixpoint first_handler (x : string) (hs : list (string * list stm))
  : option (list stm) :=
  match hs with
  | [] => None
  | (h, b) :: r => if catches h x then Some b else first_handler x r
  end.

Section Flow.
  (* exception classes an event may originate (oracle raising, callee's
     escaping exceptions) *)
  Variable orig : ev -> list string.

  (* ---------- static over-approximation: classes that may escape ------ *)
  (* [cur] = classes the exception currently being handled may have (for a
     bare `raise`) *)
  Fixpoint esc (cur : list string) (s : stm) {struct s} : list string :=
    match s with
    | SEv e => orig e
    | SRaise x => if String.eqb x "reraise" then cur else [x]
    | SExit => []
    | SIf a b =>
        (fix go (l : list stm) : list string :=
           match l with [] => [] | s' :: r => esc cur s' ++ go r end) a
        ++ (fix go (l : list stm) : list string :=
              match l with [] => [] | s' :: r => esc cur s' ++ go r end) b
    | SLoop b =>
        (fix go (l : list stm) : list string :=
           match l with [] => [] | s' :: r => esc cur s' ++ go r end) b
    | STry body hs orelse fin =>
        let eb :=
          (fix go (l : list stm) : list string :=
             match l with [] => [] | s' :: r => esc cur s' ++ go r end) body in
        filter (fun x => negb (handled x hs)) eb
        ++ (fix goh (eb' : list string) (hs' : list (string * list stm))
                {struct hs'} : list string :=
              match hs' with
              | [] => []
              | (h, b) :: r =>
                  match filter (catches h) eb' with
                  | [] => []     (* nothing reaches this handler *)
                  | _ =>
                    (fix go (l : list stm) : list string :=
                       match l with
                       | [] => []
                       | s' :: r' => esc (filter (catches h) eb') s' ++ go r'
                       end) b
                  end
                  ++ goh (filter (fun x => negb (catches h x)) eb') r
              end) eb hs
        ++ (fix go (l : list stm) : list string :=
              match l with [] => [] | s' :: r => esc cur s' ++ go r end) orelse
        ++ (fix go (l : list stm) : list string :=
              match l with [] => [] | s' :: r => esc cur s' ++ go r end) fin
    end.

  Fixpoint esc_list (cur : list string) (l : list stm) : list string :=
    match l with
    | [] => []
    | s :: r => esc cur s ++ esc_list cur r
    end.

  Fixpoint esc_handlers (eb : list string)
           (hs : list (string * list stm)) : list string :=
    match hs with
    | [] => []
    | (h, b) :: r =>
        (* handlers are tried in order: a later handler only sees what the
           earlier ones do not catch *)
        match filter (catches h) eb with
        | [] => []
        | _ => esc_list (filter (catches h) eb) b
        end
        ++ esc_handlers (filter (fun x => negb (catches h x)) eb) r
    end.

  (* ---------- dynamic semantics --------------------------------------- *)
  Inductive res := RNormal | RExit | RRaise (x : string).

  (* exec cur s r : statement s, run while handling exception [cur]
     (None outside any handler), may end with r *)
  Inductive exec : option string -> stm -> res -> Prop :=
  | ex_ev_ok c e : exec c (SEv e) RNormal
  | ex_ev_raise c e x : In x (orig e) -> exec c (SEv e) (RRaise x)
  | ex_raise c x : x <> "reraise" -> exec c (SRaise x) (RRaise x)
  | ex_reraise x : exec (Some x) (SRaise "reraise") (RRaise x)
  | ex_exit c : exec c SExit RExit
  | ex_exit_fallthrough c : exec c SExit RNormal
  | ex_if_a c a b r : exec_list c a r -> exec c (SIf a b) r
  | ex_if_b c a b r : exec_list c b r -> exec c (SIf a b) r
  | ex_loop_0 c b : exec c (SLoop b) RNormal
  | ex_loop_raise c b x : exec_list c b (RRaise x) -> exec c (SLoop b) (RRaise x)
  | ex_loop_exit c b : exec_list c b RExit -> exec c (SLoop b) RExit
  (* try: body ends normally / exits -> else, then finally *)
  | ex_try_ok c body hs orelse fin r1 r2 r :
      exec_list c body r1 -> (r1 = RNormal \/ r1 = RExit) ->
      exec_list c orelse r2 -> exec_list c fin r ->
      exec c (STry body hs orelse fin)
           (match r with RNormal => match r2 with RNormal => r1 | _ => r2 end
                    | _ => r end)
  (* body raises x, no handler catches it: finally, then x (or what finally
     raises) *)
  | ex_try_uncaught c body hs orelse fin x r :
      exec_list c body (RRaise x) -> handled x hs = false ->
      exec_list c fin r ->
      exec c (STry body hs orelse fin)
           (match r with RNormal => RRaise x | _ => r end)
  (* body raises x, caught by the first matching handler *)
  | ex_try_caught c body hs orelse fin x hb r1 r :
      exec_list c body (RRaise x) -> first_handler x hs = Some hb ->
      exec_list (Some x) hb r1 -> exec_list c fin r ->
      exec c (STry body hs orelse fin)
           (match r with RNormal => r1 | _ => r end)
  with exec_list : option string -> list stm -> res -> Prop :=
  | exl_nil c : exec_list c [] RNormal
  | exl_cons_ok c s l r : exec c s RNormal -> exec_list c l r ->
                          exec_list c (s :: l) r
  | exl_cons_stop c s l r : exec c s r -> r <> RNormal ->
                            exec_list c (s :: l) r.
End Flow.

Definition subset (a b : list string) : bool :=
  forallb (fun x => existsb (String.eqb x) b) a.
