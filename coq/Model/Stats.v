(* Run statistics (searchkit/task.py SearchTaskStats, put_result,
   _run_search; searchkit/search.py run / _run_single / _run_mp).
   Definitions only. *)
From Coq Require Import ZArith List Bool.
Import ListNotations.
Open Scope Z_scope.

Record stats := mkStats {
  st_searches : Z;
  st_by_job : list Z;
  st_lines : Z;
  st_completed : Z;
  st_total : Z;
  st_results : Z
}.

(* SearchTaskStats.reset *)
Definition stats0 : stats := mkStats 0 [] 0 0 0 0.

(* SearchTaskStats.update: `for key, val in stats.items(): self.data[key] += val`
   (+ on lists is concatenation); `if not stats: return` - an all-default
   stats object is a non-empty dict, so it is still added (adds zeros) *)
Definition update (a b : stats) : stats :=
  mkStats (st_searches a + st_searches b) (st_by_job a ++ st_by_job b)
          (st_lines a + st_lines b) (st_completed a + st_completed b)
          (st_total a + st_total b) (st_results a + st_results b).

Definition lenZ {A} (l : list A) : Z := Z.of_nat (length l).

(* ---- one task (SearchTask.execute -> _run_search) ----
   stats.reset(); per line read: lines_searched += 1 (before decoding);
   per put_result(batch): results += len(batch). *)
Definition put_counts {R} (batches : list (list R)) : Z :=
  fold_left (fun acc b => acc + lenZ b) batches 0.

Definition task_stats {L R} (lines_read : list L) (batches : list (list R))
  : stats :=
  mkStats 0 [] (lenZ lines_read) 0 0 (put_counts batches).

(* a zero-length file: execute returns a fresh SearchTaskStats *)
Definition empty_task_stats : stats := stats0.

(* ---- FileSearcher.run ----
   regs = number of registered searches per catalog entry (len(p['searches'])) *)
Definition sumZ (l : list Z) : Z := fold_left Z.add l 0.

Definition run_prologue (prev : stats) (regs : list Z) : stats :=
  (* self.stats.reset(); if catalog empty: return; searches = sum(..);
     searches_by_job = [..] *)
  match regs with
  | [] => stats0
  | _ => mkStats (sumZ regs) regs 0 0 0 0
  end.

(* _run_single: stats.update(task.execute()) per entry (there is one);
   then jobs_completed = total_jobs = 1 *)
Definition run_single (prev : stats) (regs : list Z) (tasks : list stats)
  : stats :=
  let s := fold_left update tasks (run_prologue prev regs) in
  mkStats (st_searches s) (st_by_job s) (st_lines s) 1 1 (st_results s).

(* _run_mp: total_jobs += 1 per submit; per completed future (in ANY
   completion order): stats.update(result); jobs_completed += 1 *)
Definition mp_step (s t : stats) : stats :=
  let u := update s t in
  mkStats (st_searches u) (st_by_job u) (st_lines u)
          (st_completed u + 1) (st_total u) (st_results u).

Definition run_mp (prev : stats) (regs : list Z) (completed : list stats)
  : stats :=
  let s0 := run_prologue prev regs in
  let s1 := mkStats (st_searches s0) (st_by_job s0) (st_lines s0)
                    (st_completed s0) (st_total s0 + lenZ regs)
                    (st_results s0) in
  fold_left mp_step completed s1.

Definition run_stats (prev : stats) (regs : list Z) (tasks : list stats)
  : stats :=
  match regs with
  | [] => stats0
  | [_] => run_single prev regs tasks
  | _ => run_mp prev regs tasks
  end.
