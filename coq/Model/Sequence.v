(* Model of searchkit's sequence matcher (definitions only).

   Source mirrored (as of the tree containing the repairs D3 and D4b):
     task.py      SearchTask._sequence_search, _process_sequence_results,
                  _run_search (the per-line loop and the reset of sequence
                  definitions at the start of a file)
     searchdef.py SequenceSearchDef.start / stop / reset / started /
                  current_section_id
     result.py    SequenceSearchResults.add / remove
     search.py    SearchResultsCollection.find_sequence_sections

   Not modelled (oracles, tabulated by the harness with plain `re`): whether
   the start / end / body pattern matches a line and what it captures.  A
   line enters the model as three answers [option payload]; the answer of
   the end pattern on the empty string is part of the definition's shape.

   uuid4 values are modelled by a counter ([next]): every draw is a value
   never used before (assumption: uuid4 values do not collide).  [stop()]
   draws one, [start()] draws one, exactly like the code. *)
From Coq Require Import ZArith List Bool Arith.
Import ListNotations.
Open Scope Z_scope.

(* ------------------------------------------------------------------ data *)
(* shape of one SequenceSearchDef *)
Record shape := {
  has_end : bool;            (* s_end is not None *)
  has_body : bool;           (* s_body is not None *)
  end_empty : option Z       (* s_end.run('') : None / Some captured payload *)
}.

(* one line, as seen by one definition: the three oracle answers *)
Record cline := {
  c_start : option Z;        (* s_start.run(line) *)
  c_end : option Z;          (* s_end.run(line)   (ignored without an end) *)
  c_body : option Z          (* s_body.run(line)  (ignored without a body) *)
}.
Definition no_match : cline :=
  {| c_start := None; c_end := None; c_body := None |}.

Inductive role := RStart | RBody | REnd.     (* tag suffix -start/-body/-end *)
Definition item := (Z * role * Z)%type.      (* line number, role, payload *)
Definition part := (nat * item)%type.        (* section id, item *)

Definition role_eqb (a b : role) : bool :=
  match a, b with
  | RStart, RStart | RBody, RBody | REnd, REnd => true
  | _, _ => false
  end.

(* insertion-ordered dictionary of lists (python dict of lists) *)
Fixpoint alist_add {A} (k : nat) (x : A) (d : list (nat * list A))
  : list (nat * list A) :=
  match d with
  | [] => [(k, [x])]
  | (k', l) :: r =>
      if Nat.eqb k' k then (k', l ++ [x]) :: r
      else (k', l) :: alist_add k x r
  end.

Fixpoint alist_get {A} (k : nat) (d : list (nat * list A)) : list A :=
  match d with
  | [] => []
  | (k', l) :: r => if Nat.eqb k' k then l else alist_get k r
  end.

(* `if k in d: d[k] = f(d[k])` *)
Definition alist_update {A} (k : nat) (f : list A -> list A)
           (d : list (nat * list A)) : list (nat * list A) :=
  map (fun e => if Nat.eqb (fst e) k then (fst e, f (snd e)) else e) d.

(* --------------------------------------------- SequenceSearchDef's state *)
Record ctl := {
  started : bool;            (* _mark == 1 *)
  cur : nat;                 (* _section_id (current_section_id) *)
  next : nat                 (* the next fresh uuid *)
}.

(* start(): _section_id = uuid4(); _mark = 1 *)
Definition do_start (k : ctl) : ctl :=
  {| started := true; cur := next k; next := S (next k) |}.
(* reset(): _mark = 0 *)
Definition do_reset (k : ctl) : ctl :=
  {| started := false; cur := cur k; next := next k |}.
(* stop(): _mark = 0; completed_sections.append(..); _section_id = uuid4() *)
Definition do_stop (k : ctl) : ctl :=
  {| started := false; cur := next k; next := S (next k) |}.

(* effects on the SequenceSearchResults object *)
Inductive op :=
| Remove (s : nat)                    (* remove(seq_def.id, section id) *)
| RemoveAll                           (* pre-D3 only: remove(seq_def.id) *)
| Add (r : role) (s : nat) (v : Z).   (* add(SearchResult(ln, .., term, s)) *)

(* _sequence_search, branch for branch.  [restart] is what a start match
   inside an open section of a definition with an end does to the results. *)
Definition ctl_step_with (restart : nat -> list op) (sh : shape) (k : ctl)
           (c : cline) : ctl * list op :=
  (* ret = seq_def.s_start.run(line) *)
  let ret := c_start c in
  (* if seq_def.s_end and seq_def.started: *)
  let '(k1, ops1, ret1) :=
    if has_end sh && started k then
      match ret with
      | Some _ =>            (* remove(..); seq_def.reset() *)
          (do_reset k, restart (cur k), ret)
      | None =>              (* ret = seq_def.s_end.run(line) *)
          (k, [], c_end c)
      end
    else (k, [], ret) in
  match ret1 with
  | Some v =>                                            (* if ret: *)
      if negb (started k1) then
        (* s_term = s_start; start(); section_id = current_section_id *)
        let k2 := do_start k1 in
        (k2, ops1 ++ [Add RStart (cur k2) v])
      else
        (* s_term = s_end; section_id = current_section_id; stop() *)
        let sec := cur k1 in
        let k2 := do_stop k1 in
        if negb (has_end sh) then
          (* s_end is None: s_term = s_start; start(); new section id *)
          let k3 := do_start k2 in
          (k3, ops1 ++ [Add RStart (cur k3) v])
        else (k2, ops1 ++ [Add REnd sec v])
  | None =>
      (* elif seq_def.started and seq_def.s_body: *)
      if started k1 && has_body sh then
        match c_body c with
        | Some v => (k1, ops1 ++ [Add RBody (cur k1) v])
        | None => (k1, ops1)
        end
      else (k1, ops1)
  end.

(* the code as it is now (D3 repaired) *)
Definition ctl_step := ctl_step_with (fun s => [Remove s]).
(* the code before D3: a restart dropped every result of the definition *)
Definition legacy_ctl_step := ctl_step_with (fun _ => [RemoveAll]).

(* --------------------------- one definition: results as a list of parts *)
Definition keep_other (s : nat) (p : part) : bool := negb (Nat.eqb (fst p) s).

Definition apply_op (ln : Z) (acc : list part) (o : op) : list part :=
  match o with
  | Remove s => filter (keep_other s) acc
  | RemoveAll => []
  | Add r s v => acc ++ [(s, (ln, r, v))]
  end.
Definition apply_ops (ln : Z) (ops : list op) (acc : list part) : list part :=
  fold_left (apply_op ln) ops acc.

Definition sstate := (ctl * list part)%type.

Definition seq_step_with (stepf : shape -> ctl -> cline -> ctl * list op)
           (sh : shape) (st : sstate) (ln : Z) (c : cline) : sstate :=
  let '(k', ops) := stepf sh (fst st) c in (k', apply_ops ln ops (snd st)).
Definition seq_step := seq_step_with ctl_step.

(* `ln = 0; for ln, line in enumerate(fd, start=1): ...` *)
Fixpoint seq_loop_with stepf (sh : shape) (st : sstate) (ln : Z)
         (l : list cline) : sstate * Z :=
  match l with
  | [] => (st, ln)
  | c :: r =>
      seq_loop_with stepf sh (seq_step_with stepf sh st (ln + 1) c) (ln + 1) r
  end.
Definition seq_loop := seq_loop_with ctl_step.

(* _process_sequence_results for one definition; [ln] is the number of the
   last line read.  A started definition without an end is left alone
   (`if seq_def.s_end is None: continue`): its open section is exported. *)
Definition seq_eof (sh : shape) (st : sstate) (ln : Z) : list part :=
  let k := fst st in
  if started k && has_end sh then
    match end_empty sh with
    | Some v => snd st ++ [(cur k, (ln + 1, REnd, v))]
    | None => filter (keep_other (cur k)) (snd st)
    end
  else snd st.

(* a definition at the start of a file: _run_search resets it; the stale
   _section_id (None or a value of an earlier file) is never read before
   start() overwrites it; it is modelled by id 0 *)
Definition init_ctl : ctl := {| started := false; cur := 0%nat; next := 1%nat |}.
Definition init_state : sstate := (init_ctl, []).

Definition seq_run_with stepf (sh : shape) (l : list cline) : list part :=
  let '(st, ln) := seq_loop_with stepf sh init_state 0 l in seq_eof sh st ln.
(* the exported results of one sequence definition on one file *)
Definition seq_run := seq_run_with ctl_step.
Definition legacy_seq_run := seq_run_with legacy_ctl_step.

(* find_sequence_sections: dictionary section id -> results, in order of
   first occurrence; within a section in order of arrival *)
Definition group_by_section (ps : list part) : list (nat * list item) :=
  fold_left (fun g p => alist_add (fst p) (snd p) g) ps [].

(* what the user sees (section ids erased) *)
Definition report (ps : list part) : list (list item) :=
  map snd (group_by_section ps).

(* ----------------- several definitions in the same fold, shared objects *)
(* sequence_results: dict sequence id (here: the definition's position in
   search_defs) -> list of results; the uuid source is shared *)
Definition dict := list (nat * list part).

Record dstate := { d_shape : shape; d_started : bool; d_cur : nat }.
Record mstate := { m_defs : list dstate; m_next : nat; m_res : dict }.

Definition dict_apply_op (key : nat) (ln : Z) (d : dict) (o : op) : dict :=
  match o with
  | Remove s => alist_update key (filter (keep_other s)) d
  | RemoveAll => alist_update key (fun _ => []) d
  | Add r s v => alist_add key (s, (ln, r, v)) d
  end.
Definition dict_apply_ops key ln (ops : list op) (d : dict) : dict :=
  fold_left (dict_apply_op key ln) ops d.

(* `for s_def in self.search_defs: self._sequence_search(s_def, line, ln,
   sequence_results)`; [cls] holds the line's classification for every
   definition, [idx] is the position of the head of [ds] *)
Fixpoint m_defs_step (ln : Z) (cls : list cline) (idx : nat)
         (ds : list dstate) (nx : nat) (res : dict)
  : list dstate * nat * dict :=
  match ds with
  | [] => ([], nx, res)
  | d :: r =>
      let '(k', ops) :=
        ctl_step (d_shape d)
                 {| started := d_started d; cur := d_cur d; next := nx |}
                 (nth idx cls no_match) in
      let '(r', nx', res') :=
        m_defs_step ln cls (S idx) r (next k') (dict_apply_ops idx ln ops res) in
      ({| d_shape := d_shape d; d_started := started k'; d_cur := cur k' |}
         :: r', nx', res')
  end.

Definition m_step (ms : mstate) (ln : Z) (cls : list cline) : mstate :=
  let '(ds, nx, res) :=
    m_defs_step ln cls 0 (m_defs ms) (m_next ms) (m_res ms) in
  {| m_defs := ds; m_next := nx; m_res := res |}.

Fixpoint m_loop (ms : mstate) (ln : Z) (l : list (list cline)) : mstate * Z :=
  match l with
  | [] => (ms, ln)
  | cls :: r => m_loop (m_step ms (ln + 1) cls) (ln + 1) r
  end.

(* first loop of _process_sequence_results: EOF end results are added to
   sequence_results, incomplete open sections are noted in
   filter_section_id (pairs: sequence id, section id) *)
Fixpoint m_eof_scan (ln : Z) (idx : nat) (ds : list dstate) (res : dict)
         (flt : list (nat * nat)) : dict * list (nat * nat) :=
  match ds with
  | [] => (res, flt)
  | d :: r =>
      if d_started d && has_end (d_shape d) then
        match end_empty (d_shape d) with
        | Some v =>
            m_eof_scan ln (S idx) r
                       (alist_add idx (d_cur d, (ln + 1, REnd, v)) res) flt
        | None => m_eof_scan ln (S idx) r res (flt ++ [(idx, d_cur d)])
        end
      else m_eof_scan ln (S idx) r res flt
  end.

Definition filtered (flt : list (nat * nat)) (key : nat) (p : part) : bool :=
  existsb (fun f => Nat.eqb (fst f) key && Nat.eqb (snd f) (fst p)) flt.

(* second loop: export per sequence id (dict order), in insertion order,
   skipping the filtered sections; each exported result carries its
   sequence id *)
Definition m_export (res : dict) (flt : list (nat * nat)) : list (nat * part) :=
  flat_map (fun e => map (pair (fst e))
                         (filter (fun p => negb (filtered flt (fst e) p))
                                 (snd e))) res.

Definition m_init (shapes : list shape) : mstate :=
  {| m_defs := map (fun sh => {| d_shape := sh; d_started := false;
                                 d_cur := 0%nat |}) shapes;
     m_next := 1%nat; m_res := [] |}.

Definition m_run (shapes : list shape) (l : list (list cline))
  : list (nat * part) :=
  let '(ms, ln) := m_loop (m_init shapes) 0 l in
  let '(res, flt) := m_eof_scan ln 0 (m_defs ms) (m_res ms) [] in
  m_export res flt.

(* find_sequence_sections(seq_obj): the results whose sequence id is the
   object's *)
Definition m_view (key : nat) (flat : list (nat * part)) : list part :=
  map snd (filter (fun x => Nat.eqb (fst x) key) flat).

(* the classification of the lines for definition [key] *)
Definition lines_of (key : nat) (l : list (list cline)) : list cline :=
  map (fun cls => nth key cls no_match) l.

(* ------------------------------------------ helpers for the cases files *)
(* class code: bit 0 = start, bit 1 = end, bit 2 = body; payloads a b c *)
Definition mk_line (q : Z * Z * Z * Z) : cline :=
  let '(code, a, b, c) := q in
  {| c_start := if Z.testbit code 0 then Some a else None;
     c_end := if Z.testbit code 1 then Some b else None;
     c_body := if Z.testbit code 2 then Some c else None |}.

(* shape code: (has_end, has_body, end_empty as -2 = no match / payload) *)
Definition mk_shape (q : Z * Z * Z) : shape :=
  let '(e, b, m) := q in
  {| has_end := negb (e =? 0); has_body := negb (b =? 0);
     end_empty := if m =? -2 then None else Some m |}.
