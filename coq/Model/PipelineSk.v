(* C02 - T1 tie between the pipeline model (Model/Pipeline.v) and the TREE
   skeletons of FileSearcher._get_results / _purge_results / _run_mp and
   SearchTask.put_result / _flush_results_buffer that the translator
   regenerates from the source (Gen/SkelTree.v).  Definitions only.

   (a) expected [calls_only] shapes, each line annotated with the model
       action it corresponds to;
   (b) an interpreter of such trees over the model's own state: every event
       IS the model operation of that name (q_empty / q_get / coll_add /
       stop_requested / q_put / q_put_block / the stats_results write), every
       `if` / `while` is decided by a guard supplied in source order, which
       also names what the source must have read or called for that test
       since the previous one.  The guards are parameters here; Props/C02.v
       instantiates them with the expressions extracted from the source
       (Gen/XPipeline.v).  Fail closed: an unknown call, a get whose result
       is not added before the lock is released, an add or get without the
       lock, a second count, a put before the count ... make the
       interpretation [None].
   [core] is the tree with every read/write erased except those of
   `expected`, `collection` and `stats_results` (what the guards and the
   counter need); the interpreters run on [core] of the tree, so logging and
   unrelated reads may change freely. *)
From Coq Require Import String ZArith List Bool Arith.
From SK Require Import Model.Base Model.Skel Model.Stm Model.Pipeline.
Import ListNotations.
Open Scope string_scope.
Open Scope list_scope.
Open Scope Z_scope.

(* ------------------------------------------------------------------ core *)
Definition keep_cells : list string :=
  ["expected"; "collection"; "stats_results"].

Definition keep_ev (e : ev) : bool :=
  match e with
  | Rd c | Wr c => existsb (String.eqb c) keep_cells
  | _ => true
  end.

Fixpoint core (s : stm) : list stm :=
  let go := fix go (l : list stm) : list stm :=
              match l with [] => [] | x :: r => core x ++ go r end in
  match s with
  | SEv e => if keep_ev e then [SEv e] else []
  | SRaise x => [SRaise x]
  | SExit => [SExit]
  | SIf a b => [SIf (go a) (go b)]
  | SLoop b => [SLoop (go b)]
  | STry b hs o f =>
      [STry (go b) (map (fun h => (fst h, go (snd h))) hs) (go o) (go f)]
  end.

Fixpoint core_list (l : list stm) : list stm :=
  match l with [] => [] | x :: r => core x ++ core_list r end.

(* ----------------------------------------------------- generic interpreter *)
Definition reads_ok (need have : list string) : bool :=
  forallb (fun a => existsb (String.eqb a) have) need.

Fixpoint count_tests (s : stm) : nat :=
  let go := fix go (l : list stm) : nat :=
              match l with [] => O | x :: r => (count_tests x + go r)%nat end in
  match s with
  | SIf a b => S (go a + go b)
  | SLoop b => S (go b)
  | STry b hs o f =>
      (go b
       + (fix goh (hs : list (string * list stm)) : nat :=
            match hs with [] => O | (_, hb) :: r => (go hb + goh r)%nat end) hs
       + go o + go f)%nat
  | _ => O
  end.

Fixpoint count_tests_list (l : list stm) : nat :=
  match l with [] => O | x :: r => (count_tests x + count_tests_list r)%nat end.

Section Interp.
  Variable St : Type.

  Inductive evres := EOk (st : St) | ERaise (x : string) (st : St) | EErr.
  Inductive ires := IOk (st : St) (exited : bool)
                  | IRaise (x : string) (st : St) | IErr.

  Variable do_ev : ev -> St -> evres.
  Variable reads : St -> list string.     (* since the last test *)
  Variable clear : St -> St.

  (* a test: what the source must have read / called for it, and the
     condition *)
  Definition guard := (list string * (St -> bool))%type.

  (* `while`: [SExit] inside the body leaves the loop (break) *)
  Fixpoint iloop (fuel : nat) (cond : St -> bool) (body : St -> ires)
           (st : St) : ires :=
    match fuel with
    | O => IErr
    | S f =>
        if cond st then
          match body st with
          | IOk st1 false => iloop f cond body st1
          | IOk st1 true => IOk st1 false
          | other => other
          end
        else IOk st false
    end.

  (* leaving a block early (break / return / exception) still runs the
     release of every `with <lock>:` being left: the [Rel] events that
     follow, at the same nesting level, the statement that exited *)
  Fixpoint unwind (l : list stm) (st : St) : option St :=
    match l with
    | [] => Some st
    | SEv (Rel x) :: r =>
        match do_ev (Rel x) st with
        | EOk st' => unwind r st'
        | _ => None
        end
    | _ :: r => unwind r st
    end.

  Definition leave (l : list stm) (res : ires) : ires :=
    match res with
    | IOk st true =>
        match unwind l st with Some st' => IOk st' true | None => IErr end
    | IRaise x st =>
        match unwind l st with Some st' => IRaise x st' | None => IErr end
    | other => other
    end.

  (* guards are indexed statically, in source order (pre-order of the
     if / while nodes) *)
  Fixpoint interp (fuel : nat) (s : stm) (st : St) (gs : list guard)
    : ires :=
    let go := fix go (l : list stm) (st : St) (gs : list guard) : ires :=
      match l with
      | [] => IOk st false
      | x :: r =>
          match interp fuel x st gs with
          | IOk st1 false => go r st1 (skipn (count_tests x) gs)
          | other => leave r other
          end
      end in
    match s with
    | SEv e =>
        match do_ev e st with
        | EOk st' => IOk st' false
        | ERaise x st' => IRaise x st'
        | EErr => IErr
        end
    | SRaise _ => IErr
    | SExit => IOk st true
    | SIf a b =>
        match gs with
        | [] => IErr
        | (need, cond) :: gs' =>
            if reads_ok need (reads st) then
              if cond st then go a (clear st) gs'
              else go b (clear st) (skipn (count_tests_list a) gs')
            else IErr
        end
    | SLoop b =>
        match gs with
        | [] => IErr
        | (need, cond) :: gs' =>
            if reads_ok need (reads st)
            then iloop fuel cond (fun st' => go b st' gs') st
            else IErr
        end
    | STry b hs o f =>
        match o, f with
        | [], [] =>
            match go b st gs with
            | IRaise x st1 =>
                (fix goh (hs : list (string * list stm)) (gs : list guard)
                   : ires :=
                   match hs with
                   | [] => IRaise x st1
                   | (h, hb) :: r =>
                       if catches h x then go hb (clear st1) gs
                       else goh r (skipn (count_tests_list hb) gs)
                   end) hs (skipn (count_tests_list b) gs)
            | other => other
            end
        | _, _ => IErr
        end
    end.

  Fixpoint interp_list (fuel : nat) (l : list stm) (st : St)
           (gs : list guard) : ires :=
    match l with
    | [] => IOk st false
    | x :: r =>
        match interp fuel x st gs with
        | IOk st1 false => interp_list fuel r st1 (skipn (count_tests x) gs)
        | other => leave r other
        end
    end.
End Interp.

Arguments EOk {St}. Arguments ERaise {St}. Arguments EErr {St}.
Arguments IOk {St}. Arguments IRaise {St}. Arguments IErr {St}.

(* body of the first loop of a function *)
Fixpoint first_loop (l : list stm) : option (list stm) :=
  match l with
  | [] => None
  | SLoop b :: _ => Some b
  | _ :: r => first_loop r
  end.

(* =====================================================================
   CONSUMERS: _get_results (collector thread) and _purge_results
   ===================================================================== *)
Record cst := mkC {
  c_s : gstate;
  c_empty : bool;            (* value returned by the last q_empty *)
  c_stop : bool;             (* value returned by the last stop_requested *)
  c_got : option batch;      (* returned by q_get, not yet added *)
  c_held : bool;             (* RESULTS_COLLECTION_LOCK held *)
  c_reads : list string      (* reads / calls since the last test *)
}.

Definition c_note (st : cst) (a : string) : cst :=
  mkC (c_s st) (c_empty st) (c_stop st) (c_got st) (c_held st)
      (a :: c_reads st).
Definition c_clear (st : cst) : cst :=
  mkC (c_s st) (c_empty st) (c_stop st) (c_got st) (c_held st) [].

Definition set_queue (s : gstate) (q : list batch) : gstate :=
  mkState (tasks s) q (collected s) (expected s) (ph s) (lost s).
Definition set_collected (s : gstate) (c : coll) : gstate :=
  mkState (tasks s) (queue s) c (expected s) (ph s) (lost s).
Definition set_phase (s : gstate) (p : phase) : gstate :=
  mkState (tasks s) (queue s) (collected s) (expected s) p (lost s).

(* [stop] : whether the manager has set the thread's stop event *)
Definition do_ev_c (stop : bool) (e : ev) (st : cst) : evres cst :=
  match e with
  | Acq l =>
      if String.eqb l "collection" && negb (c_held st)
      then EOk (mkC (c_s st) (c_empty st) (c_stop st) (c_got st) true
                    (c_reads st))
      else EErr
  | Rel l =>
      (* a batch taken from the queue must have been added by now *)
      if String.eqb l "collection" && c_held st
      then match c_got st with
           | None => EOk (mkC (c_s st) (c_empty st) (c_stop st) None false
                              (c_reads st))
           | Some _ => EErr
           end
      else EErr
  | Rd a => EOk (c_note st a)
  | Call f =>
      if String.eqb f "q_empty" then
        EOk (mkC (c_s st)
                 (match queue (c_s st) with [] => true | _ => false end)
                 (c_stop st) (c_got st) (c_held st) (f :: c_reads st))
      else if String.eqb f "stop_requested" then
        EOk (mkC (c_s st) (c_empty st) stop (c_got st) (c_held st)
                 (f :: c_reads st))
      else if String.eqb f "q_get" then
        if c_held st then
          match c_got st, queue (c_s st) with
          | None, b :: q =>
              EOk (mkC (set_queue (c_s st) q) (c_empty st) (c_stop st)
                       (Some b) true (c_reads st))
          | None, [] => ERaise "queue.Empty" st    (* get(timeout) expires *)
          | Some _, _ => EErr
          end
        else EErr
      else if String.eqb f "coll_add" then
        if c_held st then
          match c_got st with
          | Some b =>
              EOk (mkC (set_collected (c_s st)
                                      (add_batch b (collected (c_s st))))
                       (c_empty st) (c_stop st) None true (c_reads st))
          | None => EErr
          end
        else EErr
      else EErr
  | _ => EErr
  end.

Definition cst0 (s : gstate) : cst := mkC s false false None false [].

(* one iteration of the loop of a consumer; the result is the model state
   and whether the loop was left *)
Definition run_consumer_iter (stop : bool) (gs : list (guard cst))
           (t : list stm) (s : gstate) : option (gstate * bool) :=
  match first_loop (core_list t) with
  | Some body =>
      match interp_list cst (do_ev_c stop) c_reads c_clear 1 body (cst0 s) gs
      with
      | IOk st ex =>
          match c_got st, c_held st with
          | None, false => Some (c_s st, ex)
          | _, _ => None
          end
      | _ => None
      end
  | None => None
  end.

(* the tests of the purge loop in source order; [take], [wait] are the
   source's expressions *)
Definition purge_guards (take : bool -> bool) (wait : Z -> Z -> bool)
  : list (guard cst) :=
  [ (* if not results_queue.empty(): *)
    (["q_empty"], fun st => take (c_empty st));
    (* elif expected > len(results): *)
    (["expected"; "collection"],
     fun st => wait (expected (c_s st)) (coll_len (collected (c_s st)))) ].

(* leaving the purge loop = _purge_results returns = _run_mp proceeds to
   leave the pool: run() returns *)
Definition run_purge_iter (take : bool -> bool) (wait : Z -> Z -> bool)
           (t : list stm) (s : gstate) : option (gstate * bool) :=
  match run_consumer_iter false (purge_guards take wait) t s with
  | Some (s', true) => Some (set_phase s' Returned, true)
  | other => other
  end.

Definition collector_guards (take stopt : bool -> bool) : list (guard cst) :=
  [ (* if not results_queue.empty(): *)
    (["q_empty"], fun st => take (c_empty st));
    (* elif event.is_set(): *)
    (["stop_requested"], fun st => stopt (c_stop st)) ].

Definition run_collector_iter (take stopt : bool -> bool) (stop : bool)
           (t : list stm) (s : gstate) : option (gstate * bool) :=
  run_consumer_iter stop (collector_guards take stopt) t s.

(* what the model says one iteration does *)
Definition model_purge_iter (Q : Z) (s : gstate) : gstate * bool :=
  match step Q s PurgeStep with
  | Some s' => (s', false)                       (* PurgeStep *)
  | None =>
      match step Q s Return with
      | Some s' => (s', true)                    (* Return *)
      | None => (s, false)                       (* Tick: get timed out *)
      end
  end.

Definition model_collector_iter (Q : Z) (stop : bool) (s : gstate)
  : gstate * bool :=
  match step Q s Collect with
  | Some s' => (s', false)                       (* Collect *)
  | None => (s, stop)                            (* Tick / thread ends *)
  end.

(* =====================================================================
   PRODUCER: put_result(results) for the head batch of task t
   ===================================================================== *)
Record pst := mkP {
  p_s : gstate;
  p_tries : Z;               (* max_tries *)
  p_counted : bool;          (* stats['results'] already incremented *)
  p_done : bool;             (* the batch was enqueued / added *)
  p_nowait : Z;              (* put_nowait attempts *)
  p_block : Z;               (* blocking put attempts *)
  p_reads : list string
}.

Definition p_with (st : pst) (s : gstate) (done : bool) : pst :=
  mkP s (p_tries st) (p_counted st) done (p_nowait st) (p_block st)
      (p_reads st).
Definition p_clear (st : pst) : pst :=
  mkP (p_s st) (p_tries st) (p_counted st) (p_done st) (p_nowait st)
      (p_block st) [].

Definition set_tasks (s : gstate) (ts : list task) : gstate :=
  mkState ts (queue s) (collected s) (expected s) (ph s) (lost s).

(* [count] : the source's counter update; [onfull] : its decrement of the
   retry counter in the queue.Full handler (bound to the handler's `sleep`
   call: the plugin checks that the decrement precedes it) *)
Definition do_ev_p (Q : Z) (count : Z -> Z -> Z) (onfull : Z -> Z)
           (t : nat) (b : batch) (e : ev) (st : pst) : evres pst :=
  let try_put (blocking : bool) :=
    if p_counted st && negb (p_done st) then
      let st' := mkP (p_s st) (p_tries st) true false
                     (p_nowait st + (if blocking then 0 else 1))
                     (p_block st + (if blocking then 1 else 0))
                     (p_reads st) in
      if lenZ (queue (p_s st)) <? Q
      then EOk (p_with st' (set_queue (p_s st) (queue (p_s st) ++ [b])) true)
      else ERaise "queue.Full" st'
    else EErr in
  match e with
  | Rd a => EOk (mkP (p_s st) (p_tries st) (p_counted st) (p_done st)
                     (p_nowait st) (p_block st) (a :: p_reads st))
  | Wr a =>
      if String.eqb a "stats_results" && negb (p_counted st)
         && reads_ok ["stats_results"] (p_reads st)
      then match nth_error (tasks (p_s st)) t with
           | Some tk =>
               EOk (mkP (set_tasks (p_s st)
                           (set_nth t (mkTask (todo tk)
                                              (count (sent tk) (lenZ b))
                                              (finished tk))
                                    (tasks (p_s st))))
                        (p_tries st) true (p_done st) (p_nowait st)
                        (p_block st) (p_reads st))
           | None => EErr
           end
      else EErr
  | Call f =>
      if String.eqb f "q_put" then try_put false
      else if String.eqb f "q_put_block" then try_put true
      else if String.eqb f "coll_add" then
        if p_counted st && negb (p_done st)
        then EOk (p_with st (set_collected (p_s st)
                               (add_batch b (collected (p_s st)))) true)
        else EErr
      else if String.eqb f "sleep" then
        EOk (mkP (p_s st) (onfull (p_tries st)) (p_counted st) (p_done st)
                 (p_nowait st) (p_block st) (p_reads st))
      else EErr
  | _ => EErr
  end.

(* the tests of put_result in source order *)
Definition put_guards (direct : bool) (directt : bool -> bool)
           (loopt : Z -> bool) (firstt : Z -> Z -> bool)
           (gaveup : Z -> bool) (maxr : Z) : list (guard pst) :=
  [ (* if self.results_manager.results_collection is not None: *)
    ([], fun _ => directt direct);
    (* while max_tries > 0: *)
    ([], fun st => loopt (p_tries st));
    (*   if max_tries == MAX_QUEUE_RETRIES: put_nowait else: put(timeout) *)
    ([], fun st => firstt (p_tries st) maxr);
    (*   except queue.Full: if max_tries == MAX_QUEUE_RETRIES: (message) *)
    ([], fun st => firstt (p_tries st) maxr);
    (*     if backoff < RESULTS_QUEUE_TIMEOUT: backoff *= 2 *)
    ([], fun _ => true);
    (* if max_tries == 0: log.error *)
    ([], fun st => gaveup (p_tries st)) ].

Record put_params := mkPP {
  pp_count : Z -> Z -> Z;
  pp_direct : bool -> bool;
  pp_init : Z -> Z;
  pp_loop : Z -> bool;
  pp_first : Z -> Z -> bool;
  pp_onfull : Z -> Z;
  pp_gaveup : Z -> bool
}.

(* _flush_results_buffer pops the slice from the buffer whatever put_result
   did with it *)
Definition pop_todo (t : nat) (s : gstate) : gstate :=
  match nth_error (tasks s) t with
  | Some tk => set_tasks s (set_nth t (mkTask (tl (todo tk)) (sent tk)
                                              (finished tk)) (tasks s))
  | None => s
  end.

Record put_report := mkPR {
  pr_state : gstate;
  pr_enqueued : bool;
  pr_nowait : Z;
  pr_block : Z;
  pr_tries_left : Z
}.

(* put_result on the head batch of task t, then the pop; a batch that was
   not enqueued is accounted as lost (ghost) *)
Definition run_put (pp : put_params) (Q maxr : Z) (direct : bool)
           (tree : list stm) (t : nat) (s : gstate) : option put_report :=
  match nth_error (tasks s) t with
  | Some tk =>
      match todo tk with
      | b :: _ =>
          let st0 := mkP s (pp_init pp maxr) false false 0 0 [] in
          match interp_list pst
                  (do_ev_p Q (pp_count pp) (pp_onfull pp) t b)
                  p_reads p_clear (S (Z.to_nat maxr)) (core_list tree) st0
                  (put_guards direct (pp_direct pp) (pp_loop pp)
                              (pp_first pp) (pp_gaveup pp) maxr)
          with
          | IOk st _ =>
              if p_counted st then
                let s1 := pop_todo t (p_s st) in
                let s2 := if p_done st then s1
                          else mkState (tasks s1) (queue s1) (collected s1)
                                       (expected s1) (ph s1)
                                       (lost s1 + lenZ b) in
                Some (mkPR s2 (p_done st) (p_nowait st) (p_block st)
                           (p_tries st))
              else None
          | _ => None
          end
      | [] => None
      end
  | None => None
  end.

(* ------------------------------------------------------ expected shapes *)
(* _get_results: calls, locks and if/loop structure *)
Definition expected_get_results : list stm :=
  [ SLoop                                   (* while True:                *)
      [ SEv (Call "q_empty");
        SIf                                 (* queue not empty:           *)
          [ SEv (Acq "collection");
            SEv (Call "q_get");             (*   Collect: pop the head .. *)
            SEv (Call "coll_add");          (*   .. add_batch             *)
            SEv (Rel "collection") ]
          [ SEv (Call "stop_requested");
            SIf [ SExit ] [] ] ];           (* stop requested: thread ends;
                                               otherwise Tick (sleep)     *)
    SEv (Acq "collection"); SEv (Rel "collection") ].  (* log line *)

(* _purge_results *)
Definition expected_purge_results : list stm :=
  [ SLoop                                   (* while True:                *)
      [ SEv (Acq "collection");
        SEv (Call "q_empty");
        SIf                                 (* queue not empty:           *)
          [ SEv (Call "q_get");             (*   PurgeStep: pop the head  *)
            SEv (Call "coll_add") ]         (*   .. add_batch             *)
          [ SIf                             (* expected > len(results):   *)
              [ STry [ SEv (Call "q_get");  (*   wait: PurgeStep, or ..   *)
                       SEv (Call "coll_add") ]
                     [ ("queue.Empty", []) ] (*  .. Tick on time-out      *)
                     [] [] ]
              [ SExit ] ];                  (* Return guard holds: break  *)
        SEv (Rel "collection") ] ].

(* put_result *)
Definition expected_put_result : list stm :=
  [ SIf [ SEv (Call "coll_add"); SExit ] [];  (* single-process: add, return *)
    SLoop                                   (* while max_tries > 0:       *)
      [ STry
          [ SIf [ SEv (Call "q_put") ]      (* Put t via put_nowait       *)
                [ SEv (Call "q_put_block") ]; (* Put t via blocking put   *)
            SExit ]                         (* success: break             *)
          [ ("queue.Full",                  (* retry: Tick                *)
             [ SIf [] []; SEv (Call "sleep"); SIf [] [] ]) ]
          [] [] ];
    SIf [] [] ].                            (* max_tries == 0: Drop t     *)

(* _flush_results_buffer: one put_result per slice, then the pops *)
Definition expected_flush_results_buffer : list stm :=
  [ SLoop                                   (* while self.results_buffer: *)
      [ STry
          [ SEv (Call "slice_buffer");      (* next batch of todo(t)      *)
            SEv (Call "put_result");        (* Put t / Drop t             *)
            SLoop [ SEv (Call "buffer_pop") ] ] (* todo(t) := rest        *)
          [ ("IndexError", []) ] [] [] ] ].

(* _run_mp *)
Definition expected_run_mp : list stm :=
  [ STry
      [ SEv (Call "pool_enter");
        SLoop [ SEv (Call "submit") ];      (* every task becomes runnable *)
        SEv (Call "info_start");
        SEv (Call "results_start");         (* collector thread: Collect   *)
        STry
          [ SEv (Call "as_completed");
            SLoop [ SEv (Call "future_result");
                    SEv (Call "stats_update") ] ]    (* Finish t           *)
          [ ("concurrent.futures.process.BrokenProcessPool",
             [ SRaise "FileSearchException" ]) ] [] [];
        SLoop [ SIf [] [] ];
        SEv (Call "results_stop");          (* StartPurge ..               *)
        SEv (Call "info_stop");
        SEv (Call "purge");                 (* .. PurgeStep* ; Return      *)
        SEv (Call "kill_workers");
        SEv (Call "pool_exit") ]
      [ ("concurrent.futures.process.BrokenProcessPool",
         [ SRaise "FileSearchException" ]) ]
      []
      [ SEv (Call "store_lock_try_acquire"); SIf [] [];
        SEv (Call "store_lock_force_release");
        SEv (Call "results_stop"); SEv (Call "info_stop") ] ].

(* --------------------------------------------------------- core shapes
   what the interpreters actually run: the loop bodies of the consumers and
   the whole of put_result, reads of expected / collection / stats_results
   kept *)
Definition purge_body_core : list stm :=
  [ SEv (Acq "collection");
    SEv (Call "q_empty");
    SIf [ SEv (Call "q_get"); SEv (Call "coll_add") ]
        [ SEv (Rd "expected"); SEv (Rd "collection");
          SIf [ STry [ SEv (Call "q_get"); SEv (Call "coll_add") ]
                     [ ("queue.Empty",
                        [ SEv (Rd "expected"); SEv (Rd "collection") ]) ]
                     [] [] ]
              [ SExit ] ];
    SEv (Rel "collection") ].

Definition collector_body_core : list stm :=
  [ SEv (Call "q_empty");
    SIf [ SEv (Acq "collection"); SEv (Call "q_get"); SEv (Call "coll_add");
          SEv (Rel "collection") ]
        [ SEv (Call "stop_requested"); SIf [ SExit ] [] ] ].

Definition put_result_core : list stm :=
  [ SEv (Rd "stats_results"); SEv (Wr "stats_results");
    SIf [ SEv (Call "coll_add"); SExit ] [];
    SLoop
      [ STry [ SIf [ SEv (Call "q_put") ] [ SEv (Call "q_put_block") ];
               SExit ]
             [ ("queue.Full",
                [ SIf [] []; SEv (Call "sleep"); SIf [] [] ]) ] [] [] ];
    SIf [] [] ].

(* =====================================================================
   ThreadManager: the stop protocol of the collector (and info) thread.
   stop() of a running manager sets the thread's event and joins it; the
   model's StartPurge is "the collector has been stopped": [stop] of
   [run_collector_iter] is the event, the join is the thread's exit.
   ===================================================================== *)
Record tmst := mkTM {
  tm_running : bool;     (* self.running *)
  tm_event : bool;       (* the Event is set *)
  tm_created : bool;     (* Thread object exists *)
  tm_alive : bool;       (* started and not joined *)
  tm_sets : nat;         (* event.set() calls *)
  tm_joins : nat;        (* thread.join() calls *)
  tm_reads : list string
}.

Definition tm_clear (st : tmst) : tmst :=
  mkTM (tm_running st) (tm_event st) (tm_created st) (tm_alive st)
       (tm_sets st) (tm_joins st) [].

(* [wr] : the constant the function assigns to self.running.  Joining a
   thread that was not started, or whose event is not set (the thread's loop
   only ends after it), does not return: error *)
Definition do_ev_tm (wr : bool) (e : ev) (st : tmst) : evres tmst :=
  match e with
  | Rd a => EOk (mkTM (tm_running st) (tm_event st) (tm_created st)
                      (tm_alive st) (tm_sets st) (tm_joins st)
                      (a :: tm_reads st))
  | Wr a =>
      if String.eqb a "running"
      then EOk (mkTM wr (tm_event st) (tm_created st) (tm_alive st)
                     (tm_sets st) (tm_joins st) (tm_reads st))
      else EErr
  | Call f =>
      if String.eqb f "event_new" || String.eqb f "event_clear"
      then EOk (mkTM (tm_running st) false (tm_created st) (tm_alive st)
                     (tm_sets st) (tm_joins st) (tm_reads st))
      else if String.eqb f "thread_new"
      then EOk (mkTM (tm_running st) (tm_event st) true false
                     (tm_sets st) (tm_joins st) (tm_reads st))
      else if String.eqb f "thread_start"
      then if tm_created st && negb (tm_alive st)
           then EOk (mkTM (tm_running st) (tm_event st) true true
                          (tm_sets st) (tm_joins st) (tm_reads st))
           else EErr
      else if String.eqb f "event_set"
      then EOk (mkTM (tm_running st) true (tm_created st) (tm_alive st)
                     (S (tm_sets st)) (tm_joins st) (tm_reads st))
      else if String.eqb f "thread_join"
      then if tm_alive st && tm_event st
           then EOk (mkTM (tm_running st) (tm_event st) (tm_created st)
                          false (tm_sets st) (S (tm_joins st))
                          (tm_reads st))
           else EErr
      else EErr
  | _ => EErr
  end.

(* the whole (unerased) tree is interpreted *)
Definition run_tm (wr : bool) (gs : list (guard tmst)) (t : list stm)
           (st : tmst) : option tmst :=
  match interp_list tmst (do_ev_tm wr) tm_reads tm_clear 1 t st gs with
  | IOk st' _ => Some (tm_clear st')
  | _ => None
  end.

Definition tm_stop_guards (test : bool -> bool) : list (guard tmst) :=
  [ (* if self.running: *)
    (["running"], fun st => test (tm_running st)) ].

(* the model of the three methods *)
Definition tm_new : tmst := mkTM false false true false 0 0 [].
Definition tm_model_start (st : tmst) : option tmst :=
  if tm_created st && negb (tm_alive st)
  then Some (mkTM true (tm_event st) true true (tm_sets st) (tm_joins st) [])
  else None.
Definition tm_model_stop (st : tmst) : option tmst :=
  if tm_running st then
    if tm_alive st
    then Some (mkTM false true (tm_created st) false (S (tm_sets st))
                    (S (tm_joins st)) [])
    else None
  else Some (tm_clear st).

(* =====================================================================
   SearchCatalog.get_source_id: the table path -> source id.  The pipeline
   model identifies a task, its path and its source id (results are filed
   under the path of their source id): that needs the ids of distinct
   catalog paths to be distinct.
   ===================================================================== *)
Section SourceIds.
  Variable Pth : Type.
  Variable same : Pth -> Pth -> bool.   (* the reuse test *)
  Variable first_id : Z.
  Variable fresh : Z -> Z.              (* from the largest id in use *)

  Definition idtable := list (Z * Pth).

  Fixpoint lookup_id (p : Pth) (tbl : idtable) : option Z :=
    match tbl with
    | [] => None
    | (i, q) :: r => if same q p then Some i else lookup_id p r
    end.

  Fixpoint max_id (tbl : idtable) : Z :=
    match tbl with
    | [] => first_id
    | [(i, _)] => i
    | (i, _) :: r => Z.max i (max_id r)
    end.

  Definition new_id (tbl : idtable) : Z :=
    match tbl with [] => first_id | _ => fresh (max_id tbl) end.

  (* get_source_id(path): returns the id and the updated table *)
  Definition get_source_id (p : Pth) (tbl : idtable) : Z * idtable :=
    match lookup_id p tbl with
    | Some i => (i, tbl)
    | None => (new_id tbl, tbl ++ [(new_id tbl, p)])
    end.

  Definition register_all (ps : list Pth) : idtable :=
    fold_left (fun t p => snd (get_source_id p t)) ps [].
End SourceIds.
