(* SearchTask.execute's treatment of plain and gzip files.

   A file on disk has a raw size and, as far as searchkit can observe it
   through the descriptor it ends up using, a byte stream: the raw bytes for
   a plain file, the decompressed stream (all members concatenated) for a
   gzip file.  Everything downstream of the descriptor - line iteration, the
   since-seeker's seek/tell/read, searching - is a function [search] of that
   stream (C01/C03/C04/C07 are about that function).

   execute:   if os.path.getsize(path) == 0: return SearchTaskStats()
              with gzip.open(path) as fd:
                  try: fd.peek(1)
                  except OSError: with open(path) as fd: search(fd)
                  else: search(fd)
   Trusted (not modelled): CPython's GzipFile presents the decompressed
   stream through seek/tell/read/peek/iteration exactly like a plain file
   presents its bytes, for every compression level and for multi-member
   archives, and peek(1) raises OSError exactly on non-gzip input. *)
From Coq Require Import ZArith List Bool.
Import ListNotations.
Open Scope Z_scope.

Inductive fkind := Plain | Gz.

Record bfile := mkFile {
  raw_size : Z;         (* os.path.getsize *)
  kind : fkind;         (* outcome of the gzip probe *)
  stream : list Z       (* bytes the chosen descriptor yields *)
}.

Definition lenZ {A} (l : list A) : Z := Z.of_nat (length l).

(* a plain file's stream is its raw bytes; a gzip container is never empty
   (header + trailer), even for empty content *)
Definition wf (f : bfile) : Prop :=
  match kind f with
  | Plain => raw_size f = lenZ (stream f)
  | Gz => 0 < raw_size f
  end.

Section Exec.
  Variable Res : Type.
  Variable search : list Z -> Res.     (* _run_search on a descriptor *)
  Variable empty : Res.                (* fresh SearchTaskStats, no results *)

  Definition execute (f : bfile) : Res :=
    if raw_size f =? 0 then empty
    else match kind f with
         | Gz => search (stream f)     (* else-branch of the probe *)
         | Plain => search (stream f)  (* except OSError branch *)
         end.
End Exec.
