(* C06 - concurrent model of ResultStoreParallel (definitions only).

   k tasks; task p runs the program  [add_to_store(ns, v)]* ; sync()  on its
   own ResultStoreParallel object (its own local ResultStoreSimple, as every
   pickled copy of the store in a worker has), all sharing
     g_ptr   alloc_pointer.value
     g_lock  RESULTS_STORE_LOCK  (None = free, Some p = held by task p)
     g_sh    the four manager dicts.
   The two functions that touch shared state are expanded THROUGH THEIR LOCK
   SKELETONS (Model/Skel.v, generated from the source into Gen/Skeleton.v)
   into atomic actions:
     preallocate -> [expand_pre]  : Acq/Rel "store" -> AAcq/ARel, the first
                    Rd "alloc_pointer" -> ARdCur (current = pointer), later
                    reads -> ARdInc (the read of `+=`), Wr -> AWrPtr
                    (pointer := value read by ARdInc + size)
     sync        -> [expand_sync] : Acq/Rel, the j-th loop runs over the j-th
                    dict of the local store (data, value_store, tag_store,
                    sequence_id_store); Wr "data" -> AWrData idx value;
                    Call "add_to_store" -> AMergeChk (the `value in store`
                    test) followed by ARevGet or ARevSet.
   Everything else a task does is local to it and is folded into "local"
   steps (fetching the next add, the dedup lookups, the roll-over test,
   picking the slot): these touch no shared state.

   A schedule is a list of task numbers.  [step] is partial: a task that is
   finished, out of range, or waiting for the held lock has no step; [run]
   treats such an entry of the schedule as a stutter. *)
From Coq Require Import String ZArith List Bool Arith.
From SK Require Import Model.Base Model.Skel Model.Store.
Import ListNotations.
Open Scope Z_scope.

Inductive act :=
| AAcq | ARel
| ARdCur | ARdInc | AWrPtr
| AWrData (i v : Z)
| AMergeChk (n : ns) (v i : Z)
| ARevGet (n : ns) (v : Z)
| ARevSet (n : ns) (v i : Z).

Definition is_store (l : string) : bool := String.eqb l "store".

(* preallocate *)
Fixpoint expand_pre (nrd : nat) (sk : list ev) : list act :=
  match sk with
  | [] => []
  | Acq l :: r => if is_store l then AAcq :: expand_pre nrd r
                  else expand_pre nrd r
  | Rel l :: r => if is_store l then ARel :: expand_pre nrd r
                  else expand_pre nrd r
  | Rd c :: r => if String.eqb c "alloc_pointer"
                 then (match nrd with O => ARdCur | _ => ARdInc end)
                        :: expand_pre (S nrd) r
                 else expand_pre nrd r
  | Wr c :: r => if String.eqb c "alloc_pointer"
                 then AWrPtr :: expand_pre nrd r
                 else expand_pre nrd r
  | _ :: r => expand_pre nrd r
  end.

(* sync *)
Definition loop_items (j : nat) (l : store) : list (Z * Z) :=
  match j with
  | 0%nat => data l | 1%nat => vstore l | 2%nat => tstore l | 3%nat => sstore l
  | _ => []
  end.

Definition loop_ns (j : nat) : ns :=
  match j with 1%nat => NsValue | 2%nat => NsTag | _ => NsSeq end.

Definition top_act (e : ev) : list act :=
  match e with
  | Acq l => if is_store l then [AAcq] else []
  | Rel l => if is_store l then [ARel] else []
  | _ => []
  end.

(* one iteration of loop j for the item (key, val) *)
Definition body_act (j : nat) (item : Z * Z) (e : ev) : list act :=
  match e with
  | Wr c => if String.eqb c "data" then [AWrData (fst item) (snd item)] else []
  | Call f => if String.eqb f "add_to_store"
              then [AMergeChk (loop_ns j) (fst item) (snd item)] else []
  | other => top_act other
  end.

Definition sync_relevant (e : ev) : bool :=
  match e with
  | Acq _ | Rel _ | Wr _ | Call _ | LoopB | LoopE => true
  | _ => false
  end.

(* [inloop] = events of the current loop body collected so far, reversed *)
Fixpoint walk_sync (l : store) (sk : list ev) (inloop : option (list ev))
         (j : nat) : list act :=
  match sk with
  | [] => []
  | e :: r =>
      if negb (sync_relevant e) then walk_sync l r inloop j else
      match e, inloop with
      | LoopB, _ => walk_sync l r (Some []) j
      | LoopE, Some body =>
          flat_map (fun item => flat_map (body_act j item) (rev body))
                   (loop_items j l)
          ++ walk_sync l r None (S j)
      | LoopE, None => walk_sync l r None j
      | _, Some body => walk_sync l r (Some (e :: body)) j
      | _, None => top_act e ++ walk_sync l r None j
      end
  end.

(* A behaviour-preserving way of writing the three merges: ONE loop over the
   literal tuple of the three (local map, shared map) pairs around ONE inner
   loop - in the skeleton: the three shared maps read once (the tuple), then
   a loop nest around a single add_to_store call.  [sync_norm] rewrites that
   into the three loops it stands for; everything else is left alone. *)
Definition is_rev_map (c : string) : bool :=
  String.eqb c "value_store" || String.eqb c "tag_store"
  || String.eqb c "sequence_id_store".

Definition three_maps (a b c : string) : bool :=
  is_rev_map a && is_rev_map b && is_rev_map c
  && negb (String.eqb a b) && negb (String.eqb a c) && negb (String.eqb b c).

Definition sync_rel2 (e : ev) : bool :=
  sync_relevant e || match e with Rd c => is_rev_map c | _ => false end.

Fixpoint sync_norm (fuel : nat) (sk : list ev) : list ev :=
  match fuel with
  | O => sk
  | S n =>
      match sk with
      | Rd a :: Rd b :: Rd c :: LoopB :: LoopB :: Call f :: LoopE :: LoopE :: r =>
          if three_maps a b c && String.eqb f "add_to_store"
          then [LoopB; Call f; LoopE; LoopB; Call f; LoopE; LoopB; Call f; LoopE]
               ++ sync_norm n r
          else Rd a :: sync_norm n (Rd b :: Rd c :: LoopB :: LoopB :: Call f
                                       :: LoopE :: LoopE :: r)
      | e :: r => e :: sync_norm n r
      | [] => []
      end
  end.

(* what the model looks at: lock operations, writes, calls and loops of
   sync, after that normalisation *)
Definition sync_view (sk : list ev) : list ev :=
  filter sync_relevant
         (sync_norm (length sk) (filter sync_rel2 sk)).

Definition expand_sync (sk : list ev) (l : store) : list act :=
  walk_sync l (sync_view sk) None 0.

(* ---------------------------------------------------------------- tasks *)
Inductive ctl :=
| CIdle                                      (* between two adds *)
| CPre (k : nat) (n : ns) (v : Z) (rest : list act)
      (* inside the k-th evaluation of `allocations` of the add (n, v):
         remaining actions of preallocate *)
| CSync (rest : list act)
| CDone
| CFailed.                                   (* ResultStoreException *)

Record task := mkTask {
  t_prog : list (ns * Z);
  t_ctl : ctl;
  t_loc : store;
  t_cur : Z;                 (* `current` of preallocate *)
  t_inc : Z;                 (* value read by `+=` *)
  t_handed : list (Z * Z);   (* ghost: (index, value) returned by the adds, newest first *)
  t_blocks : list Z          (* ghost: starts of the blocks preallocate returned, newest first *)
}.

Record gstate := mkG {
  g_tasks : list task;
  g_ptr : Z;
  g_lock : option nat;
  g_sh : shared
}.

Definition set_ctl (t : task) (c : ctl) : task :=
  mkTask (t_prog t) c (t_loc t) (t_cur t) (t_inc t) (t_handed t) (t_blocks t).
Definition set_prog (t : task) (p : list (ns * Z)) : task :=
  mkTask p (t_ctl t) (t_loc t) (t_cur t) (t_inc t) (t_handed t) (t_blocks t).
Definition set_loc (t : task) (l : store) : task :=
  mkTask (t_prog t) (t_ctl t) l (t_cur t) (t_inc t) (t_handed t) (t_blocks t).
Definition set_cur (t : task) (z : Z) : task :=
  mkTask (t_prog t) (t_ctl t) (t_loc t) z (t_inc t) (t_handed t) (t_blocks t).
Definition set_inc (t : task) (z : Z) : task :=
  mkTask (t_prog t) (t_ctl t) (t_loc t) (t_cur t) z (t_handed t) (t_blocks t).

(* the add returns index i for value v *)
Definition hand (t : task) (i v : Z) : task :=
  mkTask (t_prog t) CIdle (t_loc t) (t_cur t) (t_inc t)
         ((i, v) :: t_handed t) (t_blocks t).

(* end of _allocate_next + _add_to_store: pick the slot, store, remember *)
Definition finish (t : task) (n : ns) (v : Z) : task :=
  match alloc_pick (t_loc t) (allocations_value (t_loc t)) v with
  | Ok (l1, i) => hand (set_loc t (set_ns l1 n (dset v i (get_ns l1 n)))) i v
  | ErrAlloc => set_ctl t CFailed
  end.

Definition needs (l : store) : bool := pre l && alloc_needed l.

(* second / first evaluation of the `allocations` property *)
Definition check2 (pa : list act) (t : task) (n : ns) (v : Z) : task :=
  if needs (t_loc t) then set_ctl t (CPre 2 n v pa) else finish t n v.
Definition check1 (pa : list act) (t : task) (n : ns) (v : Z) : task :=
  if needs (t_loc t) then set_ctl t (CPre 1 n v pa) else check2 pa t n v.

(* _add_to_store(value, store): dedup lookups, all local *)
Definition begin_add (pa : list act) (t : task) (n : ns) (v : Z) : task :=
  match dget v (get_ns (t_loc t) n) with
  | Some i => hand t i v
  | None =>
      match scan v (data (t_loc t)) with
      | Some i =>
          hand (set_loc t (set_ns (t_loc t) n (dset v i (get_ns (t_loc t) n))))
               i v
      | None => check1 pa t n v
      end
  end.

(* preallocate returned list(range(current, current + size)) *)
Definition epilogue (pa : list act) (k : nat) (t : task) (n : ns) (v : Z)
  : task :=
  let l := t_loc t in
  let t1 := mkTask (t_prog t) (t_ctl t)
                   (set_allocs l (range (t_cur t) (Z.to_nat (bsz l))))
                   (t_cur t) (t_inc t) (t_handed t) (t_cur t :: t_blocks t) in
  match k with
  | 1%nat => check2 pa t1 n v
  | _ => finish t1 n v
  end.

Definition sh_get (sh : shared) (n : ns) : dict :=
  match n with NsValue => sh_vstore sh | NsTag => sh_tstore sh
          | NsSeq => sh_sstore sh end.
Definition sh_set (sh : shared) (n : ns) (d : dict) : shared :=
  match n with
  | NsValue => mkShared (sh_data sh) d (sh_tstore sh) (sh_sstore sh)
  | NsTag => mkShared (sh_data sh) (sh_vstore sh) d (sh_sstore sh)
  | NsSeq => mkShared (sh_data sh) (sh_vstore sh) (sh_tstore sh) d
  end.

(* result of one shared action of task p: new registers, pointer, lock,
   shared dicts, and actions pushed in front of the continuation *)
Record effect := mkEff {
  e_task : task; e_ptr : Z; e_lock : option nat; e_sh : shared;
  e_push : list act }.

Definition exec (p : nat) (a : act) (t : task) (g : gstate) : option effect :=
  let same := mkEff t (g_ptr g) (g_lock g) (g_sh g) [] in
  match a with
  | AAcq => match g_lock g with
            | None => Some (mkEff t (g_ptr g) (Some p) (g_sh g) [])
            | Some _ => None                      (* blocked *)
            end
  | ARel => Some (mkEff t (g_ptr g) None (g_sh g) [])
  | ARdCur => Some (mkEff (set_cur t (g_ptr g)) (g_ptr g) (g_lock g) (g_sh g) [])
  | ARdInc => Some (mkEff (set_inc t (g_ptr g)) (g_ptr g) (g_lock g) (g_sh g) [])
  | AWrPtr => Some (mkEff t (t_inc t + bsz (t_loc t)) (g_lock g) (g_sh g) [])
  | AWrData i v =>
      let sh := g_sh g in
      Some (mkEff t (g_ptr g) (g_lock g)
                  (mkShared (dset i v (sh_data sh)) (sh_vstore sh)
                            (sh_tstore sh) (sh_sstore sh)) [])
  | AMergeChk n v i =>
      Some (mkEff t (g_ptr g) (g_lock g) (g_sh g)
                  [if dmem v (sh_get (g_sh g) n) then ARevGet n v
                   else ARevSet n v i])
  | ARevGet n v => Some same
  | ARevSet n v i =>
      Some (mkEff t (g_ptr g) (g_lock g)
                  (sh_set (g_sh g) n (dset v i (sh_get (g_sh g) n))) [])
  end.

Fixpoint upd {A} (l : list A) (p : nat) (x : A) : list A :=
  match l, p with
  | [], _ => []
  | _ :: r, O => x :: r
  | a :: r, S q => a :: upd r q x
  end.

Definition set_task (g : gstate) (p : nat) (t : task) : gstate :=
  mkG (upd (g_tasks g) p t) (g_ptr g) (g_lock g) (g_sh g).

Definition is_shared_step (t : task) : bool :=
  match t_ctl t with
  | CPre _ _ _ (_ :: _) | CSync (_ :: _) => true
  | _ => false
  end.

(* one step of task p; [pa] = actions of preallocate, [sa] = actions of sync
   for a given local store *)
Definition step (pa : list act) (sa : store -> list act) (g : gstate) (p : nat)
  : option gstate :=
  match nth_error (g_tasks g) p with
  | None => None
  | Some t =>
      match t_ctl t with
      | CDone | CFailed => None
      | CIdle =>
          match t_prog t with
          | (n, v) :: r => Some (set_task g p (begin_add pa (set_prog t r) n v))
          | [] => Some (set_task g p (set_ctl t (CSync (sa (t_loc t)))))
          end
      | CPre k n v [] => Some (set_task g p (epilogue pa k t n v))
      | CPre k n v (a :: rest) =>
          match exec p a t g with
          | None => None
          | Some e =>
              Some (mkG (upd (g_tasks g) p
                             (set_ctl (e_task e) (CPre k n v (e_push e ++ rest))))
                        (e_ptr e) (e_lock e) (e_sh e))
          end
      | CSync [] => Some (set_task g p (set_ctl t CDone))
      | CSync (a :: rest) =>
          match exec p a t g with
          | None => None
          | Some e =>
              Some (mkG (upd (g_tasks g) p
                             (set_ctl (e_task e) (CSync (e_push e ++ rest))))
                        (e_ptr e) (e_lock e) (e_sh e))
          end
      end
  end.

Definition step_or_stutter pa sa (g : gstate) (p : nat) : gstate :=
  match step pa sa g p with Some g' => g' | None => g end.

Definition run pa sa (g : gstate) (sched : list nat) : gstate :=
  fold_left (step_or_stutter pa sa) sched g.

Definition init_task (bsize : Z) (prog : list (ns * Z)) : task :=
  mkTask prog CIdle (init_pre bsize (fun _ => 0)) 0 0 [] [].

Definition init (bsize : Z) (progs : list (list (ns * Z))) : gstate :=
  mkG (map (init_task bsize) progs) 0 None shared_empty.

Definition finished (t : task) : bool :=
  match t_ctl t with CDone | CFailed => true | _ => false end.

Definition all_finished (g : gstate) : bool := forallb finished (g_tasks g).

Definition enabled pa sa (g : gstate) (p : nat) : bool :=
  match step pa sa g p with Some _ => true | None => false end.

(* ---- what the skeleton check demands ---- *)
Definition act_eqb (a b : act) : bool :=
  match a, b with
  | AAcq, AAcq | ARel, ARel | ARdCur, ARdCur | ARdInc, ARdInc
  | AWrPtr, AWrPtr => true
  | _, _ => false
  end.

Fixpoint acts_eqb (x y : list act) : bool :=
  match x, y with
  | [], [] => true
  | a :: r, b :: s => act_eqb a b && acts_eqb r s
  | _, _ => false
  end.

Definition canon_pre : list act := [AAcq; ARdCur; ARdInc; AWrPtr; ARel].

(* preallocate: read, read, write of the pointer inside ONE critical section *)
Definition well_locked_pre (sk : list ev) : bool :=
  acts_eqb (expand_pre 0 sk) canon_pre &&
  one_section "store" is_access sk.

Definition ev_eqb (a b : ev) : bool :=
  match a, b with
  | LoopB, LoopB | LoopE, LoopE => true
  | _, _ => ev_is a b
  end.

Fixpoint evs_eqb (x y : list ev) : bool :=
  match x, y with
  | [], [] => true
  | a :: r, b :: s => ev_eqb a b && evs_eqb r s
  | _, _ => false
  end.

Definition canon_sync : list ev :=
  [Acq "store"; LoopB; Wr "data"; LoopE;
   LoopB; Call "add_to_store"; LoopE;
   LoopB; Call "add_to_store"; LoopE;
   LoopB; Call "add_to_store"; LoopE; Rel "store"]%string.

(* sync: one critical section around the four loops *)
Definition well_locked_sync (sk : list ev) : bool :=
  evs_eqb (sync_view sk) canon_sync.

(* the skeleton with its lock operations removed (refutation) *)
Definition unlock (sk : list ev) : list ev :=
  filter (fun e => match e with Acq _ | Rel _ => false | _ => true end) sk.

(* blocks (start, start + bsize) of two different tasks / positions overlap *)
Definition overlap (b c c' : Z) : bool := (c <? c' + b) && (c' <? c + b).

Fixpoint all_pairs_sep (b : Z) (l : list Z) : bool :=
  match l with
  | [] => true
  | c :: r => forallb (fun c' => negb (overlap b c c')) r && all_pairs_sep b r
  end.

(* every block any task was granted, all tasks together *)
Definition all_blocks (g : gstate) : list Z := flat_map t_blocks (g_tasks g).

Definition blocks_disjoint (b : Z) (g : gstate) : bool :=
  all_pairs_sep b (all_blocks g).
