(* GENERATED from the repository working tree by translator/plugins/stats.py - do not edit *)
From Coq Require Import String ZArith List Bool.
Import ListNotations.
Open Scope string_scope.
Open Scope Z_scope.

(* self.data = {'searches': 0, 'searches_by_job': [], 'lines_searched': 0, 'jobs_completed': 0, 'total_jobs': 0, 'results': 0} *)
Definition stats_reset_fields : list (string * option Z) :=
  [("searches", Some (0)); ("searches_by_job", None); ("lines_searched", Some (0)); ("jobs_completed", Some (0)); ("total_jobs", Some (0)); ("results", Some (0))].

Definition stats_init_resets : bool := true.

Definition stats_update_op : string := "+=".

