(* GENERATED from the repository working tree by translator/plugins/sequence.py - do not edit *)
From Coq Require Import String ZArith List Bool Arith.
From SK Require Import Model.Sequence Model.SequenceSk.
Import ListNotations.
Open Scope string_scope.
Open Scope list_scope.

Definition x_seqdef_start : list dstm :=
  [DFreshId; DSetMark (Some (1)%Z)].

Definition x_seqdef_reset : list dstm :=
  [DSetMark (Some (0)%Z)].

Definition x_seqdef_stop : list dstm :=
  [DSetMark (Some (0)%Z); DCheckId; DComplete; DFreshId].

Definition x_seqdef_started_mark : Z := (1)%Z.

Definition x_seqdef_current_is_section_id : bool := true.

Definition x_seqdef_init : list dstm := [DSetMark None].
Definition x_seqdef_links : list (string * string) := [("body", "self.body_tag"); ("end", "self.end_tag"); ("start", "self.start_tag")].

Definition x_seqdef_tag_suffix : list (string * string) := [("self.body_tag", "-body"); ("self.end_tag", "-end"); ("self.start_tag", "-start")].

Definition x_seqres_add {A} (present : bool) (old : list A) (x : A) : list A :=
  if present then old ++ [x] else [x].

Definition x_seqres_remove_keep (rsec sec : nat) : bool := negb (Nat.eqb rsec sec).
Definition x_seqres_remove {A} (sec_of : A -> nat) (present : bool) (old : list A)
  (sec : nat) : list A :=
  if present then filter (fun r => x_seqres_remove_keep (sec_of r) sec) old else old.

Definition x_result_linked_before_any_return : bool := true.

Definition x_eof_filter_created_once_before_loop : bool := true.
