(* GENERATED from the repository working tree by translator/plugins/lifecycle.py - do not edit *)

(* ThreadManager.stop: if self.running: *)
Definition tm_stop_test_negated : bool := false.

From Coq Require Import String List.
Import ListNotations.
Local Open Scope string_scope.
(* argument kinds at every raise of FileSearchException: "str" = text built in place, "exc" = a caught exception object, "other" *)
Definition fse_raise_sites : list (string * list string) :=
  [("task.py:execute", ["str"]); ("task.py:execute", ["str"]); ("search.py:index_to_name", ["str"]); ("search.py:_run_mp", ["str"]); ("search.py:_run_mp", ["str"])].
