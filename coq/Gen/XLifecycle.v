(* GENERATED from the repository working tree by translator/plugins/lifecycle.py - do not edit *)

(* ThreadManager.stop: if self.running: *)
Definition tm_stop_test_negated : bool := false.
