(* GENERATED from the repository working tree by translator/plugins/pipeline.py - do not edit *)
From Coq Require Import ZArith Bool.
Open Scope Z_scope.

(* _get_results, first test: not results_queue.empty() *)
Definition collector_take_test (q_empty : bool) : bool := (negb q_empty).

(* _get_results, elif test (then: break): event.is_set() *)
Definition collector_stop_test (stop_requested : bool) : bool := stop_requested.

(* _purge_results, first test: not results_queue.empty() *)
Definition purge_take_test (q_empty : bool) : bool := (negb q_empty).

(* _purge_results, elif test (else: break): expected > len(results) *)
Definition purge_wait_test (expected len_results : Z) : bool := (len_results <? expected).

(* self._purge_results(results, results_queue, self.stats['results']) *)
Definition run_mp_purge_expected (stats_results : Z) : Z := stats_results.

(* self.stats['results'] += len(results) *)
Definition put_count_update (stats_results batch_len : Z) : Z := stats_results + batch_len.

(* if self.results_manager.results_collection is not None: add; return *)
Definition put_direct_test (has_collection : bool) : bool := has_collection.

(* max_tries = MAX_QUEUE_RETRIES *)
Definition put_tries_init (max_queue_retries : Z) : Z := max_queue_retries.

(* while max_tries > 0 *)
Definition put_loop_test (max_tries : Z) : bool := (0 <? max_tries).

(* if max_tries == MAX_QUEUE_RETRIES: put_nowait else: put(timeout) *)
Definition put_first_try_test (max_tries max_queue_retries : Z) : bool := (max_tries =? max_queue_retries).

(* except queue.Full: max_tries -= 1; time.sleep(..) *)
Definition put_on_full (max_tries : Z) : Z := (max_tries - 1).

(* if max_tries == 0: log.error(..) *)
Definition put_gave_up_test (max_tries : Z) : bool := (max_tries =? 0).

(* ThreadManager.__init__: self.running = False *)
Definition tm_init_running : bool := false.

(* ThreadManager.start: self.running = True *)
Definition tm_start_running : bool := true.

(* ThreadManager.stop: self.running = False *)
Definition tm_stop_running : bool := false.

(* ThreadManager.stop: if self.running: *)
Definition tm_stop_test (running : bool) : bool := running.

(* self.thread = threading.Thread(target=func, args=[self.event, *args]) *)
Definition tm_thread_runs_func_with_own_event : bool := true.

(* results_thread = ThreadManager('results', self._get_results, [results, results_queue]); results_queue = mgr.Queue(RESULTS_QUEUE_SIZE) *)
Definition run_mp_collector_wired : bool := true.

(* if results_queue is not None and results_collection is not None: raise SearchTaskError *)
Definition rm_conflict_test (has_queue has_collection : bool) : bool := (has_queue && has_collection).

(* SearchTaskResultsManager: results_store / results_queue / results_collection return the constructor arguments *)
Definition rm_properties_are_arguments : bool := true.

(* FileSearcher._run_mp: SearchTaskResultsManager(results_store, results_queue=results_queue) *)
Definition run_mp_manager_mode : bool * bool := (true, false).

(* FileSearcher._run_single: SearchTaskResultsManager(results_store, results_collection=results_collection) *)
Definition run_single_manager_mode : bool * bool := (false, true).

(* get_source_id: reuse iff _path == path; source_id = 0; source_id = max(list(self._source_ids)) + 1 *)
Definition source_id_reused_iff_same_path_string : bool := true.
Definition source_id_first : Z := 0.
Definition source_id_fresh (max_id : Z) : Z := (max_id + 1).

(* SearchCatalog.register: every new entry gets its OWN list: self._entries[path] = {'source_id': self.get_source_id(path), 'path': path, 'searches': [search]} (inside the per-path loop) *)
Definition catalog_entry_searches_fresh_per_path : bool := true.

(* ResultStoreParallel.local: a store object without a local store creates a NEW ResultStoreSimple and consults nothing outside itself (no process-wide cache) *)
Definition worker_local_store_fresh_per_task : bool := true.
