(* GENERATED from the repository working tree by translator/plugins/store.py - do not edit *)
From Coq Require Import Bool.

Definition x_sync_data_guard_is_not_none : bool := true.
