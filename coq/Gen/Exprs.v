(* GENERATED from the repository working tree by translator/gen.py - do not edit *)
From Coq Require Import ZArith Bool.
Open Scope Z_scope.

(* source:
   @property
   def num_parallel_tasks(self):
       if self.max_parallel_tasks == 0:
           cpus = 1
       else:
           cpus = min(self.max_parallel_tasks, os.cpu_count())
       return min(len(self.files) or 1, cpus)
*)
Definition num_parallel_tasks (max_parallel_tasks : Z) (cpu_count : Z) (len_files : Z) : Z :=
  (if (max_parallel_tasks =? 0) then (let v_cpus := 1 in (Z.min (if (len_files =? 0) then 1 else len_files) v_cpus)) else (let v_cpus := (Z.min max_parallel_tasks cpu_count) in (Z.min (if (len_files =? 0) then 1 else len_files) v_cpus))).

(* source:
   len(self.files) > 1
*)
Definition run_uses_pool (len_files : Z) : bool :=
  (1 <? len_files).

(* source:
   self.days = days
   if days:
       self.hours = 0
   else:
       self.hours = hours
*)
Definition since_init (days : Z) (hours : Z) : Z * Z :=
  (let v_self_days := days in (if (negb (days =? 0)) then (let v_self_hours := 0 in (v_self_days, v_self_hours)) else (let v_self_hours := hours in (v_self_days, v_self_hours)))).

(* source:
   @cached_property
   def since_date(self):
       """
           Reflects the date from which we will start to apply searches.
           """
       if not self.current_date:
           return None
       return self.current_date - timedelta(days=self.days, hours=self.hours or 0)
*)
Definition since_secs (current : Z) (days : Z) (hours : Z) : Z :=
  (current - (days * 86400 + (if (hours =? 0) then 0 else hours) * 3600)).

(* source:
   def _line_date_is_valid(self, extracted_datetime):
       """
           Validate if the given line falls within the provided constraint. In
           this case that's whether it has a datetime that is >= to the "since"
           date.
           """
       ts = extracted_datetime
       if ts is None:
           return False
       if ts < self.since_date:
           return False
       return True
*)
Definition line_date_is_valid (ts : Z) (since : Z) : bool :=
  (let v_ts := ts in (if false then false else (if (v_ts <? since) then false else true))).

(* source:
   @property
   def start_offset(self):
       """
           Offset of the log line's first character (excluding 
   )
   
           Depending on whether we found the start line feed or not, we discard
           one character at the beginning (i.e. the 
   )
           """
       if self.start_lf.status == FindTokenStatus.FOUND:
           return self.start_lf.offset + 1
       return self.start_lf.offset
*)
Definition logline_start_offset (found : bool) (off : Z) : Z :=
  (if found then (off + 1) else off).

(* source:
   @property
   def end_offset(self):
       """
           Offset of the log line's last character (excluding 
   )
   
           Depending on whether we found the end line feed or not, we discard one
           character at the end (i.e. the 
   )
           """
       if self.end_lf.status == FindTokenStatus.FOUND:
           return self.end_lf.offset - 1
       return self.end_lf.offset
*)
Definition logline_end_offset (found : bool) (off : Z) : Z :=
  (if found then (off - 1) else off).

(* source:
   self.data and len(self.data) % self.prealloc_block_size == 0 and (self._allocations[-1] in self.data)
*)
Definition alloc_rollover (data_len : Z) (bsize : Z) (last_used : bool) : bool :=
  ((negb (data_len =? 0)) && ((data_len mod bsize) =? 0) && last_used).

(* source:
   self.stats['results'] += len(results)
*)
Definition put_result_increment (batch_len : Z) : Z :=
  batch_len.

(* source:
   self.stats['lines_searched'] += 1
*)
Definition lines_searched_increment (tt_ : unit) : Z :=
  1.

(* source:
   self.stats['total_jobs'] += 1
*)
Definition total_jobs_increment (tt_ : unit) : Z :=
  1.

(* source:
   self.stats['jobs_completed'] += 1
*)
Definition jobs_completed_increment (tt_ : unit) : Z :=
  1.

(* source:
   while attempts > 0: ... attempts -= 1
*)
Definition loop_find_token_continues (v : Z) : bool :=
  (0 <? v).

(* source:
   attempts -= 1
*)
Definition loop_find_token_next (v : Z) : Z :=
  (v - 1).

(* source:
   attempts = LogFileDateSinceSeeker.MAX_SEEK_HORIZON_EXPAND
*)
Definition loop_find_token_init (tt_ : unit) : Z :=
  (4096).

(* source:
   while True: ... attempts -= 1 ... if attempts <= 0:
       break
*)
Definition loop_find_token_reverse_continues (v : Z) : bool :=
  (negb (((v - 1)) <=? 0)).

(* source:
   attempts -= 1
*)
Definition loop_find_token_reverse_next (v : Z) : Z :=
  (v - 1).

(* source:
   attempts = LogFileDateSinceSeeker.MAX_SEEK_HORIZON_EXPAND
*)
Definition loop_find_token_reverse_init (tt_ : unit) : Z :=
  (4096).

(* source:
   while attempts > 0: ... attempts -= 1
*)
Definition loop_tfld_continues (v : Z) : bool :=
  (0 <? v).

(* source:
   attempts -= 1
*)
Definition loop_tfld_next (v : Z) : Z :=
  (v - 1).

(* source:
   attempts = LogFileDateSinceSeeker.MAX_TRY_FIND_WITH_DATE_ATTEMPTS
*)
Definition loop_tfld_init (tt_ : unit) : Z :=
  (500).

(* source:
   while max_tries > 0: ... max_tries -= 1
*)
Definition loop_put_result_continues (v : Z) : bool :=
  (0 <? v).

(* source:
   max_tries -= 1
*)
Definition loop_put_result_next (v : Z) : Z :=
  (v - 1).

(* source:
   max_tries = MAX_QUEUE_RETRIES
*)
Definition loop_put_result_init (tt_ : unit) : Z :=
  (10).

(* source:
   attempts -= 1
   read_offset = start_offset + current_offset
   read_offset = read_offset if read_offset > 0 else 0
   read_size = LogFileDateSinceSeeker.SEEK_HORIZON
   if start_offset + current_offset <= 0:
       read_size = read_size + (start_offset + current_offset)
   log.debug('seeking to %s', read_offset)
   self.file.seek(read_offset)
   chunk = self.file.read(read_size)
*)
Definition ftr_window (start : Z) (cur : Z) (attempts : Z) (H : Z) : Z * Z :=
  (let v_attempts := (attempts - 1) in (let v_read_offset := (start + cur) in (let v_read_offset := (if (0 <? v_read_offset) then v_read_offset else 0) in (let v_read_size := H in (if ((start + cur) <=? 0) then (let v_read_size := (v_read_size + (start + cur)) in (v_read_offset, v_read_size)) else (v_read_offset, v_read_size)))))).

(* source:
   return SearchState(status=FindTokenStatus.FOUND, offset=read_offset + chunk_offset)
*)
Definition ftr_found (ro : Z) (i : Z) : Z :=
  (ro + i).

(* source:
   current_offset = current_offset - len(chunk)
*)
Definition ftr_next_cur (cur : Z) (n : Z) : Z :=
  (cur - n).

(* source:
   if read_offset == 0:
       return SearchState(status=FindTokenStatus.REACHED_EOF, offset=0)
*)
Definition ftr_stop (ro : Z) : bool :=
  (ro =? 0).

(* source:
   if read_size < LogFileDateSinceSeeker.SEEK_HORIZON:
       return SearchState(status=FindTokenStatus.REACHED_EOF, offset=0)
*)
Definition ftr_clipped (rs : Z) (H : Z) : bool :=
  (rs <? H).

(* source:
   chunk = self.file.read(LogFileDateSinceSeeker.SEEK_HORIZON)
*)
Definition ft_read_size (H : Z) : Z :=
  H.

(* source:
   start_offset + current_offset + chunk_offset
*)
Definition ft_found (start : Z) (cur : Z) (i : Z) : Z :=
  ((start + cur) + i).

(* source:
   current_offset = current_offset + len(chunk)
*)
Definition ft_next_cur (cur : Z) (n : Z) : Z :=
  (cur + n).

(* source:
   if len(chunk) < LogFileDateSinceSeeker.SEEK_HORIZON:
       return SearchState(status=FindTokenStatus.REACHED_EOF, offset=len(self))
*)
Definition ft_short (n : Z) (H : Z) : bool :=
  (n <? H).

