(* GENERATED from the repository working tree by translator/plugins/cachehit.py - do not edit *)
From Coq Require Import ZArith Bool.
Open Scope Z_scope.

(* if fd.name in self._results:
       log.debug('using cached offset')
       if destructive and self._results[fd.name] is not None:
           fd.seek(self._results[fd.name])
       return self._results[fd.name] *)
Definition cache_hit_seek_target (cached orig newoff len : Z) : Z := cached.
Definition cache_hit_returns (cached orig newoff len : Z) : Z := cached.
Definition cache_hit_guard (destructive cached_is_some : bool) : bool := destructive && cached_is_some.
