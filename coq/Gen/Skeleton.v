(* GENERATED from the repository working tree by translator/skeleton.py - do not edit *)
From Coq Require Import String List.
From SK Require Import Model.Skel.
Import ListNotations.
Open Scope string_scope.

Definition sk_rs_locked : list ev :=
  [Ret].

Definition sk_preallocate : list ev :=
  [Acq "store";
   Rd "alloc_pointer";
   Rd "alloc_pointer";
   Wr "alloc_pointer";
   Rel "store";
   Ret].

Definition sk_sync : list ev :=
  [Acq "store";
   LoopB;
   IfB;
   Wr "data";
   Else;
   IfE;
   LoopE;
   LoopB;
   Rd "value_store";
   Call "add_to_store";
   LoopE;
   LoopB;
   Rd "tag_store";
   Call "add_to_store";
   LoopE;
   LoopB;
   Rd "sequence_id_store";
   Call "add_to_store";
   LoopE;
   Rel "store"].

Definition sk_unproxy_results : list ev :=
  [Acq "store";
   Rd "value_store";
   Rd "data";
   Rd "data";
   Wr "data";
   Rd "value_store";
   Wr "value_store";
   Rd "tag_store";
   Wr "tag_store";
   Rd "sequence_id_store";
   Wr "sequence_id_store";
   Rel "store"].

Definition sk_cache_get : list ev :=
  [Acq "cache";
   LoopB;
   TryB;
   Call "open";
   Rd "record";
   Ret;
   Call "close";
   Handler "dbm.gnu.error";
   IfB;
   RaiseE "reraise";
   Else;
   IfE;
   TryE;
   LoopE;
   Rel "cache"].

Definition sk_cache_set : list ev :=
  [Acq "cache";
   Call "open";
   Wr "record";
   Call "close";
   Rel "cache"].

Definition sk_cache_bulk_set : list ev :=
  [Acq "cache";
   LoopB;
   Call "open";
   Wr "record";
   Call "close";
   LoopE;
   Rel "cache"].

Definition sk_cache_unset : list ev :=
  [Acq "cache";
   Call "open";
   Wr "record";
   Call "close";
   Rel "cache"].

Definition sk_cache_base_path : list ev :=
  [Acq "global";
   Call "isdir";
   IfB;
   Call "makedirs";
   Else;
   IfE;
   Rel "global";
   Ret].

Definition sk_get_results : list ev :=
  [LoopB;
   Call "q_empty";
   IfB;
   Acq "collection";
   Call "q_get";
   Call "coll_add";
   Rel "collection";
   Else;
   Call "stop_requested";
   IfB;
   Break;
   Else;
   IfE;
   IfE;
   LoopE;
   Acq "collection";
   Rd "collection";
   Rel "collection"].

Definition sk_purge_results : list ev :=
  [Rd "expected";
   LoopB;
   Acq "collection";
   Call "q_empty";
   IfB;
   Call "q_get";
   Call "coll_add";
   Else;
   Rd "expected";
   Rd "collection";
   IfB;
   TryB;
   Call "q_get";
   Call "coll_add";
   Handler "queue.Empty";
   Rd "expected";
   Rd "collection";
   TryE;
   Else;
   Break;
   IfE;
   IfE;
   Rel "collection";
   LoopE;
   Rd "collection"].

Definition sk_get_info : list ev :=
  [LoopB;
   Call "stop_requested";
   IfB;
   Break;
   Else;
   IfE;
   IfB;
   Acq "store";
   Rd "store_len";
   Rel "store";
   Acq "collection";
   Rd "collection";
   Rel "collection";
   Else;
   IfE;
   LoopE].

Definition sk_run_mp : list ev :=
  [TryB;
   Call "pool_enter";
   LoopB;
   Call "submit";
   Rd "total_jobs";
   Wr "total_jobs";
   LoopE;
   Call "info_start";
   Call "results_start";
   TryB;
   Call "as_completed";
   LoopB;
   Call "future_result";
   Call "stats_update";
   Rd "jobs_completed";
   Wr "jobs_completed";
   LoopE;
   Handler "concurrent.futures.process.BrokenProcessPool";
   RaiseE "FileSearchException";
   TryE;
   LoopB;
   IfB;
   Else;
   IfE;
   LoopE;
   Call "results_stop";
   Call "info_stop";
   Rd "stats_results";
   Rd "stats_results";
   Rd "stats_results";
   Call "purge";
   Call "kill_workers";
   Call "pool_exit";
   Handler "concurrent.futures.process.BrokenProcessPool";
   RaiseE "FileSearchException";
   FinallyB;
   Call "store_lock_try_acquire";
   IfB;
   Else;
   IfE;
   Call "store_lock_force_release";
   Call "results_stop";
   Call "info_stop";
   TryE].

Definition sk_run : list ev :=
  [Call "stats_reset";
   IfB;
   Ret;
   Else;
   IfE;
   IfB;
   Call "mgr_enter";
   Call "run_mp";
   Call "unproxy";
   Call "mgr_exit";
   Else;
   Call "run_single";
   IfE;
   Ret].

Definition sk_execute : list ev :=
  [Call "getsize";
   IfB;
   Ret;
   Else;
   IfE;
   TryB;
   Call "gzip_open";
   TryB;
   Call "gzip_probe";
   Handler "OSError";
   Call "plain_open";
   Call "run_search";
   Call "plain_close";
   TryElse;
   Call "run_search";
   FinallyB;
   Call "flush";
   TryE;
   Call "gzip_close";
   Call "sync";
   Handler "UnicodeDecodeError";
   RaiseE "reraise";
   Handler "EOFError";
   RaiseE "FileSearchException";
   Handler "Exception";
   RaiseE "FileSearchException";
   TryE;
   Ret].

Definition sk_put_result : list ev :=
  [Rd "stats_results";
   Wr "stats_results";
   IfB;
   Call "coll_add";
   Ret;
   Else;
   IfE;
   LoopB;
   TryB;
   IfB;
   Call "q_put";
   Else;
   Call "q_put_block";
   IfE;
   Break;
   Handler "queue.Full";
   IfB;
   Else;
   IfE;
   Call "sleep";
   IfB;
   Else;
   IfE;
   TryE;
   LoopE;
   IfB;
   Else;
   IfE].

Definition sk_apply_to_file : list ev :=
  [IfB;
   Ret;
   Else;
   IfE;
   Rd "offset_cache";
   IfB;
   Rd "offset_cache";
   IfB;
   Rd "offset_cache";
   Call "fd_seek";
   Else;
   IfE;
   Rd "offset_cache";
   Ret;
   Else;
   IfE;
   TryB;
   Call "fd_tell";
   Call "seeker_new";
   Call "seeker_run";
   IfB;
   Call "fd_seek";
   Else;
   Call "fd_seek";
   IfE;
   IfB;
   Wr "offset_cache";
   Else;
   Wr "offset_cache";
   IfE;
   Handler "NoTimestampsFoundInFile";
   Call "fd_seek";
   Handler "NoValidLinesFoundInFile";
   Call "fd_seek";
   Handler "TooManyLinesWithoutDate";
   Call "fd_seek";
   Handler "MaxSearchableLineLengthReached";
   Call "fd_seek";
   TryElse;
   Rd "offset_cache";
   Rd "offset_cache";
   TryE;
   Ret].

Definition sk_extracted_datetime : list ev :=
  [IfB;
   Call "decode_window";
   Else;
   IfE;
   Call "ts_match";
   IfB;
   TryB;
   Rd "strptime";
   Ret;
   Handler "ValueError";
   Ret;
   Handler "OverflowError";
   Ret;
   TryE;
   Else;
   IfE;
   Ret].

Definition sk_seeker_run : list ev :=
  [Call "tfld";
   Rd "line_date";
   IfB;
   RaiseE "NoValidLinesFoundInFile";
   Else;
   IfE;
   Rd "line_date";
   IfB;
   Rd "line_date";
   IfB;
   Ret;
   Else;
   IfE;
   Else;
   IfE;
   TryB;
   Call "bisect_left";
   Handler "TooManyLinesWithoutDate";
   IfB;
   RaiseE "NoTimestampsFoundInFile";
   Else;
   IfE;
   RaiseE "reraise";
   TryE;
   IfB;
   RaiseE "NoValidLinesFoundInFile";
   Else;
   IfE;
   Ret].

Definition sk_seeker_getitem : list ev :=
  [Call "tfld";
   Rd "line_date";
   IfB;
   Call "tfld";
   Else;
   IfE;
   Rd "line_date";
   IfB;
   RaiseE "TooManyLinesWithoutDate";
   Else;
   IfE;
   Rd "line_date";
   IfB;
   Else;
   IfE;
   Rd "line_date";
   Rd "line_date";
   Rd "line_date";
   Rd "line_date";
   Ret].

Definition sk_find_token : list ev :=
  [Call "seek";
   LoopB;
   Call "read";
   IfB;
   Ret;
   Else;
   IfE;
   IfB;
   Ret;
   Else;
   IfE;
   IfB;
   Ret;
   Else;
   IfE;
   LoopE;
   RaiseE "MaxSearchableLineLengthReached"].

Definition sk_find_token_reverse : list ev :=
  [LoopB;
   IfB;
   Else;
   IfE;
   Call "seek";
   Call "read";
   IfB;
   Ret;
   Else;
   IfE;
   IfB;
   Ret;
   Else;
   IfE;
   IfB;
   Ret;
   Else;
   IfE;
   IfB;
   Break;
   Else;
   IfE;
   IfB;
   Ret;
   Else;
   IfE;
   LoopE;
   RaiseE "MaxSearchableLineLengthReached"].

Definition sk_run_search : list ev :=
  [Call "stats_reset";
   LoopB;
   IfB;
   Call "seq_reset";
   Else;
   IfE;
   LoopE;
   Call "apply_global";
   Call "enumerate_lines";
   LoopB;
   IfB;
   Else;
   IfE;
   Rd "lines_searched";
   Wr "lines_searched";
   Call "decode_line";
   LoopB;
   IfB;
   Call "apply_single";
   IfB;
   Continue;
   Else;
   IfE;
   Else;
   IfE;
   IfB;
   Call "sequence_search";
   Else;
   Call "simple_search";
   IfE;
   LoopE;
   LoopE;
   Call "process_sequences";
   Rd "lines_searched";
   IfB;
   LoopB;
   IfB;
   LoopB;
   LoopE;
   Else;
   IfE;
   LoopE;
   Else;
   IfE;
   Ret].

Definition sk_run_single : list ev :=
  [LoopB;
   Call "task_execute";
   Call "stats_update";
   LoopE;
   Wr "jobs_completed";
   Wr "total_jobs"].

Definition sk_stats_update : list ev :=
  [IfB;
   Ret;
   Else;
   IfE;
   LoopB;
   Rd "stat_slot";
   Wr "stat_slot";
   LoopE].

Definition sk_apply_global : list ev :=
  [IfB;
   Ret;
   Else;
   IfE;
   IfB;
   Ret;
   Else;
   IfE;
   LoopB;
   Call "apply_to_file";
   IfB;
   Ret;
   Else;
   IfE;
   LoopE;
   Ret].

Definition sk_apply_single : list ev :=
  [IfB;
   Ret;
   Else;
   IfE;
   LoopB;
   TryB;
   Call "apply_to_line";
   IfB;
   Continue;
   Else;
   IfE;
   Handler "CouldNotApplyConstraint";
   Continue;
   TryE;
   Ret;
   LoopE;
   Ret].

Definition sk_apply_to_line : list ev :=
  [IfB;
   RaiseE "CouldNotApplyConstraint";
   Else;
   IfE;
   Call "extracted_datetime";
   IfB;
   RaiseE "CouldNotApplyConstraint";
   Else;
   IfE;
   IfB;
   Ret;
   Else;
   IfE;
   Ret].

Definition sk_try_find_line : list ev :=
  [IfB;
   Call "find_token";
   Else;
   IfE;
   IfB;
   Call "find_token_reverse";
   Else;
   IfE;
   Ret].

Definition sk_tfld : list ev :=
  [LoopB;
   Call "try_find_line";
   Rd "line_date";
   IfB;
   Ret;
   Else;
   IfE;
   IfB;
   Break;
   Else;
   IfE;
   LoopE;
   Ret].

Definition sk_logline_date : list ev :=
  [Call "read_line";
   Call "extracted_datetime";
   Ret].

Definition sk_sequence_search : list ev :=
  [Call "start_run";
   Wr "ret";
   Rd "s_end";
   Rd "started";
   IfB;
   Rd "ret";
   IfB;
   Rd "section_id";
   Call "results_remove";
   Call "def_reset";
   Else;
   Call "end_run";
   Wr "ret";
   IfE;
   Else;
   IfE;
   Rd "ret";
   IfB;
   Rd "started";
   IfB;
   Call "def_start";
   Rd "section_id";
   Else;
   Rd "s_end";
   Rd "section_id";
   Call "def_stop";
   Rd "s_end";
   IfB;
   Call "def_start";
   Rd "section_id";
   Else;
   IfE;
   IfE;
   Rd "ret";
   Call "results_add";
   Else;
   Rd "started";
   Rd "s_body";
   IfB;
   Rd "section_id";
   Call "body_run";
   Wr "ret";
   Rd "ret";
   IfB;
   Rd "ret";
   Rd "s_body";
   Call "results_add";
   Else;
   IfE;
   Else;
   IfE;
   IfE].

Definition sk_process_sequence_results : list ev :=
  [Wr "filter";
   LoopB;
   IfB;
   Continue;
   Else;
   IfE;
   Rd "started";
   IfB;
   Continue;
   Else;
   IfE;
   Rd "s_end";
   IfB;
   Continue;
   Else;
   IfE;
   Call "end_run_empty";
   Wr "ret";
   Rd "ret";
   IfB;
   Rd "section_id";
   Rd "ret";
   Rd "s_end";
   Call "results_add";
   Else;
   Rd "filter";
   IfB;
   Wr "filter";
   Else;
   IfE;
   Rd "filter";
   Rd "section_id";
   IfE;
   LoopE;
   IfB;
   Ret;
   Else;
   IfE;
   Rd "filter";
   LoopB;
   LoopB;
   Rd "filter";
   IfB;
   IfB;
   Continue;
   Else;
   IfE;
   Rd "filter";
   IfB;
   Rd "filter";
   IfB;
   Continue;
   Else;
   IfE;
   Else;
   IfE;
   Else;
   IfE;
   Call "buffer_append";
   IfB;
   Call "flush";
   Else;
   IfE;
   LoopE;
   LoopE].

Definition sk_searchdef_run : list ev :=
  [Rd "hint";
   IfB;
   Call "hint_search";
   IfB;
   Ret;
   Else;
   IfE;
   Else;
   IfE;
   Rd "patterns";
   LoopB;
   Call "pattern_match";
   IfB;
   Break;
   Else;
   IfE;
   LoopE;
   Ret].

Definition sk_simple_search : list ev :=
  [Call "def_run";
   IfB;
   Ret;
   Else;
   IfE;
   Call "new_result";
   Call "buffer_append";
   IfB;
   Call "flush";
   Else;
   IfE].

Definition sk_flush_results_buffer : list ev :=
  [LoopB;
   Rd "buffer";
   TryB;
   Rd "buffer";
   Call "slice_buffer";
   Call "put_result";
   LoopB;
   Call "buffer_pop";
   LoopE;
   Handler "IndexError";
   TryE;
   LoopE].

Definition sk_store_result : list ev :=
  [Call "groups";
   IfB;
   LoopB;
   Call "group";
   Call "save_part";
   LoopE;
   Else;
   Call "group";
   Call "save_part";
   IfE].

Definition sk_add_to_store : list ev :=
  [Rd "value";
   IfB;
   Ret;
   Else;
   IfE;
   Rd "value";
   Rd "reverse_map";
   IfB;
   Rd "value";
   Rd "reverse_map";
   Ret;
   Else;
   IfE;
   Rd "idx";
   IfB;
   Rd "value";
   Call "allocate_next";
   Wr "idx";
   Else;
   IfE;
   Rd "idx";
   Rd "value";
   Wr "reverse_map";
   Rd "idx";
   Ret].

Definition sk_allocate_next : list ev :=
  [Call "scan_data";
   LoopB;
   Rd "value";
   IfB;
   Ret;
   Else;
   IfE;
   LoopE;
   Rd "allocations";
   IfB;
   Rd "allocations";
   LoopB;
   Rd "data";
   IfB;
   Break;
   Else;
   IfE;
   LoopE;
   RaiseE "ResultStoreException";
   Else;
   Rd "data";
   IfE;
   Rd "value";
   Wr "data";
   Ret].

Definition sk_allocations : list ev :=
  [IfB;
   Ret;
   Else;
   IfE;
   Rd "current_block";
   IfB;
   Rd "bsize";
   Call "preallocator";
   Wr "current_block";
   Else;
   Rd "data";
   Rd "data";
   Rd "bsize";
   Rd "current_block";
   Rd "data";
   IfB;
   Rd "bsize";
   Call "preallocator";
   Wr "current_block";
   Else;
   IfE;
   IfE;
   Rd "current_block";
   Ret].

Definition sk_store_add : list ev :=
  [Rd "value_store";
   Call "add_to_store";
   Rd "tag_store";
   Call "add_to_store";
   Rd "sequence_id_store";
   Call "add_to_store";
   Ret].

Definition sk_save_part : list ev :=
  [Rd "value";
   IfB;
   Rd "field_info";
   IfB;
   Call "index_to_name";
   Rd "value";
   Call "ensure_type";
   Wr "value";
   Else;
   IfE;
   Else;
   IfE;
   Rd "value";
   Call "store_add";
   IfB;
   Else;
   IfE;
   Call "parts_append"].

Definition sk_get_store_id : list ev :=
  [Rd "parts";
   LoopB;
   IfB;
   IfB;
   Continue;
   Else;
   IfE;
   Else;
   IfB;
   Continue;
   Else;
   IfE;
   IfE;
   IfB;
   Ret;
   Else;
   IfE;
   LoopE;
   Ret].

Definition sk_result_get : list ev :=
  [Call "get_store_id";
   IfB;
   Rd "store";
   Ret;
   Else;
   IfE;
   Ret].

Definition sk_collection_add : list ev :=
  [LoopB;
   Call "register_store";
   Call "resolve_source";
   Rd "by_path";
   IfB;
   Wr "by_path";
   Else;
   Rd "by_path";
   IfE;
   LoopE].

Definition sk_filtered_dir : list ev :=
  [Wr "groups";
   LoopB;
   Call "isfile";
   IfB;
   Continue;
   Else;
   IfE;
   IfB;
   Call "keep";
   Continue;
   Else;
   IfE;
   Call "endswith_log";
   IfB;
   Call "keep";
   Else;
   Rd "groups";
   IfB;
   Wr "groups";
   Else;
   Rd "groups";
   IfE;
   IfE;
   LoopE;
   Wr "limit";
   Rd "groups";
   LoopB;
   Rd "groups";
   Call "sorted";
   Rd "limit";
   LoopE;
   Ret].

Definition sk_register : list ev :=
  [IfB;
   Rd "search_tags";
   IfB;
   Rd "search_tags";
   IfB;
   Rd "search_tags";
   Else;
   IfE;
   Else;
   Wr "search_tags";
   IfE;
   Else;
   IfE;
   IfB;
   Else;
   IfE;
   Call "expand_path";
   LoopB;
   Rd "entries";
   IfB;
   Rd "entries";
   Else;
   Call "get_source_id";
   Wr "entries";
   IfE;
   LoopE].

Definition sk_fs_add : list ev :=
  [IfB;
   Call "restrict";
   Else;
   IfE;
   Call "register"].

Definition sk_resolve_from_tag : list ev :=
  [Rd "search_tags";
   LoopB;
   Call "resolve_from_id";
   Call "append";
   LoopE;
   Ret].

Definition sk_resolve_from_id : list ev :=
  [Rd "simple";
   IfB;
   Rd "simple";
   Ret;
   Else;
   IfE;
   Rd "sequence";
   Ret].

Definition sk_source_id_to_path : list ev :=
  [TryB;
   Rd "source_ids";
   Ret;
   Handler "KeyError";
   Rd "source_ids";
   TryE;
   Ret].

Definition sk_collection_init : list ev :=
  [Call "reset"].

Definition sk_collection_reset : list ev :=
  [Wr "by_path"].

Definition sk_tm_init : list ev :=
  [Call "event_new";
   Call "event_clear";
   Call "thread_new";
   Wr "running"].

Definition sk_tm_start : list ev :=
  [Call "thread_start";
   Wr "running"].

Definition sk_tm_stop : list ev :=
  [Rd "running";
   IfB;
   Call "event_set";
   Call "thread_join";
   Wr "running";
   Else;
   IfE].

Definition sk_kill_workers : list ev :=
  [Call "active_children";
   LoopB;
   IfB;
   IfB;
   Call "remember_worker";
   Else;
   IfE;
   Else;
   IfE;
   LoopE;
   Call "getpid";
   Call "ps_children";
   LoopB;
   IfB;
   Call "getpid";
   Continue;
   Else;
   IfE;
   TryB;
   Call "kill";
   Handler "ProcessLookupError";
   TryE;
   LoopE].

Definition sk_cm_init : list ev :=
  [Wr "search_catalog";
   Wr "global_constraints";
   Wr "global_restrictions"].

Definition sk_fs_stats : list ev :=
  [Rd "stats";
   Ret].

Definition sk_rse_init : list ev :=
  [Wr "msg"].

Definition sk_fse_init : list ev :=
  [Wr "msg"].

Definition sk_searchdefbase_init : list ev :=
  [Rd "arg_constraints";
   Wr "constraints_attr";
   Rd "id"].

Definition sk_searchdefbase_constraints : list ev :=
  [Rd "constraint_id";
   Rd "constraints_attr";
   Ret].

Definition sk_searchdefbase_id : list ev :=
  [Call "uuid4";
   Ret].

Definition sk_searchdef_init : list ev :=
  [Rd "arg_pattern";
   Call "isinstance";
   IfB;
   Rd "arg_pattern";
   Call "re_compile";
   Wr "patterns";
   Else;
   Wr "patterns";
   Rd "arg_pattern";
   LoopB;
   Call "re_compile";
   Wr "patterns";
   LoopE;
   IfE;
   Rd "arg_store_result_contents";
   Wr "store_result_contents";
   Rd "arg_tag";
   Wr "tag";
   Rd "arg_field_info";
   Wr "field_info";
   Rd "arg_hint";
   Wr "hint";
   Rd "arg_hint";
   IfB;
   Rd "arg_hint";
   Call "re_compile";
   Wr "hint";
   Else;
   IfE;
   Wr "sequence_def";
   Call "super_init"].

Definition sk_searchdef_link_to_sequence : list ev :=
  [Rd "arg_sequence_def";
   Wr "sequence_def";
   Rd "arg_tag";
   Wr "tag"].

Definition sk_searchtask_init : list ev :=
  [Wr "proc";
   Rd "arg_info";
   Wr "info";
   Call "stats_new";
   Wr "stats";
   Rd "arg_constraints_manager";
   Wr "constraints_manager";
   Rd "arg_results_manager";
   Wr "results_manager";
   Wr "decode_kwargs";
   Rd "arg_decode_errors";
   IfB;
   Rd "arg_decode_errors";
   Wr "decode_kwargs";
   Else;
   IfE;
   Wr "results_buffer"].

Definition sk_resultsmanager_init : list ev :=
  [Rd "arg_results_queue";
   Rd "arg_results_collection";
   IfB;
   RaiseE "SearchTaskError";
   Else;
   IfE;
   Rd "arg_results_store";
   Wr "results_store";
   Rd "arg_results_queue";
   Wr "results_queue";
   Rd "arg_results_collection";
   Wr "results_collection"].

Definition sk_resultsmanager_results_store : list ev :=
  [Rd "results_store";
   Ret].

Definition sk_resultsmanager_results_queue : list ev :=
  [Rd "results_queue";
   Ret].

Definition sk_resultsmanager_results_collection : list ev :=
  [Rd "results_collection";
   Ret].

Definition sk_rsp_init : list ev :=
  [Call "base_init";
   Call "mgr_value";
   Wr "alloc_pointer";
   Call "mgr_dict";
   Wr "data";
   Call "mgr_dict";
   Wr "value_store";
   Call "mgr_dict";
   Wr "tag_store";
   Call "mgr_dict";
   Wr "sequence_id_store";
   Wr "local_store"].

Definition sk_rsp_allocate_next : list ev :=
  [Acq "store";
   Call "base_allocate_next";
   Ret;
   Rel "store"].

Definition sk_rsp_local : list ev :=
  [Call "getpid";
   Rd "local_store";
   IfB;
   Rd "preallocate_fn";
   Rd "bsize";
   Call "new_local_store";
   Wr "local_store";
   Else;
   Rd "local_store";
   IfB;
   RaiseE "ResultStoreException";
   Else;
   IfE;
   IfE;
   Rd "local_store";
   Ret].

Definition sk_rsp_add : list ev :=
  [Call "local_add";
   Ret].

Definition sk_base_sync : list ev :=
  [].

Definition sk_sync_local : list ev :=
  [Acq "store";
   Rd "local_data";
   LoopB;
   IfB;
   Else;
   IfE;
   LoopE;
   Rd "local_value_store";
   LoopB;
   LoopE;
   Rd "local_tag_store";
   LoopB;
   LoopE;
   Rd "local_sequence_id_store";
   LoopB;
   LoopE;
   Rel "store"].

Definition sk_result_base_init : list ev :=
  [Call "base_init";
   Wr "store";
   Wr "linenumber";
   Wr "section_id"].

Definition sk_result_iter : list ev :=
  [Rd "parts";
   LoopB;
   Call "store_get";
   LoopE].

Definition sk_minimal_init : list ev :=
  [Wr "parts";
   Wr "meta";
   Wr "linenumber";
   Wr "source_id";
   Wr "section_id";
   IfB;
   Wr "field_names";
   Else;
   Wr "field_names";
   IfE;
   Wr "store"].

Definition sk_minimal_getattr : list ev :=
  [IfB;
   Rd "field_names";
   Rd "field_names";
   IfB;
   Call "get";
   Ret;
   Else;
   IfE;
   Else;
   IfE;
   RaiseE "AttributeError"].

Definition sk_minimal_tag : list ev :=
  [Rd "meta";
   IfB;
   Ret;
   Else;
   IfE;
   Call "store_get";
   Ret].

Definition sk_minimal_sequence_id : list ev :=
  [Rd "meta";
   IfB;
   Ret;
   Else;
   IfE;
   Call "store_get";
   Ret].

Definition sk_register_results_store : list ev :=
  [Wr "store"].

Definition sk_result_init : list ev :=
  [Wr "store";
   Wr "parts";
   Wr "linenumber";
   Wr "source_id";
   Rd "def_tag";
   Wr "tag";
   Wr "section_id";
   Wr "sequence_id";
   Rd "def_sequence";
   IfB;
   IfB;
   RaiseE "FileSearchException";
   Else;
   IfE;
   Rd "def_sequence_id";
   Wr "sequence_id";
   Else;
   IfE;
   Rd "def_field_info";
   Wr "field_info";
   Rd "def_store_contents";
   IfB;
   Ret;
   Else;
   IfE;
   Call "store_result"].

Definition sk_result_metadata : list ev :=
  [Rd "tag";
   Rd "sequence_id";
   Call "store_add";
   Ret].

Definition sk_result_export : list ev :=
  [Rd "parts";
   Rd "metadata_property";
   Rd "linenumber";
   Rd "source_id";
   Rd "section_id";
   Rd "field_info";
   Call "new_minimal";
   Ret].
