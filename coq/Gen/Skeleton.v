(* GENERATED from the repository working tree by translator/skeleton.py - do not edit *)
From Coq Require Import String List.
From SK Require Import Model.Skel.
Import ListNotations.
Open Scope string_scope.

Definition sk_rs_locked : list ev :=
  [Ret].

Definition sk_preallocate : list ev :=
  [Acq "store";
   Rd "alloc_pointer";
   Rd "alloc_pointer";
   Wr "alloc_pointer";
   Rel "store";
   Ret].

Definition sk_sync : list ev :=
  [Acq "store";
   LoopB;
   IfB;
   Wr "data";
   Else;
   IfE;
   LoopE;
   LoopB;
   Rd "value_store";
   Call "add_to_store";
   LoopE;
   LoopB;
   Rd "tag_store";
   Call "add_to_store";
   LoopE;
   LoopB;
   Rd "sequence_id_store";
   Call "add_to_store";
   LoopE;
   Rel "store"].

Definition sk_unproxy_results : list ev :=
  [Acq "store";
   Rd "value_store";
   Rd "data";
   Rd "data";
   Wr "data";
   Rd "value_store";
   Wr "value_store";
   Rd "tag_store";
   Wr "tag_store";
   Rd "sequence_id_store";
   Wr "sequence_id_store";
   Rel "store"].

Definition sk_cache_get : list ev :=
  [Acq "cache";
   LoopB;
   TryB;
   Call "open";
   Rd "record";
   Ret;
   Call "close";
   Handler "dbm.gnu.error";
   IfB;
   RaiseE "reraise";
   Else;
   IfE;
   TryE;
   LoopE;
   Rel "cache"].

Definition sk_cache_set : list ev :=
  [Acq "cache";
   Call "open";
   Wr "record";
   Call "close";
   Rel "cache"].

Definition sk_cache_bulk_set : list ev :=
  [Acq "cache";
   LoopB;
   Call "open";
   Wr "record";
   Call "close";
   LoopE;
   Rel "cache"].

Definition sk_cache_unset : list ev :=
  [Acq "cache";
   Call "open";
   Wr "record";
   Call "close";
   Rel "cache"].

Definition sk_cache_base_path : list ev :=
  [Acq "global";
   Call "isdir";
   IfB;
   Call "makedirs";
   Else;
   IfE;
   Rel "global";
   Ret].

Definition sk_get_results : list ev :=
  [LoopB;
   Call "q_empty";
   IfB;
   Acq "collection";
   Call "q_get";
   Call "coll_add";
   Rel "collection";
   Else;
   Call "stop_requested";
   IfB;
   Break;
   Else;
   IfE;
   IfE;
   LoopE;
   Acq "collection";
   Rd "collection";
   Rel "collection"].

Definition sk_purge_results : list ev :=
  [Rd "expected";
   LoopB;
   Acq "collection";
   Call "q_empty";
   IfB;
   Call "q_get";
   Call "coll_add";
   Else;
   Rd "expected";
   Rd "collection";
   IfB;
   TryB;
   Call "q_get";
   Call "coll_add";
   Handler "queue.Empty";
   Rd "expected";
   Rd "collection";
   TryE;
   Else;
   Break;
   IfE;
   IfE;
   Rel "collection";
   LoopE;
   Rd "collection"].

Definition sk_get_info : list ev :=
  [LoopB;
   Call "stop_requested";
   IfB;
   Break;
   Else;
   IfE;
   IfB;
   Acq "store";
   Rd "store_len";
   Rel "store";
   Acq "collection";
   Rd "collection";
   Rel "collection";
   Else;
   IfE;
   LoopE].

Definition sk_run_mp : list ev :=
  [TryB;
   Call "pool_enter";
   LoopB;
   Call "submit";
   LoopE;
   Call "info_start";
   Call "results_start";
   TryB;
   Call "as_completed";
   LoopB;
   Call "future_result";
   LoopE;
   Handler "concurrent.futures.process.BrokenProcessPool";
   RaiseE "FileSearchException";
   TryE;
   LoopB;
   IfB;
   Else;
   IfE;
   LoopE;
   Call "results_stop";
   Call "info_stop";
   Call "purge";
   Call "kill_workers";
   Call "pool_exit";
   FinallyB;
   Call "results_stop";
   Call "info_stop";
   TryE].

Definition sk_run : list ev :=
  [Call "stats_reset";
   IfB;
   Ret;
   Else;
   IfE;
   IfB;
   Call "mgr_enter";
   Call "run_mp";
   Call "unproxy";
   Call "mgr_exit";
   Else;
   Call "run_single";
   IfE;
   Ret].

Definition sk_execute : list ev :=
  [Call "getsize";
   IfB;
   Ret;
   Else;
   IfE;
   TryB;
   Call "gzip_open";
   TryB;
   Call "gzip_probe";
   Handler "OSError";
   Call "plain_open";
   Call "run_search";
   Call "plain_close";
   TryElse;
   Call "run_search";
   FinallyB;
   Call "flush";
   TryE;
   Call "gzip_close";
   Handler "UnicodeDecodeError";
   RaiseE "reraise";
   Handler "EOFError";
   RaiseE "FileSearchException";
   Handler "Exception";
   RaiseE "FileSearchException";
   TryE;
   Call "sync";
   Ret].

Definition sk_put_result : list ev :=
  [Rd "stats_results";
   Wr "stats_results";
   IfB;
   Call "coll_add";
   Ret;
   Else;
   IfE;
   LoopB;
   TryB;
   IfB;
   Call "q_put";
   Else;
   Call "q_put_block";
   IfE;
   Break;
   Handler "queue.Full";
   IfB;
   Else;
   IfE;
   Call "sleep";
   IfB;
   Else;
   IfE;
   TryE;
   LoopE;
   IfB;
   Else;
   IfE].
