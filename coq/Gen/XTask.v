(* GENERATED from the repository working tree by translator/plugins/task.py - do not edit *)
From Coq Require Import ZArith Bool.
Open Scope Z_scope.

(* len(self.results_buffer) >= NUM_BUFFERED_RESULTS *)
Definition simple_flush_test (buffer_len num_buffered : Z) : bool :=
  (num_buffered <=? buffer_len).

(* limit = QueueTransitBuffer.MAX *)
Definition flush_limit_init (transit_max : Z) : Z := transit_max.
(* self.results_buffer[:limit] *)
Definition flush_slice_upper (limit : Z) : Z := limit.
(* for _ in range(limit) *)
Definition flush_pop_count (limit : Z) : Z := limit.
(* self.results_buffer.pop(0) *)
Definition flush_pop_index (limit : Z) : Z := 0.
(* except IndexError: limit -= 1 *)
Definition flush_on_index_error (limit : Z) : Z := (limit - 1).

(* enumerate(fd, start=1) *)
Definition enumerate_start : Z := 1.

(* for i in range(1, num_groups + 1) *)
Definition store_range_first (num_groups : Z) : Z := 1.
Definition store_range_stop (num_groups : Z) : Z := (num_groups + 1).
(* self._save_part(0, result.group(0)) *)
Definition store_whole_index (num_groups : Z) : Z := 0.

(* return Result(True, True) *)
Definition as_ret_empty : bool * bool := (true, true).
(* any_passed = False; all_passed = True *)
Definition as_init : bool * bool := (false, true).
(* if c.apply_to_line(line): any_passed = True; continue *)
Definition as_on_pass (v : bool * bool) : bool * bool :=
  let '(any_passed, all_passed) := v in (true, all_passed).
(* except CouldNotApplyConstraint: all_passed = False; continue *)
Definition as_on_undecided (v : bool * bool) : bool * bool :=
  let '(any_passed, all_passed) := v in (any_passed, false).
(* return Result(False, False) *)
Definition as_ret_fail (v : bool * bool) : bool * bool :=
  let '(any_passed, all_passed) := v in (false, false).
(* return Result(any_passed, all_passed) *)
Definition as_ret_end (v : bool * bool) : bool * bool :=
  let '(any_passed, all_passed) := v in (any_passed, all_passed).
