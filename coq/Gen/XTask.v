(* GENERATED from the repository working tree by translator/plugins/task.py - do not edit *)
From Coq Require Import ZArith Bool List.
Import ListNotations.
Open Scope Z_scope.

(* len(self.results_buffer) >= NUM_BUFFERED_RESULTS *)
Definition simple_flush_test (buffer_len num_buffered : Z) : bool :=
  (num_buffered <=? buffer_len).

(* limit = QueueTransitBuffer.MAX *)
Definition flush_limit_init (transit_max : Z) : Z := transit_max.
(* self.results_buffer[:limit] *)
Definition flush_slice_upper (limit : Z) : Z := limit.
(* for _ in range(limit) *)
Definition flush_pop_count (limit : Z) : Z := limit.
(* self.results_buffer.pop(0) *)
Definition flush_pop_index (limit : Z) : Z := 0.
(* except IndexError: limit -= 1 *)
Definition flush_on_index_error (limit : Z) : Z := (limit - 1).

(* enumerate(fd, start=1) *)
Definition enumerate_start : Z := 1.

(* for i in range(1, num_groups + 1) *)
Definition store_range_first (num_groups : Z) : Z := 1.
Definition store_range_stop (num_groups : Z) : Z := (num_groups + 1).
(* self._save_part(0, result.group(0)) *)
Definition store_whole_index (num_groups : Z) : Z := 0.
(* the loop branch is taken when (source test: num_groups) *)
Definition store_loop_when (num_groups : Z) : bool := (negb (num_groups =? 0)).

(* return Result(True, True) *)
Definition as_ret_empty : bool * bool := (true, true).
(* any_passed = False; all_passed = True *)
Definition as_init : bool * bool := (false, true).
(* if c.apply_to_line(line): any_passed = True; continue *)
Definition as_on_pass (v : bool * bool) : bool * bool :=
  let '(any_passed, all_passed) := v in (true, all_passed).
(* except CouldNotApplyConstraint: all_passed = False; continue *)
Definition as_on_undecided (v : bool * bool) : bool * bool :=
  let '(any_passed, all_passed) := v in (any_passed, false).
(* return Result(False, False) *)
Definition as_ret_fail (v : bool * bool) : bool * bool :=
  let '(any_passed, all_passed) := v in (false, false).
(* return Result(any_passed, all_passed) *)
Definition as_ret_end (v : bool * bool) : bool * bool :=
  let '(any_passed, all_passed) := v in (any_passed, all_passed).

(* if self.hint: <hint pre-check> *)
Definition searchdef_run_hint_gate (has_hint : bool) (npatterns : Z) : bool :=
  has_hint.
(* if ret: break *)
Definition searchdef_run_leaves_loop (matched : bool) : bool := matched.

(* not isinstance(pattern, list): ... *)
Definition searchdef_patterns {P C : Type} (compile : P -> C) (is_list : bool)
    (single : P) (many : list P) : list C :=
  if (negb is_list) then [compile single] else map compile many.
(* self.hint = hint; if hint: self.hint = re.compile(hint) *)
Definition searchdef_hint_compiled (hint_truthy : bool) : bool := hint_truthy.

(* return {c.id: c for c in self._constraints} - the items inserted, in order *)
Definition searchdef_constraints_items {C : Type} (cid : C -> Z) (given : list C)
    : list (Z * C) := map (fun c => (cid c, c)) given.
(* SearchDefBase.id is a cached_property: computed once per object *)
Definition searchdef_id_cached : bool := true.

(* self.results_buffer = [] *)
Definition task_initial_buffer_len : Z := 0.
(* if decode_errors: self.decode_kwargs['errors'] = decode_errors *)
Definition task_passes_decode_errors (decode_errors_truthy : bool) : bool := decode_errors_truthy.
(* if results_queue is not None and results_collection is not None: raise *)
Definition resultsmanager_rejects (queue_given collection_given : bool) : bool :=
  (queue_given && collection_given).
