(* GENERATED from the repository working tree by translator/plugins/catalog.py - do not edit *)
From Coq Require Import ZArith List Bool.
From SK Require Import Model.Collection Model.Catalog.
Import ListNotations.
Open Scope Z_scope.

Definition x_fd_cap {A} (key : A -> Z) (depth : Z) (l : list A) : list A :=
  py_take (depth) (sort_by key l).

Definition x_fd_skips (isfile : bool) : bool := (negb isfile).
Definition x_fd_live_suffix : list Z := [46; 108; 111; 103].
Definition x_fd_live_appended (pfx : list Z) : list Z := pfx ++ [46; 108; 111; 103].
Definition x_fd_groups_by_prefix : bool := true.

Definition x_first_source_id : Z := 0.
Definition x_next_source_id (m : Z) : Z := (m + 1).

Definition x_sort_live_key : Z := 0.
Definition x_sort_group_index : Z := 1.
Definition x_sort_first_match_wins : bool := true.

Definition x_expand_file_is_itself : bool := true.
Definition x_expand_dir_joins : bool := true.
Definition x_expand_glob_filtered : bool := true.

Definition x_fbt_restrict (p : Z) : bool := truthy p.
Definition x_fbt_keeps (rt t : option Z) : bool := oz_eqb rt t.

Definition x_seq_restrict (p : Z) : bool := truthy p.
Definition x_seq_keeps (s : option Z) : bool := match s with Some _ => true | None => false end.

Definition x_fss_keeps (s : option Z) (d : Z) : bool := oz_eqb s (Some d).
Definition x_fss_groups_by_section_id : bool := true.

Definition x_fsbt_updates_per_definition : bool := true.

Definition x_len_init : Z := 0.
Definition x_len_step (count n : Z) : Z := count + n.

Definition x_add_appends_by_resolved_path : bool := true.
Definition x_find_by_path_default_empty : bool := true.
Definition x_all_yields_every_value : bool := true.

Definition x_result_meta_none_iff_slot_none : bool := true.
Definition x_result_sequence_id_before_early_return : bool := true.

Definition x_task_defs_dict_keyed_by_definition : bool := true.
Definition x_task_line_loop_over_search_defs : bool := true.

Definition x_fs_add_restricts (allow : bool) : bool := (negb allow).
Definition x_fs_files_are_entry_paths : bool := true.
Definition x_fs_resolve_source_delegates : bool := true.

Definition x_resolve_from_id_simple_then_sequence : bool := true.
Definition x_resolve_from_tag_maps_tag_table : bool := true.
Definition x_source_id_unknown_is_none : bool := true.
Definition x_catalog_iterates_entries : bool := true.

Definition x_collection_init_resets : bool := true.
Definition x_reset_reinitialises_all_state : bool := true.
Definition x_files_are_keys : bool := true.
Definition x_data_is_copy_of_by_path : bool := true.

Definition x_searcher_base_is_abstract : bool := true.

Definition x_field_info_list_untyped : bool := true.
Definition x_ensure_type_casts_iff_typed : bool := true.
Definition x_index_to_name_is_nth : bool := true.
