(* GENERATED from the repository working tree by translator/skeleton.py - do not edit *)
From Coq Require Import String List.
From SK Require Import Model.Skel Model.Stm.
Import ListNotations.
Open Scope string_scope.

Definition tk_rs_locked : list stm :=
  [SExit].

Definition tk_preallocate : list stm :=
  [SEv (Acq "store"); SEv (Rd "alloc_pointer"); SEv (Rd "alloc_pointer"); SEv (Wr "alloc_pointer"); SEv (Rel "store"); SExit].

Definition tk_sync : list stm :=
  [SEv (Acq "store"); SLoop [SIf [SEv (Wr "data")] []]; SLoop [SEv (Rd "value_store"); SEv (Call "add_to_store")]; SLoop [SEv (Rd "tag_store"); SEv (Call "add_to_store")]; SLoop [SEv (Rd "sequence_id_store"); SEv (Call "add_to_store")]; SEv (Rel "store")].

Definition tk_unproxy_results : list stm :=
  [SEv (Acq "store"); SEv (Rd "value_store"); SEv (Rd "data"); SEv (Rd "data"); SEv (Wr "data"); SEv (Rd "value_store"); SEv (Wr "value_store"); SEv (Rd "tag_store"); SEv (Wr "tag_store"); SEv (Rd "sequence_id_store"); SEv (Wr "sequence_id_store"); SEv (Rel "store")].

Definition tk_cache_get : list stm :=
  [SEv (Acq "cache"); SLoop [STry [SEv (Call "open"); SEv (Rd "record"); SExit; SEv (Call "close")] [("dbm.gnu.error", [SIf [SRaise "reraise"] []])] [] []]; SEv (Rel "cache")].

Definition tk_cache_set : list stm :=
  [SEv (Acq "cache"); SEv (Call "open"); SEv (Wr "record"); SEv (Call "close"); SEv (Rel "cache")].

Definition tk_cache_bulk_set : list stm :=
  [SEv (Acq "cache"); SLoop [SEv (Call "open"); SEv (Wr "record"); SEv (Call "close")]; SEv (Rel "cache")].

Definition tk_cache_unset : list stm :=
  [SEv (Acq "cache"); SEv (Call "open"); SEv (Wr "record"); SEv (Call "close"); SEv (Rel "cache")].

Definition tk_cache_base_path : list stm :=
  [SEv (Acq "global"); SEv (Call "isdir"); SIf [SEv (Call "makedirs")] []; SEv (Rel "global"); SExit].

Definition tk_get_results : list stm :=
  [SLoop [SEv (Call "q_empty"); SIf [SEv (Acq "collection"); SEv (Call "q_get"); SEv (Call "coll_add"); SEv (Rel "collection")] [SEv (Call "stop_requested"); SIf [SExit] []]]; SEv (Acq "collection"); SEv (Rd "collection"); SEv (Rel "collection")].

Definition tk_purge_results : list stm :=
  [SEv (Rd "expected"); SLoop [SEv (Acq "collection"); SEv (Call "q_empty"); SIf [SEv (Call "q_get"); SEv (Call "coll_add")] [SEv (Rd "expected"); SEv (Rd "collection"); SIf [STry [SEv (Call "q_get"); SEv (Call "coll_add")] [("queue.Empty", [SEv (Rd "expected"); SEv (Rd "collection")])] [] []] [SExit]]; SEv (Rel "collection")]; SEv (Rd "collection")].

Definition tk_get_info : list stm :=
  [SLoop [SEv (Call "stop_requested"); SIf [SExit] []; SIf [SEv (Acq "store"); SEv (Rd "store_len"); SEv (Rel "store"); SEv (Acq "collection"); SEv (Rd "collection"); SEv (Rel "collection")] []]].

Definition tk_run_mp : list stm :=
  [STry [SEv (Call "pool_enter"); SLoop [SEv (Call "submit"); SEv (Rd "total_jobs"); SEv (Wr "total_jobs")]; SEv (Call "info_start"); SEv (Call "results_start"); STry [SEv (Call "as_completed"); SLoop [SEv (Call "future_result"); SEv (Call "stats_update"); SEv (Rd "jobs_completed"); SEv (Wr "jobs_completed")]] [("concurrent.futures.process.BrokenProcessPool", [SRaise "FileSearchException"])] [] []; SLoop [SIf [] []]; SEv (Call "results_stop"); SEv (Call "info_stop"); SEv (Rd "stats_results"); SEv (Rd "stats_results"); SEv (Rd "stats_results"); SEv (Call "purge"); SEv (Call "kill_workers"); SEv (Call "pool_exit")] [("concurrent.futures.process.BrokenProcessPool", [SRaise "FileSearchException"])] [] [SEv (Call "store_lock_try_acquire"); SIf [] []; SEv (Call "store_lock_force_release"); SEv (Call "results_stop"); SEv (Call "info_stop")]].

Definition tk_run : list stm :=
  [SEv (Call "stats_reset"); SIf [SExit] []; SIf [SEv (Call "mgr_enter"); SEv (Call "run_mp"); SEv (Call "unproxy"); SEv (Call "mgr_exit")] [SEv (Call "run_single")]; SExit].

Definition tk_execute : list stm :=
  [SEv (Call "getsize"); SIf [SExit] []; STry [SEv (Call "gzip_open"); STry [SEv (Call "gzip_probe")] [("OSError", [SEv (Call "plain_open"); SEv (Call "run_search"); SEv (Call "plain_close")])] [SEv (Call "run_search")] [SEv (Call "flush")]; SEv (Call "gzip_close"); SEv (Call "sync")] [("UnicodeDecodeError", [SRaise "reraise"]); ("EOFError", [SRaise "FileSearchException"]); ("Exception", [SRaise "FileSearchException"])] [] []; SExit].

Definition tk_put_result : list stm :=
  [SEv (Rd "stats_results"); SEv (Wr "stats_results"); SIf [SEv (Call "coll_add"); SExit] []; SLoop [STry [SIf [SEv (Call "q_put")] [SEv (Call "q_put_block")]; SExit] [("queue.Full", [SIf [] []; SEv (Call "sleep"); SIf [] []])] [] []]; SIf [] []].

Definition tk_apply_to_file : list stm :=
  [SIf [SExit] []; SEv (Rd "offset_cache"); SIf [SEv (Rd "offset_cache"); SIf [SEv (Rd "offset_cache"); SEv (Call "fd_seek")] []; SEv (Rd "offset_cache"); SExit] []; STry [SEv (Call "fd_tell"); SEv (Call "seeker_new"); SEv (Call "seeker_run"); SIf [SEv (Call "fd_seek")] [SEv (Call "fd_seek")]; SIf [SEv (Wr "offset_cache")] [SEv (Wr "offset_cache")]] [("NoTimestampsFoundInFile", [SEv (Call "fd_seek")]); ("NoValidLinesFoundInFile", [SEv (Call "fd_seek")]); ("TooManyLinesWithoutDate", [SEv (Call "fd_seek")]); ("MaxSearchableLineLengthReached", [SEv (Call "fd_seek")])] [SEv (Rd "offset_cache"); SEv (Rd "offset_cache")] []; SExit].

Definition tk_extracted_datetime : list stm :=
  [SIf [SEv (Call "decode_window")] []; SEv (Call "ts_match"); SIf [STry [SEv (Rd "strptime"); SExit] [("ValueError", [SExit]); ("OverflowError", [SExit])] [] []] []; SExit].

Definition tk_seeker_run : list stm :=
  [SEv (Call "tfld"); SEv (Rd "line_date"); SIf [SRaise "NoValidLinesFoundInFile"] []; SEv (Rd "line_date"); SIf [SEv (Rd "line_date"); SIf [SExit] []] []; STry [SEv (Call "bisect_left")] [("TooManyLinesWithoutDate", [SIf [SRaise "NoTimestampsFoundInFile"] []; SRaise "reraise"])] [] []; SIf [SRaise "NoValidLinesFoundInFile"] []; SExit].

Definition tk_seeker_getitem : list stm :=
  [SEv (Call "tfld"); SEv (Rd "line_date"); SIf [SEv (Call "tfld")] []; SEv (Rd "line_date"); SIf [SRaise "TooManyLinesWithoutDate"] []; SEv (Rd "line_date"); SIf [] []; SEv (Rd "line_date"); SEv (Rd "line_date"); SEv (Rd "line_date"); SEv (Rd "line_date"); SExit].

Definition tk_find_token : list stm :=
  [SEv (Call "seek"); SLoop [SEv (Call "read"); SIf [SExit] []; SIf [SExit] []; SIf [SExit] []]; SRaise "MaxSearchableLineLengthReached"].

Definition tk_find_token_reverse : list stm :=
  [SLoop [SIf [] []; SEv (Call "seek"); SEv (Call "read"); SIf [SExit] []; SIf [SExit] []; SIf [SExit] []; SIf [SExit] []; SIf [SExit] []]; SRaise "MaxSearchableLineLengthReached"].

Definition tk_run_search : list stm :=
  [SEv (Call "stats_reset"); SLoop [SIf [SEv (Call "seq_reset")] []]; SEv (Call "apply_global"); SEv (Call "enumerate_lines"); SLoop [SIf [] []; SEv (Rd "lines_searched"); SEv (Wr "lines_searched"); SEv (Call "decode_line"); SLoop [SIf [SEv (Call "apply_single"); SIf [SExit] []] []; SIf [SEv (Call "sequence_search")] [SEv (Call "simple_search")]]]; SEv (Call "process_sequences"); SEv (Rd "lines_searched"); SIf [SLoop [SIf [SLoop []] []]] []; SExit].

Definition tk_run_single : list stm :=
  [SLoop [SEv (Call "task_execute"); SEv (Call "stats_update")]; SEv (Wr "jobs_completed"); SEv (Wr "total_jobs")].

Definition tk_stats_update : list stm :=
  [SIf [SExit] []; SLoop [SEv (Rd "stat_slot"); SEv (Wr "stat_slot")]].

Definition tk_apply_global : list stm :=
  [SIf [SExit] []; SIf [SExit] []; SLoop [SEv (Call "apply_to_file"); SIf [SExit] []]; SExit].

Definition tk_apply_single : list stm :=
  [SIf [SExit] []; SLoop [STry [SEv (Call "apply_to_line"); SIf [SExit] []] [("CouldNotApplyConstraint", [SExit])] [] []; SExit]; SExit].

Definition tk_apply_to_line : list stm :=
  [SIf [SRaise "CouldNotApplyConstraint"] []; SEv (Call "extracted_datetime"); SIf [SRaise "CouldNotApplyConstraint"] []; SIf [SExit] []; SExit].

Definition tk_try_find_line : list stm :=
  [SIf [SEv (Call "find_token")] []; SIf [SEv (Call "find_token_reverse")] []; SExit].

Definition tk_tfld : list stm :=
  [SLoop [SEv (Call "try_find_line"); SEv (Rd "line_date"); SIf [SExit] []; SIf [SExit] []]; SExit].

Definition tk_logline_date : list stm :=
  [SEv (Call "read_line"); SEv (Call "extracted_datetime"); SExit].

Definition tk_sequence_search : list stm :=
  [SEv (Call "start_run"); SEv (Wr "ret"); SEv (Rd "s_end"); SEv (Rd "started"); SIf [SEv (Rd "ret"); SIf [SEv (Rd "section_id"); SEv (Call "results_remove"); SEv (Call "def_reset")] [SEv (Call "end_run"); SEv (Wr "ret")]] []; SEv (Rd "ret"); SIf [SEv (Rd "started"); SIf [SEv (Call "def_start"); SEv (Rd "section_id")] [SEv (Rd "s_end"); SEv (Rd "section_id"); SEv (Call "def_stop"); SEv (Rd "s_end"); SIf [SEv (Call "def_start"); SEv (Rd "section_id")] []]; SEv (Rd "ret"); SEv (Call "results_add")] [SEv (Rd "started"); SEv (Rd "s_body"); SIf [SEv (Rd "section_id"); SEv (Call "body_run"); SEv (Wr "ret"); SEv (Rd "ret"); SIf [SEv (Rd "ret"); SEv (Rd "s_body"); SEv (Call "results_add")] []] []]].

Definition tk_process_sequence_results : list stm :=
  [SEv (Wr "filter"); SLoop [SIf [SExit] []; SEv (Rd "started"); SIf [SExit] []; SEv (Rd "s_end"); SIf [SExit] []; SEv (Call "end_run_empty"); SEv (Wr "ret"); SEv (Rd "ret"); SIf [SEv (Rd "section_id"); SEv (Rd "ret"); SEv (Rd "s_end"); SEv (Call "results_add")] [SEv (Rd "filter"); SIf [SEv (Wr "filter")] []; SEv (Rd "filter"); SEv (Rd "section_id")]]; SIf [SExit] []; SEv (Rd "filter"); SLoop [SLoop [SEv (Rd "filter"); SIf [SIf [SExit] []; SEv (Rd "filter"); SIf [SEv (Rd "filter"); SIf [SExit] []] []] []; SEv (Call "buffer_append"); SIf [SEv (Call "flush")] []]]].

Definition tk_searchdef_run : list stm :=
  [SEv (Rd "hint"); SIf [SEv (Call "hint_search"); SIf [SExit] []] []; SEv (Rd "patterns"); SLoop [SEv (Call "pattern_match"); SIf [SExit] []]; SExit].

Definition tk_simple_search : list stm :=
  [SEv (Call "def_run"); SIf [SExit] []; SEv (Call "new_result"); SEv (Call "buffer_append"); SIf [SEv (Call "flush")] []].

Definition tk_flush_results_buffer : list stm :=
  [SLoop [SEv (Rd "buffer"); STry [SEv (Rd "buffer"); SEv (Call "slice_buffer"); SEv (Call "put_result"); SLoop [SEv (Call "buffer_pop")]] [("IndexError", [])] [] []]].

Definition tk_store_result : list stm :=
  [SEv (Call "groups"); SIf [SLoop [SEv (Call "group"); SEv (Call "save_part")]] [SEv (Call "group"); SEv (Call "save_part")]].

Definition tk_add_to_store : list stm :=
  [SEv (Rd "value"); SIf [SExit] []; SEv (Rd "value"); SEv (Rd "reverse_map"); SIf [SEv (Rd "value"); SEv (Rd "reverse_map"); SExit] []; SEv (Rd "idx"); SIf [SEv (Rd "value"); SEv (Call "allocate_next"); SEv (Wr "idx")] []; SEv (Rd "idx"); SEv (Rd "value"); SEv (Wr "reverse_map"); SEv (Rd "idx"); SExit].

Definition tk_allocate_next : list stm :=
  [SEv (Call "scan_data"); SLoop [SEv (Rd "value"); SIf [SExit] []]; SEv (Rd "allocations"); SIf [SEv (Rd "allocations"); SLoop [SEv (Rd "data"); SIf [SExit] []]; SRaise "ResultStoreException"] [SEv (Rd "data")]; SEv (Rd "value"); SEv (Wr "data"); SExit].

Definition tk_allocations : list stm :=
  [SIf [SExit] []; SEv (Rd "current_block"); SIf [SEv (Rd "bsize"); SEv (Call "preallocator"); SEv (Wr "current_block")] [SEv (Rd "data"); SEv (Rd "data"); SEv (Rd "bsize"); SEv (Rd "current_block"); SEv (Rd "data"); SIf [SEv (Rd "bsize"); SEv (Call "preallocator"); SEv (Wr "current_block")] []]; SEv (Rd "current_block"); SExit].

Definition tk_store_add : list stm :=
  [SEv (Rd "value_store"); SEv (Call "add_to_store"); SEv (Rd "tag_store"); SEv (Call "add_to_store"); SEv (Rd "sequence_id_store"); SEv (Call "add_to_store"); SExit].

Definition tk_save_part : list stm :=
  [SEv (Rd "value"); SIf [SEv (Rd "field_info"); SIf [SEv (Call "index_to_name"); SEv (Rd "value"); SEv (Call "ensure_type"); SEv (Wr "value")] []] []; SEv (Rd "value"); SEv (Call "store_add"); SIf [] []; SEv (Call "parts_append")].

Definition tk_get_store_id : list stm :=
  [SEv (Rd "parts"); SLoop [SIf [SIf [SExit] []] [SIf [SExit] []]; SIf [SExit] []]; SExit].

Definition tk_result_get : list stm :=
  [SEv (Call "get_store_id"); SIf [SEv (Rd "store"); SExit] []; SExit].

Definition tk_collection_add : list stm :=
  [SLoop [SEv (Call "register_store"); SEv (Call "resolve_source"); SEv (Rd "by_path"); SIf [SEv (Wr "by_path")] [SEv (Rd "by_path")]]].

Definition tk_filtered_dir : list stm :=
  [SEv (Wr "groups"); SLoop [SEv (Call "isfile"); SIf [SExit] []; SIf [SEv (Call "keep"); SExit] []; SEv (Call "endswith_log"); SIf [SEv (Call "keep")] [SEv (Rd "groups"); SIf [SEv (Wr "groups")] [SEv (Rd "groups")]]]; SEv (Wr "limit"); SEv (Rd "groups"); SLoop [SEv (Rd "groups"); SEv (Call "sorted"); SEv (Rd "limit")]; SExit].

Definition tk_register : list stm :=
  [SIf [SEv (Rd "search_tags"); SIf [SEv (Rd "search_tags"); SIf [SEv (Rd "search_tags")] []] [SEv (Wr "search_tags")]] []; SIf [] []; SEv (Call "expand_path"); SLoop [SEv (Rd "entries"); SIf [SEv (Rd "entries")] [SEv (Call "get_source_id"); SEv (Wr "entries")]]].

Definition tk_fs_add : list stm :=
  [SIf [SEv (Call "restrict")] []; SEv (Call "register")].

Definition tk_resolve_from_tag : list stm :=
  [SEv (Rd "search_tags"); SLoop [SEv (Call "resolve_from_id"); SEv (Call "append")]; SExit].

Definition tk_resolve_from_id : list stm :=
  [SEv (Rd "simple"); SIf [SEv (Rd "simple"); SExit] []; SEv (Rd "sequence"); SExit].

Definition tk_source_id_to_path : list stm :=
  [STry [SEv (Rd "source_ids"); SExit] [("KeyError", [SEv (Rd "source_ids")])] [] []; SExit].

Definition tk_collection_init : list stm :=
  [SEv (Call "reset")].

Definition tk_collection_reset : list stm :=
  [SEv (Wr "by_path")].

Definition tk_tm_init : list stm :=
  [SEv (Call "event_new"); SEv (Call "event_clear"); SEv (Call "thread_new"); SEv (Wr "running")].

Definition tk_tm_start : list stm :=
  [SEv (Call "thread_start"); SEv (Wr "running")].

Definition tk_tm_stop : list stm :=
  [SEv (Rd "running"); SIf [SEv (Call "event_set"); SEv (Call "thread_join"); SEv (Wr "running")] []].

Definition tk_kill_workers : list stm :=
  [SEv (Call "active_children"); SLoop [SIf [SIf [SEv (Call "remember_worker")] []] []]; SEv (Call "getpid"); SEv (Call "ps_children"); SLoop [SIf [SEv (Call "getpid"); SExit] []; STry [SEv (Call "kill")] [("ProcessLookupError", [])] [] []]].

Definition tk_cm_init : list stm :=
  [SEv (Wr "search_catalog"); SEv (Wr "global_constraints"); SEv (Wr "global_restrictions")].

Definition tk_fs_stats : list stm :=
  [SEv (Rd "stats"); SExit].

Definition tk_rse_init : list stm :=
  [SEv (Wr "msg")].

Definition tk_fse_init : list stm :=
  [SEv (Wr "msg")].

Definition tk_searchdefbase_init : list stm :=
  [SEv (Rd "arg_constraints"); SEv (Wr "constraints_attr"); SEv (Rd "id")].

Definition tk_searchdefbase_constraints : list stm :=
  [SEv (Rd "constraint_id"); SEv (Rd "constraints_attr"); SExit].

Definition tk_searchdefbase_id : list stm :=
  [SEv (Call "uuid4"); SExit].

Definition tk_searchdef_init : list stm :=
  [SEv (Rd "arg_pattern"); SEv (Call "isinstance"); SIf [SEv (Rd "arg_pattern"); SEv (Call "re_compile"); SEv (Wr "patterns")] [SEv (Wr "patterns"); SEv (Rd "arg_pattern"); SLoop [SEv (Call "re_compile"); SEv (Wr "patterns")]]; SEv (Rd "arg_store_result_contents"); SEv (Wr "store_result_contents"); SEv (Rd "arg_tag"); SEv (Wr "tag"); SEv (Rd "arg_field_info"); SEv (Wr "field_info"); SEv (Rd "arg_hint"); SEv (Wr "hint"); SEv (Rd "arg_hint"); SIf [SEv (Rd "arg_hint"); SEv (Call "re_compile"); SEv (Wr "hint")] []; SEv (Wr "sequence_def"); SEv (Call "super_init")].

Definition tk_searchdef_link_to_sequence : list stm :=
  [SEv (Rd "arg_sequence_def"); SEv (Wr "sequence_def"); SEv (Rd "arg_tag"); SEv (Wr "tag")].

Definition tk_searchtask_init : list stm :=
  [SEv (Wr "proc"); SEv (Rd "arg_info"); SEv (Wr "info"); SEv (Call "stats_new"); SEv (Wr "stats"); SEv (Rd "arg_constraints_manager"); SEv (Wr "constraints_manager"); SEv (Rd "arg_results_manager"); SEv (Wr "results_manager"); SEv (Wr "decode_kwargs"); SEv (Rd "arg_decode_errors"); SIf [SEv (Rd "arg_decode_errors"); SEv (Wr "decode_kwargs")] []; SEv (Wr "results_buffer")].

Definition tk_resultsmanager_init : list stm :=
  [SEv (Rd "arg_results_queue"); SEv (Rd "arg_results_collection"); SIf [SRaise "SearchTaskError"] []; SEv (Rd "arg_results_store"); SEv (Wr "results_store"); SEv (Rd "arg_results_queue"); SEv (Wr "results_queue"); SEv (Rd "arg_results_collection"); SEv (Wr "results_collection")].

Definition tk_resultsmanager_results_store : list stm :=
  [SEv (Rd "results_store"); SExit].

Definition tk_resultsmanager_results_queue : list stm :=
  [SEv (Rd "results_queue"); SExit].

Definition tk_resultsmanager_results_collection : list stm :=
  [SEv (Rd "results_collection"); SExit].

Definition tk_rsp_init : list stm :=
  [SEv (Call "base_init"); SEv (Call "mgr_value"); SEv (Wr "alloc_pointer"); SEv (Call "mgr_dict"); SEv (Wr "data"); SEv (Call "mgr_dict"); SEv (Wr "value_store"); SEv (Call "mgr_dict"); SEv (Wr "tag_store"); SEv (Call "mgr_dict"); SEv (Wr "sequence_id_store"); SEv (Wr "local_store")].

Definition tk_rsp_allocate_next : list stm :=
  [SEv (Acq "store"); SEv (Call "base_allocate_next"); SExit; SEv (Rel "store")].

Definition tk_rsp_local : list stm :=
  [SEv (Call "getpid"); SEv (Rd "local_store"); SIf [SEv (Rd "preallocate_fn"); SEv (Rd "bsize"); SEv (Call "new_local_store"); SEv (Wr "local_store")] [SEv (Rd "local_store"); SIf [SRaise "ResultStoreException"] []]; SEv (Rd "local_store"); SExit].

Definition tk_rsp_add : list stm :=
  [SEv (Call "local_add"); SExit].

Definition tk_base_sync : list stm :=
  [].

Definition tk_sync_local : list stm :=
  [SEv (Acq "store"); SEv (Rd "local_data"); SLoop [SIf [] []]; SEv (Rd "local_value_store"); SLoop []; SEv (Rd "local_tag_store"); SLoop []; SEv (Rd "local_sequence_id_store"); SLoop []; SEv (Rel "store")].

Definition tk_result_base_init : list stm :=
  [SEv (Call "base_init"); SEv (Wr "store"); SEv (Wr "linenumber"); SEv (Wr "section_id")].

Definition tk_result_iter : list stm :=
  [SEv (Rd "parts"); SLoop [SEv (Call "store_get")]].

Definition tk_minimal_init : list stm :=
  [SEv (Wr "parts"); SEv (Wr "meta"); SEv (Wr "linenumber"); SEv (Wr "source_id"); SEv (Wr "section_id"); SIf [SEv (Wr "field_names")] [SEv (Wr "field_names")]; SEv (Wr "store")].

Definition tk_minimal_getattr : list stm :=
  [SIf [SEv (Rd "field_names"); SEv (Rd "field_names"); SIf [SEv (Call "get"); SExit] []] []; SRaise "AttributeError"].

Definition tk_minimal_tag : list stm :=
  [SEv (Rd "meta"); SIf [SExit] []; SEv (Call "store_get"); SExit].

Definition tk_minimal_sequence_id : list stm :=
  [SEv (Rd "meta"); SIf [SExit] []; SEv (Call "store_get"); SExit].

Definition tk_register_results_store : list stm :=
  [SEv (Wr "store")].

Definition tk_result_init : list stm :=
  [SEv (Wr "store"); SEv (Wr "parts"); SEv (Wr "linenumber"); SEv (Wr "source_id"); SEv (Rd "def_tag"); SEv (Wr "tag"); SEv (Wr "section_id"); SEv (Wr "sequence_id"); SEv (Rd "def_sequence"); SIf [SIf [SRaise "FileSearchException"] []; SEv (Rd "def_sequence_id"); SEv (Wr "sequence_id")] []; SEv (Rd "def_field_info"); SEv (Wr "field_info"); SEv (Rd "def_store_contents"); SIf [SExit] []; SEv (Call "store_result")].

Definition tk_result_metadata : list stm :=
  [SEv (Rd "tag"); SEv (Rd "sequence_id"); SEv (Call "store_add"); SExit].

Definition tk_result_export : list stm :=
  [SEv (Rd "parts"); SEv (Rd "metadata_property"); SEv (Rd "linenumber"); SEv (Rd "source_id"); SEv (Rd "section_id"); SEv (Rd "field_info"); SEv (Call "new_minimal"); SExit].
