(* GENERATED from the repository working tree by translator/plugins/seek.py - do not edit *)
From Coq Require Import String ZArith List Bool.
Import ListNotations.
Open Scope Z_scope.

Definition apply_seek_sites : list (Z -> Z -> Z -> Z -> Z) :=
  [fun cached orig newoff len => orig; fun cached orig newoff len => newoff; fun cached orig newoff len => 0; fun cached orig newoff len => (len + 0); fun cached orig newoff len => 0; fun cached orig newoff len => (len + 0)].
Definition apply_body_test (newoff_is_none destructive : bool) : bool :=
  (newoff_is_none || (negb destructive)).

Definition getitem_tfld_args : list (Z -> Z * option Z * bool) :=
  [fun offset => (offset, None, false); fun offset => ((offset + 1), None, true)].
Definition getitem_line_info_cmp (d since : Z) : bool :=
  (d >=? since).

Definition run_tfld_args (len : Z) : Z * option Z * bool :=
  let offset := 0 in (len, None, false).
Definition run_shortcut_slf : Z := (-1).
Definition run_shortcut_cmp (d since : Z) : bool :=
  (d >=? since).
Definition run_bisect_fn : string := "bisect_left".
Definition run_returns_line_info_start : bool := true.

Definition logline_init_fields : list (string * string) :=
  [("_file", "file"); ("_constraint", "constraint"); ("_line_start_lf", "line_start_lf"); ("_line_end_lf", "line_end_lf")]%string.
Definition logline_start_lf_attr : string := "_line_start_lf"%string.
Definition logline_end_lf_attr : string := "_line_end_lf"%string.
Definition logline_len (end_offset start_offset : Z) : Z :=
  ((end_offset - start_offset) + 1).
Definition read_line_window (start_offset max_len : Z) : Z * Z :=
  (start_offset, max_len).
Definition logline_date_read_len (W end_offset start_offset : Z) : Z :=
  W.
Definition logline_text_read_len (len_self : Z) : Z := len_self.

Definition search_state_init_fields : list (string * string) :=
  [("_status", "status"); ("_offset", "offset")]%string.
Definition search_state_status_attr : string := "_status"%string.
Definition search_state_offset_attr : string := "_offset"%string.
Definition saved_position_after_exit (tell_at_entry : Z) : Z :=
  tell_at_entry.
Definition seeker_init_found_any_date : bool := false.
Definition seeker_init_line_info_is_none : bool := true.
Definition seeker_length_seek : Z * Z := (0, 2).
Definition seeker_len (length : Z) : Z := length.

