(* GENERATED from the repository working tree by translator/plugins/seek.py - do not edit *)
From Coq Require Import String ZArith List Bool.
Import ListNotations.
Open Scope Z_scope.

Definition apply_seek_sites : list (Z -> Z -> Z -> Z -> Z) :=
  [fun cached orig newoff len => cached; fun cached orig newoff len => orig; fun cached orig newoff len => newoff; fun cached orig newoff len => 0; fun cached orig newoff len => (len + 0); fun cached orig newoff len => 0; fun cached orig newoff len => (len + 0)].

Definition getitem_tfld_args : list (Z -> Z * option Z * bool) :=
  [fun offset => (offset, None, false); fun offset => ((offset + 1), None, true)].
Definition getitem_line_info_cmp (d since : Z) : bool :=
  (d >=? since).

Definition run_tfld_args (len : Z) : Z * option Z * bool :=
  let offset := 0 in (len, None, false).
Definition run_shortcut_slf : Z := (-1).
Definition run_shortcut_cmp (d since : Z) : bool :=
  (d >=? since).
Definition run_bisect_fn : string := "bisect_left".
Definition run_returns_line_info_start : bool := true.

