(* GENERATED from the repository working tree by translator/plugins/tsmatcher.py - do not edit *)
From Coq Require Import String ZArith List Bool.
From SK Require Import Model.TsMatcher.
Import ListNotations.
Open Scope string_scope.
Open Scope list_scope.
Open Scope Z_scope.

Definition x_ts_init : init_prog :=
  IP [ASetResultNone]
     [(GAlways, ATry ReMatch); (GIfRet, ASetResult); (GIfRet, ABreak)].

Definition x_ts_matched {M} (result : option M) : bool :=
  match result with Some _ => true | None => false end.

Definition x_ts_patterns_abstract : bool := true.

Definition x_ts_strptime : strp_prog :=
  SP ["day"; "month"; "year"; "hours"; "minutes"; "seconds"]
     NRstripS (CHasAttr NKey) (VAttr NKey) (VGroup NKey).

Definition x_ts_default_format : string := "%Y-%m-%d %H:%M:%S".

Definition x_ed_line_ops : list lineop := [LDecodeIfBytes].
Definition x_ed_guarded_by_matched : bool := true.
Definition x_ed_none_on : list string := ["ValueError"; "OverflowError"].

Definition x_date_format {A} (has_cls : bool) (cls_fmt base_fmt : A) : A :=
  if has_cls then cls_fmt else base_fmt.

Definition x_is_valid {A} (since_date : option A) : bool :=
  match since_date with Some _ => true | None => false end.

Definition x_stats_line (line_pass line_fail : Z) : Z * Z :=
  (line_pass, line_fail).

Definition x_apply_to_line : atree :=
  (ANode (ANot AIsValid) (ALeaf [] (RRaise "CouldNotApplyConstraint")) (ANode (ANot AHasTs) (ALeaf [] (RRaise "CouldNotApplyConstraint")) (ANode ADateOk (ALeaf ["_line_pass"] (RRet true)) (ALeaf ["_line_fail"] (RRet false))))).

Definition x_since_date_abstract : bool := true.

Definition x_apply_to_line_abstract : bool := true.
