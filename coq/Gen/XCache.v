(* GENERATED from the repository working tree by translator/plugins/cache.py - do not edit *)
From Coq Require Import String List ZArith.
From SK Require Import Model.Skel Model.CachePath.
Import ListNotations.
Open Scope string_scope.
Open Scope Z_scope.

Definition lock_attrs : list string := ["global_lock"; "cache_lock"].
Definition lock_path_global_lock : ppath := [[PVar "global_path"]; [PLit "locks"]; [PLit "cache_all_global.lock"]].
Definition lock_path_cache_lock : ppath := [[PVar "global_path"]; [PLit "locks"]; [PLit "cache_"; PVar "cache_id"; PLit ".lock"]].
Definition base_path : ppath := [[PVar "global_path"]; [PLit "caches"]; [PVar "cache_type"]; [PVar "cache_id"]].
Definition db_path_get : ppath := [[PVar "global_path"]; [PLit "caches"]; [PVar "cache_type"]; [PVar "cache_id"]; [PVar "key"]].
Definition db_path_set : ppath := [[PVar "global_path"]; [PLit "caches"]; [PVar "cache_type"]; [PVar "cache_id"]; [PVar "key"]].
Definition db_path_bulk_set : ppath := [[PVar "global_path"]; [PLit "caches"]; [PVar "cache_type"]; [PVar "cache_id"]; [PVar "key"]].
Definition db_path_unset : ppath := [[PVar "global_path"]; [PLit "caches"]; [PVar "cache_type"]; [PVar "cache_id"]; [PVar "key"]].
Definition sk_cache_enter : list ev := [Ret].
Definition sk_cache_base_exit : list ev := [].
Definition sk_cache_exit : list ev := [].
Definition enter_returns_self : bool := true.
Definition abstract_methods : list string := ["__exit__"; "get"; "set"; "bulk_set"; "unset"; "__iter__"; "__len__"].
Definition simple_methods : list string := ["__exit__"; "get"; "bulk_set"; "set"; "unset"; "__iter__"; "__len__"].
Definition simple_bases : list string := ["MPCacheBase"].
Definition mpcache_bases : list string := ["MPCacheSimple"].
Definition mpcache_own_methods : list string := [].
Definition GET_MAX_OPEN_RETRY : Z := 10.
Definition GET_RETRY_SLEEP : Z := 10.
