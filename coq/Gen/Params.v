(* GENERATED from the repository working tree by translator/gen.py - do not edit *)
From Coq Require Import ZArith List.
Import ListNotations.
Open Scope Z_scope.

Definition MAX_DATETIME_READ_BYTES : Z := 64.
Definition SEEK_HORIZON : Z := 256.
Definition MAX_SEEK_HORIZON_EXPAND : Z := 4096.
Definition MAX_TRY_FIND_WITH_DATE_ATTEMPTS : Z := 500.
Definition MAX_SEARCHABLE_LINE_LENGTH : Z := (MAX_SEEK_HORIZON_EXPAND * SEEK_HORIZON).
Definition RESULTS_QUEUE_TIMEOUT : Z := 60.
Definition MAX_QUEUE_RETRIES : Z := 10.
Definition RESULTS_QUEUE_SIZE : Z := 100000.
Definition NUM_BUFFERED_RESULTS : Z := (if ((Z.quot RESULTS_QUEUE_SIZE 10) =? 0) then 1 else (Z.quot RESULTS_QUEUE_SIZE 10)).
Definition TRANSIT_MAX : Z := 10.
Definition PREALLOC_BLOCK_SIZE : Z := 1000.
Definition DEFAULT_MAX_PARALLEL_TASKS : Z := 8.
Definition DEFAULT_MAX_LOGROTATE_DEPTH : Z := 7.
Definition CATALOG_MAX_LOGROTATE_DEPTH : Z := 7.
Definition FILTERED_DIR_MAX_LOGROTATE_DEPTH : Z := 7.
Definition SINCE_DEFAULT_DAYS : Z := 0.
Definition SINCE_DEFAULT_HOURS : Z := 24.
Definition LOGROTATE_FILTER_0 : list Z := [92; 83; 43; 92; 46; 108; 111; 103; 36].
Definition LOGROTATE_FILTER_1 : list Z := [92; 83; 43; 92; 46; 108; 111; 103; 92; 46; 40; 92; 100; 43; 41; 36].
Definition LOGROTATE_FILTER_2 : list Z := [92; 83; 43; 92; 46; 108; 111; 103; 92; 46; 40; 92; 100; 43; 41; 92; 46; 103; 122; 63; 36].
Definition LOGROTATE_NOMATCH_KEY : Z := 100000.
Definition FILTERED_DIR_REGEX : list Z := [40; 92; 83; 43; 41; 92; 46; 108; 111; 103; 40; 63; 58; 92; 46; 92; 100; 43; 40; 63; 58; 92; 46; 103; 122; 41; 63; 41; 63; 36].
