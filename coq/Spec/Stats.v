(* C17 - what the statistics must say after run(). *)
From Coq Require Import ZArith List Bool.
From SK Require Import Model.Stats.
Import ListNotations.
Open Scope Z_scope.

(* per file: the lines actually read (from where a file-level constraint
   positioned the file) and the results delivered for it *)
Record fobs (L R : Type) := mkF {
  f_regs : Z;                (* searches registered for this file *)
  f_lines : list L;          (* lines read *)
  f_results : list R         (* results in the returned collection *)
}.
Arguments mkF {L R}. Arguments f_regs {L R}. Arguments f_lines {L R}.
Arguments f_results {L R}.

Definition spec_stats {L R} (files : list (fobs L R)) : stats :=
  let n := lenZ files in
  mkStats (sumZ (map f_regs files))
          (map f_regs files)
          (sumZ (map (fun f => lenZ (f_lines f)) files))
          (if n =? 0 then 0 else if n =? 1 then 1 else n)
          (if n =? 0 then 0 else if n =? 1 then 1 else n)
          (sumZ (map (fun f => lenZ (f_results f)) files)).
