(* C15 - specification: the result store as an append-only injective table.

   The abstract table is the list of DISTINCT values in order of first
   appearance (whatever namespace - value, tag or sequence id - they were
   added under).  Adding a value returns its position; a new value is
   appended; None is not stored and has no position.  The concrete store
   keeps the k-th value of the table at index [slot k]:
     plain store          slot k = k
     pre-allocating store slot k = start (k / b) + k mod b
   where b is the block size and start j the first index of the j-th block
   the pre-allocator granted.  So block j holds the values b*j .. b*j+b-1 in
   order, and after n distinct values exactly ceil(n / b) blocks have been
   requested. *)
From Coq Require Import ZArith List Bool Arith.
Import ListNotations.
Open Scope Z_scope.

(* position of the first occurrence *)
Fixpoint pos (v : Z) (t : list Z) : option nat :=
  match t with
  | [] => None
  | w :: r => if v =? w then Some O
              else match pos v r with Some k => Some (S k) | None => None end
  end.

(* add one optional value *)
Definition tadd (t : list Z) (x : option Z) : list Z * option nat :=
  match x with
  | None => (t, None)
  | Some v => match pos v t with
              | Some k => (t, Some k)
              | None => (t ++ [v], Some (length t))
              end
  end.

Definition top := (option Z * option Z * option Z)%type.      (* tag, seq, value *)
Definition tret := (option nat * option nat * option nat)%type.

(* add(tag, sequence_id, value): the value first, then tag, then sequence id *)
Definition tadd3 (t : list Z) (o : top) : list Z * tret :=
  let '(tag, sq, value) := o in
  let '(t1, vi) := tadd t value in
  let '(t2, ti) := tadd t1 tag in
  let '(t3, si) := tadd t2 sq in
  (t3, (ti, si, vi)).

Fixpoint trun (t : list Z) (ops : list top) : list Z * list tret :=
  match ops with
  | [] => (t, [])
  | o :: r => let '(t1, x) := tadd3 t o in
              let '(t2, xs) := trun t1 r in (t2, x :: xs)
  end.

(* where the k-th value of the table lives *)
Definition slot_plain (k : nat) : Z := Z.of_nat k.

Definition slot_pre (b : nat) (start : nat -> Z) (k : nat) : Z :=
  start (k / b)%nat + Z.of_nat (k mod b)%nat.

(* number of blocks needed for n values: ceil(n / b) *)
Definition blocks_for (b n : nat) : nat := ((n + b - 1) / b)%nat.

(* the pre-allocator hands out pairwise disjoint blocks in increasing order
   (ResultStoreParallel.preallocate: a pointer that only grows) *)
Definition increasing_blocks (b : Z) (start : nat -> Z) : Prop :=
  forall j, start j + b <= start (S j).

(* an example pre-allocator: a pointer starting at p0; before the j-th
   request other users took [nth j gaps 0] indices *)
Fixpoint start_of (p0 b : Z) (gaps : list Z) (j : nat) : Z :=
  match j with
  | O => p0 + hd 0 gaps
  | S j' => start_of (p0 + hd 0 gaps + b) b (tl gaps) j'
  end.

(* concrete image of a table *)
Definition image (slot : nat -> Z) (t : list Z) : list (Z * Z) :=
  map (fun k => (slot k, nth k t 0)) (seq 0 (length t)).

Definition map_ret (slot : nat -> Z) (r : tret) : (option Z * option Z * option Z) :=
  let '(a, b, c) := r in (option_map slot a, option_map slot b, option_map slot c).

(* user-level reading of "append-only injective table" over a history of
   events (value added, index returned) followed by a final lookup function *)
Definition events_of (ops : list top) (rets : list (option Z * option Z * option Z))
  : list (option Z * option Z) :=
  flat_map (fun p => let '((tag, sq, value), (ti, si, vi)) := p in
                     [(value, vi); (tag, ti); (sq, si)])
           (combine ops rets).

Definition injective_table (evs : list (option Z * option Z))
           (lookup : Z -> option Z) : Prop :=
  (* None is never stored and maps to no index; a value always gets one *)
  (forall x i, In (x, i) evs -> (x = None <-> i = None)) /\
  (* equal values same index, unequal values different indices *)
  (forall v v' i i', In (Some v, Some i) evs -> In (Some v', Some i') evs ->
                     (v = v' <-> i = i')) /\
  (* every index handed out resolves to its value *)
  (forall v i, In (Some v, Some i) evs -> lookup i = Some v).
