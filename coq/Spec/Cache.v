(* C19 - specification: MPCache is a register per key, shared by processes.

   1. the sequential register ([reg_apply], [reg_res]);
   2. histories of invocation / response events, optionally annotated with
      linearization points ([HLin]);
   3. what it means for an annotated history to be correct ([ann_ok]):
      the operations taken in the order of their linearization points form a
      legal sequential register history, and every operation's point lies
      between its invocation and its response, which carries the value
      determined at the point.  A plain history is [linearizable] when it has
      such an annotation;
   4. an executable exact checker for small plain histories ([lin_check]),
      used by the harness on histories observed from the implementation. *)
From Coq Require Import ZArith List Bool Arith.
Import ListNotations.
Open Scope Z_scope.

(* ---- 1. the register ---------------------------------------------- *)
Inductive op : Type :=
| OSet (k v : Z)
| OBulk (kvs : list (Z * Z))
| OGet (k : Z)
| OUnset (k : Z).

Inductive res : Type :=
| RAck                      (* set / bulk_set / unset returned *)
| RVal (o : option Z)       (* get returned o (None = Python None) *)
| RFail.                    (* the operation raised *)

Definition store := Z -> option Z.
Definition empty : store := fun _ => None.
Definition upd (d : store) (k : Z) (o : option Z) : store :=
  fun k' => if k' =? k then o else d k'.

Fixpoint bulk_apply (kvs : list (Z * Z)) (d : store) : store :=
  match kvs with
  | [] => d
  | (k, v) :: r => bulk_apply r (upd d k (Some v))
  end.

(* unset of an absent key is a no-op that does not fail *)
Definition reg_apply (o : op) (d : store) : store :=
  match o with
  | OSet k v => upd d k (Some v)
  | OBulk kvs => bulk_apply kvs d
  | OGet _ => d
  | OUnset k => upd d k None
  end.

Definition reg_res (o : op) (d : store) : res :=
  match o with
  | OGet k => RVal (d k)
  | _ => RAck
  end.

(* results of a sequential program *)
Fixpoint seq_results (d : store) (prog : list op) : list res :=
  match prog with
  | [] => []
  | o :: r => reg_res o d :: seq_results (reg_apply o d) r
  end.

(* ---- 2. histories -------------------------------------------------- *)
(* process p, its i-th operation *)
Inductive hev : Type :=
| HInv (p i : nat) (o : op)
| HLin (p i : nat) (o : op) (r : res)     (* annotation only *)
| HRes (p i : nat) (o : op) (r : res).

Definition hev_pid (e : hev) : nat :=
  match e with HInv p _ _ | HLin p _ _ _ | HRes p _ _ _ => p end.

Definition is_lin (e : hev) : bool :=
  match e with HLin _ _ _ _ => true | _ => false end.

(* plain history = annotation erased *)
Definition erase (h : list hev) : list hev :=
  filter (fun e => negb (is_lin e)) h.

(* Histories are kept NEWEST FIRST (the head is the latest event). *)

(* register contents after the linearization points of [h] *)
Fixpoint sigma (h : list hev) : store :=
  match h with
  | [] => empty
  | HLin _ _ o _ :: r => reg_apply o (sigma r)
  | _ :: r => sigma r
  end.

(* ---- 3. correctness of an annotated history ------------------------ *)
(* every point returns what the sequential register returns there *)
Fixpoint lin_legal (h : list hev) : Prop :=
  match h with
  | [] => True
  | HLin _ _ o r :: t => r = reg_res o (sigma t) /\ lin_legal t
  | _ :: t => lin_legal t
  end.

(* where process p stands after history h: idle before its n-th operation,
   invoked, or past its linearization point with result r *)
Inductive phase : Type :=
| PIdle (n : nat)
| PInv (n : nat) (o : op)
| PLin (n : nat) (o : op) (r : res).

Inductive phase_of (p : nat) : list hev -> phase -> Prop :=
| ph_nil : phase_of p [] (PIdle 0)
| ph_other e h ph :
    hev_pid e <> p -> phase_of p h ph -> phase_of p (e :: h) ph
| ph_inv h n o :
    phase_of p h (PIdle n) -> phase_of p (HInv p n o :: h) (PInv n o)
| ph_lin h n o r :
    phase_of p h (PInv n o) -> phase_of p (HLin p n o r :: h) (PLin n o r)
| ph_res h n o r :
    phase_of p h (PLin n o r) -> phase_of p (HRes p n o r :: h) (PIdle (S n)).

(* per process: Inv, Lin, Res, Inv, Lin, Res ... with matching operation
   and value: the point lies inside the operation's interval *)
Definition bracketed (h : list hev) : Prop :=
  forall p, exists ph, phase_of p h ph.

Definition ann_ok (h : list hev) : Prop := lin_legal h /\ bracketed h.

Definition linearizable (plain : list hev) : Prop :=
  exists h, erase h = plain /\ ann_ok h.

(* x happened before y in a newest-first history *)
Definition before (x y : hev) (h : list hev) : Prop :=
  exists h1 h2 h3, h = h1 ++ y :: h2 ++ x :: h3.

(* ---- 4. executable checker for plain histories --------------------- *)
Definition op_key_eqb (a b : nat * nat) : bool :=
  Nat.eqb (fst a) (fst b) && Nat.eqb (snd a) (snd b).

Definition res_eqb (a b : res) : bool :=
  match a, b with
  | RAck, RAck | RFail, RFail => true
  | RVal None, RVal None => true
  | RVal (Some x), RVal (Some y) => x =? y
  | _, _ => false
  end.

Fixpoint remove_id (id : nat * nat) (l : list (nat * nat * op))
  : list (nat * nat * op) :=
  match l with
  | [] => []
  | (x, o) :: r => if op_key_eqb x id then r else (x, o) :: remove_id id r
  end.

Fixpoint find_id {A} (id : nat * nat) (l : list (nat * nat * A)) : option A :=
  match l with
  | [] => None
  | (x, a) :: r => if op_key_eqb x id then Some a else find_id id r
  end.

(* [evs] is CHRONOLOGICAL here.  pending: invoked, no point yet; linned:
   point chosen, response not yet seen (with the value the point produced).
   A point is only ever placed immediately before some response (this loses
   no linearization).  Operations that never respond may stay pending.
   (if-then-else instead of && / ||: vm_compute is call-by-value.) *)
(* exists with a lazily evaluated predicate (vm_compute is call-by-value) *)
Fixpoint lazy_exists {A} (k : A -> bool) (l : list A) : bool :=
  match l with
  | [] => false
  | y :: l' => if k y then true else lazy_exists k l'
  end.

Fixpoint lin_search (fuel : nat) (d : store)
         (pending : list (nat * nat * op)) (linned : list (nat * nat * res))
         (evs : list hev) {struct fuel} : bool :=
  match fuel with
  | O => false
  | S f =>
    match evs with
    | [] => true
    | HInv p i o :: r => lin_search f d ((p, i, o) :: pending) linned r
    | HLin _ _ _ _ :: r => lin_search f d pending linned r
    | HRes p i o rv :: r =>
        match find_id (p, i) linned with
        | Some rv' => if res_eqb rv rv' then lin_search f d pending linned r
                      else false
        | None =>
            match find_id (p, i) pending with
            | None => false
            | Some o' =>
                (* the point of this operation now ... *)
                if (if res_eqb rv (reg_res o' d)
                    then lin_search f (reg_apply o' d)
                                    (remove_id (p, i) pending) linned r
                    else false)
                then true
                else
                (* ... or some other pending operation's point first *)
                  lazy_exists
                    (fun y =>
                       if op_key_eqb (fst y) (p, i) then false
                       else lin_search f (reg_apply (snd y) d)
                                       (remove_id (fst y) pending)
                                       ((fst y, reg_res (snd y) d) :: linned)
                                       evs)
                    pending
            end
        end
    end
  end.

Definition lin_check (chron : list hev) : bool :=
  lin_search (2 * length chron + 2) empty [] [] chron.

(* well-formed plain history: each process numbers its operations 0,1,2...,
   invokes only when idle, and a response names the invoked operation *)
Fixpoint kvs_eqb (a b : list (Z * Z)) : bool :=
  match a, b with
  | [], [] => true
  | (k, v) :: a', (k', v') :: b' => (k =? k') && (v =? v') && kvs_eqb a' b'
  | _, _ => false
  end.

Definition op_eqb (a b : op) : bool :=
  match a, b with
  | OSet k v, OSet k' v' => (k =? k') && (v =? v')
  | OBulk x, OBulk y => kvs_eqb x y
  | OGet k, OGet k' | OUnset k, OUnset k' => k =? k'
  | _, _ => false
  end.

Definition pstatus := (nat * option op)%type.     (* next index, running op *)

Definition set_status (st : nat -> pstatus) (p : nat) (x : pstatus)
  : nat -> pstatus := fun q => if Nat.eqb q p then x else st q.

Fixpoint wf_run (st : nat -> pstatus) (evs : list hev) : bool :=
  match evs with
  | [] => true
  | HInv p i o :: r =>
      match st p with
      | (n, None) => Nat.eqb i n && wf_run (set_status st p (n, Some o)) r
      | _ => false
      end
  | HRes p i o _ :: r =>
      match st p with
      | (n, Some o') =>
          Nat.eqb i n && op_eqb o o' &&
          wf_run (set_status st p (S n, None)) r
      | _ => false
      end
  | HLin _ _ _ _ :: _ => false
  end.

Definition wf_hist (chron : list hev) : bool :=
  wf_run (fun _ => (0%nat, None)) chron.

(* the verdict used on observed histories (chronological) *)
Definition lin_ok (chron : list hev) : bool :=
  wf_hist chron && lin_check chron.
