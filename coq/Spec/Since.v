(* C16 - specification of the per-line "since" constraint.

   A line carries, at its start, either nothing recognisable as a timestamp
   ([None]) or six integer fields ([Some t]); fields that do not denote a real
   date/time (2023-02-30 ...) are no timestamp either.  Timestamps are
   ordered as calendar date-times ([lex_lt]); [secs] of Model/Dates.v is the
   integer the implementation's datetime objects are compared by, and
   Props/C16.v proves that both orders agree. *)
From Coq Require Import ZArith List Bool.
From SK Require Import Model.Dates.
Import ListNotations.
Open Scope Z_scope.

(* calendar order: lexicographic on (year, month, day, hour, minute, second) *)
Definition lex_lt (a b : dt) : Prop :=
  yr a < yr b \/ (yr a = yr b /\
  (mo a < mo b \/ (mo a = mo b /\
  (dy a < dy b \/ (dy a = dy b /\
  (hh a < hh b \/ (hh a = hh b /\
  (mi a < mi b \/ (mi a = mi b /\
   ss a < ss b))))))))).

(* the window in seconds: the given number of days if non-zero, otherwise
   the given number of hours *)
Definition spec_window (days hours : Z) : Z :=
  if days =? 0 then hours * 3600 else days * 86400.

Inductive outcome : Type := Pass | Fail | Undecided.

(* the timestamp of a line, in seconds, when it has one *)
Definition decided (line : option dt) : option Z :=
  match line with
  | Some t => if valid_dt t then Some (secs t) else None
  | None => None
  end.

(* a dated line passes exactly when its timestamp is at or after
   current - window; an undated line is undecidable *)
Definition spec_outcome (cur days hours : Z) (line : option dt) : outcome :=
  match decided line with
  | None => Undecided
  | Some t => if cur - spec_window days hours <=? t then Pass else Fail
  end.

Definition is_pass (o : outcome) : bool :=
  match o with Pass => true | _ => false end.
Definition is_fail (o : outcome) : bool :=
  match o with Fail => true | _ => false end.
Definition is_decided (o : outcome) : bool :=
  match o with Undecided => false | _ => true end.

Definition countb {A} (p : A -> bool) (l : list A) : Z :=
  Z.of_nat (length (filter p l)).

(* what the counters must read after the given lines were presented to a
   fresh constraint *)
Definition spec_pass_count (cur days hours : Z) (lines : list (option dt)) :=
  countb is_pass (map (spec_outcome cur days hours) lines).
Definition spec_fail_count (cur days hours : Z) (lines : list (option dt)) :=
  countb is_fail (map (spec_outcome cur days hours) lines).
Definition spec_decided_count (lines : list (option dt)) : Z :=
  countb (fun l => match decided l with Some _ => true | None => false end)
         lines.
