(* C04 - specification: where a file-level since constraint must leave the
   file.

   [ts s] is the timestamp (seconds) recognised at the start offset [s] of a
   line, if any (oracle: the timestamp matcher applied to the bytes at [s]).
   The lines of a file are its maximal LF-delimited pieces; the line starts
   are 0 and every offset that follows a line feed and lies inside the file
   (a final line feed does not open another line). *)
From Coq Require Import ZArith List Bool.
From SK Require Import Model.Base Spec.Lines.
Import ListNotations.
Open Scope Z_scope.

(* [i] is the offset of the head of the remaining list *)
Fixpoint starts_after_lf (c : list Z) (i : Z) : list Z :=
  match c with
  | [] => []
  | x :: r => if x =? 10 then (i + 1) :: starts_after_lf r (i + 1)
              else starts_after_lf r (i + 1)
  end.

(* start offsets of the lines, in file order *)
Definition line_starts (c : list Z) : list Z :=
  let n := lenZ c in 0 :: filter (fun s => s <? n) (starts_after_lf c 0).

Definition dated (ts : Z -> option Z) (s : Z) : bool :=
  match ts s with Some _ => true | None => false end.
Definition in_window (ts : Z -> option Z) (since s : Z) : bool :=
  match ts s with Some d => since <=? d | None => false end.

(* THE SPECIFICATION: first byte of the first line whose timestamp is at or
   after [since]; end of file if timestamps exist but none qualifies; 0 if
   no line has a timestamp *)
Definition first_in_window (ts : Z -> option Z) (since : Z) (c : list Z) : Z :=
  match find (in_window ts since) (line_starts c) with
  | Some s => s
  | None => if existsb (dated ts) (line_starts c) then lenZ c else 0
  end.

(* ---- hypotheses of the theorem ---------------------------------------- *)
(* (h0) an empty line has no timestamp, nor has the end of the file *)
Definition empty_undated (ts : Z -> option Z) (c : list Z) : Prop :=
  forall s, lf_at c s \/ lenZ c <= s -> ts s = None.

(* (h2) the timestamped lines are in non-decreasing time order *)
Fixpoint dates_sorted_from (ts : Z -> option Z) (lo : option Z) (l : list Z)
  : bool :=
  match l with
  | [] => true
  | s :: r =>
      match ts s with
      | None => dates_sorted_from ts lo r
      | Some d => match lo with
                  | Some d0 => (d0 <=? d) && dates_sorted_from ts (Some d) r
                  | None => dates_sorted_from ts (Some d) r
                  end
      end
  end.
Definition time_ordered (ts : Z -> option Z) (c : list Z) : Prop :=
  dates_sorted_from ts None (line_starts c) = true.

(* (h3) length of the longest run of consecutive undated lines *)
Fixpoint max_undated_run_from (ts : Z -> option Z) (cur best : Z)
         (l : list Z) : Z :=
  match l with
  | [] => Z.max cur best
  | s :: r => if dated ts s then max_undated_run_from ts 0 (Z.max cur best) r
              else max_undated_run_from ts (cur + 1) best r
  end.
Definition max_undated_run (ts : Z -> option Z) (c : list Z) : Z :=
  max_undated_run_from ts 0 0 (line_starts c).

(* the fallback examines at most L lines: the probed line and L - 1 more *)
Definition undated_runs_below (L : Z) (ts : Z -> option Z) (c : list Z)
  : Prop := max_undated_run ts c <= L - 1.

(* (h1) every offset can be looked up (Spec/Lines.v [within_budget]; implied
   by: every line, terminator included, is at most (A-1)*H bytes long) *)
Definition all_within_budget (H A : Z) (c : list Z) : Prop :=
  forall o, 0 <= o <= lenZ c -> within_budget H A c o = true.

(* ---- the same hypotheses, stated on offsets (used by the theorem; the
   list versions above are what the harness evaluates, and
   Proofs/SinceSeekList.v relates the two) ------------------------------- *)
(* [s] is the first byte of a line of the file *)
Definition real_line_start (c : list Z) (s : Z) : Prop :=
  s = 0 \/ (lf_at c (s - 1) /\ s < lenZ c).

(* start of the line before the line that starts at [s] (for s > 0) *)
Definition prev_start (c : list Z) (s : Z) : Z := line_start c (s - 1).

(* (h2) *)
Definition time_ordered_lines (ts : Z -> option Z) (c : list Z) : Prop :=
  forall s1 s2 d1 d2,
    real_line_start c s1 -> real_line_start c s2 -> s1 <= s2 ->
    ts s1 = Some d1 -> ts s2 = Some d2 -> d1 <= d2.

(* (h3) the k consecutive lines that end with the line starting at [s] exist
   and are all undated *)
Fixpoint undated_run_back (ts : Z -> option Z) (c : list Z) (k : nat) (s : Z)
  : bool :=
  match k with
  | O => true
  | S k' => negb (dated ts s) &&
            match k' with
            | O => true
            | S _ => negb (s =? 0) && undated_run_back ts c k' (prev_start c s)
            end
  end.
(* there are no L consecutive undated lines *)
Definition no_long_undated_run (L : Z) (ts : Z -> option Z) (c : list Z)
  : Prop :=
  forall s, real_line_start c s -> undated_run_back ts c (Z.to_nat L) s = false.

(* the specification, declaratively: [p] is where the search must start *)
Definition is_first_in_window (ts : Z -> option Z) (since : Z) (c : list Z)
           (p : Z) : Prop :=
  (real_line_start c p /\ in_window ts since p = true /\
   forall s, real_line_start c s -> s < p -> in_window ts since s = false)
  \/ (p = lenZ c /\ (exists s, real_line_start c s /\ dated ts s = true) /\
      forall s, real_line_start c s -> in_window ts since s = false)
  \/ (p = 0 /\ forall s, real_line_start c s -> dated ts s = false).
