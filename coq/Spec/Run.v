(* CAPSTONE - what a single-file FileSearcher.run() must deliver, end to end.

   Given   the file as BYTES [c] (for a gzip file: its decompressed stream),
           the timestamp oracle [tsw] (matcher on the <= W bytes at a line
           start), an optional file-level since date, the registered simple
           definitions (with or without constraints of their own), the
           ids restricted from file-level constraints, and the line
           classification oracle [classify] (decoding + what the regular
           expressions and the line-level constraints answer),
   then    searching starts at the first byte of the first line whose
           timestamp is >= since (Spec/C04.v [first_in_window]) - at byte 0
           when there is no file-level constraint or when one of the
           registered searches is restricted;
           the lines searched are the lines of the file from that byte on,
           and they are numbered from 1;
           every definition reports Spec/Task.v [spec_simple] of those lines
           (a definition with constraints of its own: [spec_constrained]);
           statistics: searches = registrations, lines_searched = number of
           those lines, results = all results of all definitions, jobs 1/1.

   Independent of the models: uses only Spec/C04.v, Spec/Task.v, the line
   iteration of a binary file (Model/Lines.v [lines_from]), the record types
   and, for [observe], the outcome type of Model/Run.v. *)
From Coq Require Import ZArith List Bool.
From SK Require Import Model.Base Model.Seek Model.Lines Model.Task
     Model.Stats Model.Run Spec.C04 Spec.Task.
Import ListNotations.
Open Scope Z_scope.

Section Spec.
  Variable W : Z.
  Variable tsw : list Z -> option Z.
  Variable line : Type.
  Variable classify : list Z -> line.
  Variable omatch : Z -> line -> option (list Z).
  Variable ohint : Z -> line -> bool.
  Variable ocon : Z -> line -> outcome.

  (* the timestamp recognised at byte [s] of the file (what C04 calls ts) *)
  Definition ts_at (c : list Z) (s : Z) : option Z := tsw (read c s W).

  (* one of the registered ids is in global_restrictions *)
  Definition restricted (restrictions ids : list Z) : bool :=
    existsb (fun k => memZ k restrictions) ids.

  (* is the file-level constraint applied to this file at all? *)
  Definition seeks (since : option Z) (restrictions ids : list Z) : bool :=
    match since with
    | Some _ => negb (restricted restrictions ids)
    | None => false
    end.

  (* the byte at which searching starts *)
  Definition start_byte (since : option Z) (restrictions ids : list Z)
             (c : list Z) : Z :=
    match since with
    | None => 0
    | Some s => if restricted restrictions ids then 0
                else first_in_window (ts_at c) s c
    end.

  (* the lines searched, in order; the first one gets number 1 *)
  Definition searched (since : option Z) (restrictions ids : list Z)
             (c : list Z) : list line :=
    map classify (lines_from c (Z.to_nat (start_byte since restrictions ids c))).

  (* per definition: (line number, captures) of every match *)
  Definition spec_for (d : sdef) (lines : list line)
    : list (Z * list (Z * Z)) :=
    match s_cons d with
    | [] => spec_simple line omatch ohint d lines
    | _ => spec_constrained line omatch ohint ocon d lines
    end.

  (* every registered object once, in order of first registration *)
  Definition distinct (ds : list sdef) : list sdef := dedupe_by s_key [] ds.

  (* THE END-TO-END SPECIFICATION: results per registered definition (keyed
     by the definition) and the run statistics *)
  Definition spec_run (since : option Z) (restrictions : list Z)
             (ds : list sdef) (c : list Z)
    : list (Z * list (Z * list (Z * Z))) * stats :=
    let lines := searched since restrictions (map s_key ds) c in
    (map (fun d => (s_key d, spec_for d lines)) ds,
     mkStats (Stats.lenZ ds) [Stats.lenZ ds] (Stats.lenZ lines) 1 1
             (sumZ (map (fun d => Stats.lenZ (spec_for d lines))
                        (distinct ds)))).
End Spec.

(* the hypotheses of C04 on the file's bytes (Spec/C04.v), needed only when
   the file-level constraint is applied:
   (h0) an empty line / the end of the file carries no timestamp,
   (h1) every offset is within the line-lookup budget (C11),
   (h2) timestamped lines are in non-decreasing time order,
   (h3) fewer than L consecutive lines without timestamp *)
Definition seek_hyps (H A L W : Z) (tsw : list Z -> option Z) (c : list Z)
  : Prop :=
  empty_undated (ts_at W tsw c) c /\
  all_within_budget H A c /\
  time_ordered (ts_at W tsw c) c /\
  undated_runs_below L (ts_at W tsw c) c.

(* ---- ONE MATCHER (needed only by E2E_window_exact_on_lines) -------------
   The seek reads timestamps in the W-byte window at a line's first byte
   ([tsw], on bytes); line-level code reads them on the decoded line
   ([tsl], on classified lines).  In the implementation both come from one
   TimestampMatcher class; for the model they are two oracles, and this is
   the hypothesis that ties them: on every line of the file they agree. *)
(* byte offset at which line [i] of the file begins *)
Definition line_offset (c : list Z) (i : nat) : Z :=
  Z.of_nat (length (concat (firstn i (split_lines c)))).
Definition one_matcher (W : Z) (tsw : list Z -> option Z) (line : Type)
           (classify : list Z -> line) (tsl : line -> option Z) (c : list Z)
  : Prop :=
  forall i l, nth_error (split_lines c) i = Some l ->
              tsl (classify l) = ts_at W tsw c (line_offset c i).

(* what is observable of a run's outcome: per registered definition the
   collection's results for it ((line number, captures), collection order),
   and the statistics; None if run() does not return *)
Definition observe {R} (view : list R -> list (Z * list (Z * list (Z * Z))))
           (o : run_out R)
  : option (list (Z * list (Z * list (Z * Z))) * stats) :=
  match o with
  | RunOk coll st => Some (view coll, st)
  | _ => None
  end.

Definition simple_view (ds : list sdef) (coll : list result)
  : list (Z * list (Z * list (Z * Z))) :=
  map (fun d => (s_key d, map obs (results_for (s_key d) coll))) ds.
