(* Lines of a byte string - the specification used by C11 (and C04).

   A file is a list of bytes ([Z]); only the value 10 (line feed) is
   interpreted.  Offsets are [Z]; byte [j] of [c] exists for 0 <= j < |c|.

   The line containing offset [o] (0 <= o <= |c|) is delimited by
     - on the left : the greatest line feed strictly before [o] (the line
                     starts on the byte after it) or the start of the file;
     - on the right: the least line feed at or after [o] (it belongs to the
                     line it terminates) or the end of the file.
   Hence a line feed at offset [o] itself terminates the line containing [o],
   and offset |c| belongs to the last (possibly empty) line. *)
From Coq Require Import ZArith List Bool.
From SK Require Import Model.Base.
Import ListNotations.
Open Scope Z_scope.

(* byte [j] of [c] is a line feed.  [nth] returns the default 0 (not a line
   feed) past the end, so no upper bound has to be stated. *)
Definition lf_at (c : list Z) (j : Z) : Prop :=
  0 <= j /\ nth (Z.to_nat j) c 0 = 10.

(* ---- declarative specification -------------------------------------- *)
(* [p] is the least line-feed offset >= o *)
Definition is_next_lf (c : list Z) (o p : Z) : Prop :=
  o <= p /\ lf_at c p /\ forall j, o <= j < p -> ~ lf_at c j.
(* there is no line feed at or after [o] *)
Definition no_lf_from (c : list Z) (o : Z) : Prop :=
  forall j, o <= j -> ~ lf_at c j.
(* [q] is the greatest line-feed offset < o *)
Definition is_prev_lf (c : list Z) (o q : Z) : Prop :=
  q < o /\ lf_at c q /\ forall j, q < j < o -> ~ lf_at c j.
(* there is no line feed strictly before [o] *)
Definition no_lf_before (c : list Z) (o : Z) : Prop :=
  forall j, j < o -> ~ lf_at c j.

(* ---- the same as executable functions (evaluated by the harness) ------ *)
(* [i] is the offset of the head of the remaining list *)
Fixpoint next_lf_from (c : list Z) (i o : Z) : option Z :=
  match c with
  | [] => None
  | x :: r => if (o <=? i) && (x =? 10) then Some i
              else next_lf_from r (i + 1) o
  end.
Definition next_lf (c : list Z) (o : Z) : option Z := next_lf_from c 0 o.

Fixpoint prev_lf_from (c : list Z) (i o : Z) : option Z :=
  match c with
  | [] => None
  | x :: r => match prev_lf_from r (i + 1) o with
              | Some q => Some q
              | None => if (i <? o) && (x =? 10) then Some i else None
              end
  end.
Definition prev_lf (c : list Z) (o : Z) : option Z := prev_lf_from c 0 o.

(* ---- the line containing offset [o] ----------------------------------- *)
(* first byte of the line *)
Definition line_start (c : list Z) (o : Z) : Z :=
  match prev_lf c o with Some q => q + 1 | None => 0 end.
(* offset of the terminating line feed, or |c| for an unterminated last line *)
Definition line_end (c : list Z) (o : Z) : Z :=
  match next_lf c o with Some p => p | None => lenZ c end.
(* first byte after the line, terminator included *)
Definition line_stop (c : list Z) (o : Z) : Z :=
  match next_lf c o with Some p => p + 1 | None => lenZ c end.
(* length of the line, terminator included *)
Definition line_len (c : list Z) (o : Z) : Z := line_stop c o - line_start c o.

(* an offset is the first byte of a line: 0 or the byte after a line feed *)
Definition is_line_start (c : list Z) (s : Z) : Prop :=
  s = 0 \/ lf_at c (s - 1).
(* positions at which a since constraint may leave the file *)
Definition is_line_boundary (c : list Z) (s : Z) : Prop :=
  s = 0 \/ s = lenZ c \/ lf_at c (s - 1).

(* ---- the search budget ------------------------------------------------
   The lookups read at most A chunks of H bytes in each direction and give
   up (MaxSearchableLineLengthReached) beyond that.  Exactly:
   forwards from [o]  : a line feed at p is found iff p - o < A*H; the end
                        of the file is recognised iff |c| - o < A*H
                        (a short or empty read ends the scan);
   backwards from [o] : a line feed at q is found iff o - q <= A*H; the
                        start of the file is recognised iff o < A*H
                        (a clipped window, or a window that starts at 0
                        with an attempt left, ends the scan).
   Hence every line of at most A*H - 1 bytes is within the budget wherever it
   lies, and so is a line of A*H bytes including its terminating line feed. *)
Definition fwd_in_budget (H A : Z) (c : list Z) (o : Z) : bool :=
  match next_lf c o with
  | Some p => p - o <? A * H
  | None => lenZ c - o <? A * H
  end.
Definition bwd_in_budget (H A : Z) (c : list Z) (o : Z) : bool :=
  match prev_lf c o with
  | Some q => o - q <=? A * H
  | None => o <? A * H
  end.
Definition within_budget (H A : Z) (c : list Z) (o : Z) : bool :=
  fwd_in_budget H A c o && bwd_in_budget H A c o.
