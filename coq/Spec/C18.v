(* C18 - specification: how many worker processes a run may use. *)
From Coq Require Import ZArith List Bool.
Import ListNotations.
Open Scope Z_scope.

(* max_parallel_tasks = 0 means one worker *)
Definition eff_max (m : Z) : Z := if m =? 0 then 1 else m.

(* the bound of the property: min(max_parallel_tasks, CPUs, files) *)
Definition worker_bound (m c f : Z) : Z := Z.min (eff_max m) (Z.min c f).

(* exact value prescribed for the pool size *)
Definition spec_workers (m c f : Z) : Z :=
  Z.min (Z.max f 1) (if m =? 0 then 1 else Z.min m c).

(* Contract of a process pool with [n] workers: every submitted task is run
   by some worker whose number is below [n].  An execution is the list of
   worker numbers, one per submitted task. *)
Definition pool_execution (n : nat) (assign : list nat) : Prop :=
  Forall (fun w => (w < n)%nat) assign.
