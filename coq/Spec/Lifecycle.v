(* C10 - what "prompt exception, no hang, no leftovers" means for a state of
   the life-cycle model (Model/Lifecycle.v).  Independent of how the model
   steps: only the vocabulary of the theorems in Props/C10.v. *)
From Coq Require Import String List Bool Arith.
From SK Require Import Model.Skel Model.Lifecycle.
Import ListNotations.

(* states some schedule reaches from a run that starts with the two locks
   owned as [st] / [co] *)
Definition reachable (f : facts) (c : cfg) (st co : option owner) (s : state)
  : Prop := exists sched, s = run f c sched (init c st co).

(* a lock as a run may find it: free, or still owned by a process of an
   earlier run that no longer exists *)
Definition lock_init (o : option owner) : Prop := o = None \/ o = Some ODead.

(* the lock is owned by a process that is gone: nobody will ever release it *)
Definition dead_owner (s : state) (o : option owner) : Prop :=
  dead_ownerb s o = true.

(* both helper threads are joined (or were never started) *)
Definition threads_quiet (s : state) : Prop :=
  (s_info s = INotStarted \/ s_info s = IDone) /\
  (s_res s = RNotStarted \/ s_res s = RDone).

(* no worker process and no manager process is left *)
Definition no_live_child (c : cfg) (s : state) : Prop :=
  (forall w, w < c_workers c -> is_dead (s_ws s w) = true) /\ s_mgr s = false.

Definition locks_free (s : state) : Prop :=
  s_store s = None /\ s_coll s = None.

(* the next run (of any configuration) starts exactly like a first run *)
Definition next_run_fresh (s : state) : Prop :=
  forall c', restart s c' = init c' None None.

Definition clean_end (c : cfg) (s : state) : Prop :=
  threads_quiet s /\ no_live_child c s /\ locks_free s /\ next_run_fresh s.

(* nobody can move and run() has not finished: a hang *)
Definition stuck (f : facts) (c : cfg) (s : state) : Prop :=
  final s = false /\ forall a, step f c s a = None.

(* some actor can take a step *)
Definition can_move (f : facts) (c : cfg) (s : state) : Prop :=
  exists a, enabledb f c s a = true.

(* from here run() can never finish, whatever the scheduler does *)
Definition doomed (f : facts) (c : cfg) (s : state) : Prop :=
  forall sched, final (run f c sched s) = false.

(* number of schedule entries at which the scheduled actor actually moved *)
Fixpoint moves (f : facts) (c : cfg) (sched : list actor) (s : state) : nat :=
  match sched with
  | [] => 0
  | a :: r => match step f c s a with
              | Some s' => S (moves f c r s')
              | None => moves f c r s
              end
  end.

(* class run() raises for a task exception e injected by plan p *)
Definition expected_class (f : facts) (c : cfg) (p : plan) (e : exc) : exc :=
  main_class f (raise_class f c (p_task p) (p_i p) e).

Definition plan_raises (c : cfg) : Prop :=
  match c_plan c with
  | Some p => match p_kind p with KRaise _ => True | KExit => False end
  | None => True
  end.

(* a fault-free configuration whose every task takes the store lock at least
   once (every real task does: sync()) *)
Definition has_crit (p : prog) : bool :=
  existsb (fun it => match it with ICrit _ => true | _ => false end) p.
Definition plain_cfg (c : cfg) : Prop :=
  c_plan c = None /\ 1 <= ntasks c /\ 1 <= c_workers c /\
  forallb has_crit (c_progs c) = true.

(* ----------------------------------------------- what T2 may observe *)
Inductive outcome := OReturned | ORaised (e : exc) | OHang.

(* (outcome of run 1, store lock left held) allowed for a fired fault *)
Definition allowed (f : facts) (c : cfg) (p : plan)
  : list (outcome * bool) :=
  match p_kind p with
  | KRaise e => [(ORaised (expected_class f c p e), false)]
  | KExit =>
      if f_fin_free f then [(ORaised E_FSE, false)]
      else
        (* the code before the D8 repair *)
        let held := [(ORaised E_FSE, true); (OHang, true)] in
        match p_j p with
        | Some _ => held               (* died inside the locked region *)
        | None => (ORaised E_FSE, false) :: held   (* a sibling may be
                                            terminated inside one *)
        end
  end.

Definition observe (s : state) : outcome * bool :=
  (match s_pc s with
   | MReturn => OReturned
   | MRaised e => ORaised e
   | _ => OHang
   end, dead_ownerb s (s_store s)).

Definition outcome_eqb (a b : outcome) : bool :=
  match a, b with
  | OReturned, OReturned | OHang, OHang => true
  | ORaised x, ORaised y => String.eqb x y
  | _, _ => false
  end.
Definition obs_mem (o : outcome * bool) (l : list (outcome * bool)) : bool :=
  existsb (fun x => outcome_eqb (fst o) (fst x) && Bool.eqb (snd o) (snd x)) l.
