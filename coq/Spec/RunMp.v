(* CAPSTONE 2 - what a MULTI-file FileSearcher.run() must deliver.

   For every catalog entry (path = its position): exactly what searching
   that file alone must deliver - Spec/Run.v [spec_run] of ITS bytes with ITS
   registered definitions: results per definition, in order, numbered from
   its own first searched line.  Nothing under any other path.  Statistics:
   searches = all registrations, searches_by_job = registrations per file,
   lines_searched = lines searched over all files, results = all results,
   jobs_completed = total_jobs = number of files.
   Batch sizes, queue capacity, scheduling and completion order do not
   occur. *)
From Coq Require Import ZArith List Bool.
From SK Require Import Model.Base Model.Task Model.Stats Model.Gzip
     Model.Run Model.RunMp Spec.Task Spec.Run.
Import ListNotations.
Open Scope Z_scope.

Section SpecMp.
  Variable W : Z.
  Variable tsw : list Z -> option Z.
  Variable line : Type.
  Variable classify : list Z -> line.
  Variable omatch : Z -> line -> option (list Z).
  Variable ohint : Z -> line -> bool.
  Variable ocon : Z -> line -> outcome.

  (* the single-file specification of one catalog entry *)
  Definition spec_file (since : option Z) (restrictions : list Z)
             (mf : mfile) :=
    spec_run W tsw line classify omatch ohint ocon since restrictions
             (mf_defs mf) (stream (mf_file mf)).

  Definition spec_run_mp (since : option Z) (restrictions : list Z)
             (files : list mfile)
    : list (list (Z * list (Z * list (Z * Z)))) * stats :=
    let per := map (spec_file since restrictions) files in
    let ss := map snd per in
    let n := Stats.lenZ files in
    (map fst per,
     mkStats (sumZ (map st_searches ss)) (map st_searches ss)
             (sumZ (map st_lines ss)) n n (sumZ (map st_results ss))).
End SpecMp.

(* what is observable of a multi-file run: per catalog entry, per definition
   registered on it, the collection's results under that path; the
   statistics; None if run() does not return *)
Definition observe_mp (files : list mfile) (o : mp_out)
  : option (list (list (Z * list (Z * list (Z * Z)))) * stats) :=
  match o with
  | MpOk coll st =>
      Some (map (fun tm => simple_view (mf_defs (snd tm))
                                       (mp_find (fst tm) coll))
                (combine (seq 0 (length files)) files), st)
  | _ => None
  end.
