(* C02 - specification: what a parallel search must return.

   [P : list (list (list Z))] gives, for each file/task t (its index is its
   source id = its path), the payloads of the results its search produces,
   in the order the search produces them, grouped into the batches in which
   they happen to be transferred.  The grouping is irrelevant to the spec:
   searching file t alone, in-process, returns exactly [results P t] under
   path t and nothing under any other path. *)
From Coq Require Import ZArith List Bool Arith.
From SK Require Import Model.Base Model.Pipeline.
Import ListNotations.
Open Scope Z_scope.

(* the results of file t, in order, each carrying source id t *)
Definition results (P : list (list (list Z))) (t : nat) : list result :=
  map (pair t) (concat (nth t P [])).

(* the collection returned by searching file t alone (single-file runs go
   through put_result -> results_collection.add directly, no queue) *)
Definition sequential (P : list (list (list Z))) (t : nat) : coll :=
  add_batch (results P t) [].

(* number of results all files produce together *)
Definition total_results (P : list (list (list Z))) : Z :=
  sumZ (fun bs => lenZ (concat bs)) P.

(* THE property: under every path the parallel run's collection holds what
   the sequential search of that file alone holds - same results, same
   order, same values; hence nothing lost, duplicated or misfiled *)
Definition same_as_sequential (P : list (list (list Z))) (c : coll) : Prop :=
  forall t, find_by_path t c = find_by_path t (sequential P t).

(* every result stored under path p was produced by file p *)
Definition well_filed (c : coll) : Prop :=
  forall p, Forall (fun r => src r = p) (find_by_path p c).

(* fairness of an infinite schedule (hypothesis about the OS scheduler, not
   provable): whenever the run has not returned, some later scheduled action
   is enabled at the time it is scheduled *)
Definition fair (Q : Z) (sigma : nat -> action) (s0 : gstate) : Prop :=
  forall n, ph (run_n Q sigma n s0) <> Returned ->
  exists m, (n <= m)%nat /\ step Q (run_n Q sigma m s0) (sigma m) <> None.
