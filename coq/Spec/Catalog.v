(* C09 - specification: which regular files a registration searches.

   A name is a ROTATED COPY  stem.log.N  or  stem.log.N.gz  (stem non-empty,
   N a non-empty run of ASCII digits); every other name (live logs name.log,
   plain files, x.login, x.log.tar.gz, x.log.1.g ...) is ordinary. *)
From Coq Require Import ZArith List Bool.
From SK Require Import Model.Catalog.   (* str, basic string functions only *)
Import ListNotations.
Open Scope Z_scope.

Definition dotgz : str := [46; 103; 122].                (* ".gz" *)

(* declarative reading *)
Definition is_rotated (x stem : str) (n : Z) : Prop :=
  exists d, d <> [] /\ forallb is_digit d = true /\ stem <> [] /\
            n = digits_val d /\
            (x = stem ++ dotlogdot ++ d \/ x = stem ++ dotlogdot ++ d ++ dotgz).

(* executable reading: Some (stem, N) for a rotated copy *)
Definition rotated (x : str) : option (str * Z) :=
  let r := rev x in
  let r' := if starts_with (rev dotgz) r then skipn 3 r else r in
  let '(drev, rest) := span_digits r' in
  if nonempty drev && starts_with (rev dotlogdot) rest && nonempty (skipn 5 rest)
  then Some (rev (skipn 5 rest), digits_val (rev drev))
  else None.

Definition rotated_of (stem : str) (x : str) : bool :=
  match rotated x with Some (s, _) => str_eqb s stem | None => false end.

Definition count_of (stem : str) (l : list str) : Z :=
  Z.of_nat (length (filter (rotated_of stem) l)).

(* [files] = the regular files a path denotes (sub-directories and anything
   else os.path.isfile rejects are not in it); [K] = what gets searched *)
Record kept (files : list str) (depth : Z) (K : list str) : Prop := {
  (* only denoted regular files, each at most once *)
  k_sub : forall x, In x K -> In x files;
  k_nodup : NoDup K;
  (* live logs, non-logs, names with extra dots: always *)
  k_ordinary : forall x, In x files -> rotated x = None -> In x K;
  (* per log: exactly min(depth, n) of its n rotated copies ... *)
  k_count : forall stem,
      count_of stem K = Z.min depth (count_of stem files);
  (* ... and they are the lowest-numbered ones (ties are free) *)
  k_lowest : forall x y stem nx ny,
      In x K -> In y files -> ~ In y K ->
      rotated x = Some (stem, nx) -> rotated y = Some (stem, ny) -> nx <= ny }.

(* regular files of a listing *)
Definition regular (contents : list (str * bool)) : list str :=
  map fst (filter snd contents).

(* occurrences of a path in the expansions of the registrations of search d *)
Definition occurrences (path : str) (regs : list (Z * list str)) : list Z :=
  flat_map (fun r => map (fun _ => fst r)
                         (filter (str_eqb path) (snd r))) regs.
