(* C14 - specification vocabulary: the ONE multiset of results behind every
   view of a SearchResultsCollection, and the side conditions under which the
   sequence lookups partition it. *)
From Coq Require Import ZArith List Bool.
From SK Require Import Model.Collection.
Import ListNotations.
Open Scope Z_scope.

(* The population: every result ever passed to add(), in arrival order,
   paired with the path its source id resolves to. *)
Definition arrivals (cat : catalog) (batches : list (list result))
  : list (Z * result) :=
  map (fun r => (resolve cat (src r), r)) (concat batches).

(* the sub-population of one path, in arrival order *)
Definition on_path (pop : list (Z * result)) (p : Z) : list result :=
  map snd (filter (fun e => fst e =? p) pop).

(* collections that can exist: the empty one and whatever add() makes of it *)
Inductive reachable (cat : catalog) : coll -> Prop :=
| reach_empty : reachable cat []
| reach_add c batch : reachable cat c -> reachable cat (add cat c batch).

(* (path, result) pairs held by a collection *)
Definition flat (c : coll) : list (Z * result) :=
  flat_map (fun e => map (pair (fst e)) (snd e)) c.

(* what a lookup with optional path argument ranges over *)
Definition base (c : coll) (p : Z) : list result :=
  if truthy p then find_by_path c p else all c.

(* the collection restricted to one path *)
Definition restrict (c : coll) (p : Z) : coll :=
  filter (fun e => fst e =? p) c.

(* r belongs to one of the definitions ds *)
Definition in_defs (ds : list Z) (r : result) : bool :=
  match seq r with Some d => existsb (Z.eqb d) ds | None => false end.

(* r belongs to section k of definition d *)
Definition sec_is (d : Z) (k : option Z) (r : result) : bool :=
  seq_is d r && oz_eqb (section r) k.

(* uuid4 uniqueness, as far as one lookup needs it: among the results of the
   definitions [ds], a section id belongs to one definition *)
Definition defs_sections_unique (ds : list Z) (rs : list result) : Prop :=
  forall r1 r2, In r1 rs -> In r2 rs ->
    in_defs ds r1 = true -> in_defs ds r2 = true ->
    section r1 = section r2 -> seq r1 = seq r2.

(* uuid4 uniqueness for the whole collection: a section id is used by one
   (file, definition) pair *)
Definition fresh_sections (c : coll) : Prop :=
  forall p1 r1 p2 r2, In (p1, r1) (flat c) -> In (p2, r2) (flat c) ->
    is_seq r1 = true -> is_seq r2 = true ->
    section r1 = section r2 -> p1 = p2 /\ seq r1 = seq r2.

(* executable version (used for the non-vacuity example and by the harness) *)
Definition fresh_sections_b (c : coll) : bool :=
  forallb (fun a =>
    forallb (fun b =>
      if is_seq (snd a) && is_seq (snd b)
         && oz_eqb (section (snd a)) (section (snd b))
      then (fst a =? fst b) && oz_eqb (seq (snd a)) (seq (snd b))
      else true) (flat c)) (flat c).

Definition sumZ (l : list Z) : Z := fold_right Z.add 0 l.
