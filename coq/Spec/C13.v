(* C13 - what run() may do on arbitrary content. *)
From Coq Require Import ZArith List Bool.
Import ListNotations.

Inductive outcome (R : Type) :=
| Returns (r : R)          (* results of the line-by-line reading *)
| RaisesDecode.            (* UnicodeDecodeError *)
Arguments Returns {R}. Arguments RaisesDecode {R}.

(* [valid] : is the line valid UTF-8; [searched] : the lines from the
   position the file-level constraint left the file at *)
Definition spec_outcome {L R} (strict : bool) (valid : L -> bool)
           (reading : list L -> R) (searched : list L) : outcome R :=
  if strict && negb (forallb valid searched) then RaisesDecode
  else Returns (reading searched).
