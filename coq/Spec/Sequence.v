(* C03 - specification: the complete sections of a line-by-line reading.

   Written from the property text, independently of the code: a small
   recursive parser over the classified lines.  It knows nothing about
   section ids, result lists, removal or filtering. *)
From Coq Require Import ZArith List Bool.
From SK Require Import Model.Sequence.   (* only the data: shape, cline, role, item *)
Import ListNotations.
Open Scope Z_scope.

Definition hit := (Z * Z)%type.            (* line number, captured payload *)

(* a complete section *)
Record section := {
  sec_start : hit;
  sec_body : list hit;                     (* in line order *)
  sec_end : option hit                     (* None: definition without end *)
}.

(* a section that has been opened and not yet closed: its start and the
   body matches seen so far *)
Definition osec := (hit * list hit)%type.

Definition close (o : osec) (e : option hit) : section :=
  {| sec_start := fst o; sec_body := snd o; sec_end := e |}.

(* a body match belongs to the open section (only if a body is defined) *)
Definition with_body (sh : shape) (o : osec) (ln : Z) (c : cline) : osec :=
  if has_body sh then
    match c_body c with
    | Some v => (fst o, snd o ++ [(ln, v)])
    | None => o
    end
  else o.

(* what line number [ln] does: the sections it completes and the section
   that is open afterwards *)
Definition on_line (sh : shape) (open : option osec) (ln : Z) (c : cline)
  : list section * option osec :=
  match open, c_start c with
  | None, Some v => ([], Some ((ln, v), []))        (* a section opens *)
  | None, None => ([], None)
  | Some o, Some v =>
      if has_end sh
      then ([], Some ((ln, v), []))       (* restart: only the open section is discarded *)
      else ([close o None], Some ((ln, v), []))     (* the next start closes *)
  | Some o, None =>
      if has_end sh then
        match c_end c with
        | Some e => ([close o (Some (ln, e))], None)      (* the end closes *)
        | None => ([], Some (with_body sh o ln c))
        end
      else ([], Some (with_body sh o ln c))
  end.

(* read the lines numbered ln, ln+1, ...: sections closed by a line, the
   section still open at the end and the number one past the last line *)
Fixpoint scan (sh : shape) (open : option osec) (ln : Z) (l : list cline)
  : list section * option osec * Z :=
  match l with
  | [] => ([], open, ln)
  | c :: r =>
      let '(out, open') := on_line sh open ln c in
      let '(rest, fin, n) := scan sh open' (ln + 1) r in
      (out ++ rest, fin, n)
  end.

(* end of file, [n] = one past the last line: without an end the open
   section is complete; with an end only if the end pattern matches the
   empty string (end numbered n), otherwise it is dropped *)
Definition at_eof (sh : shape) (n : Z) (open : option osec) : list section :=
  match open with
  | None => []
  | Some o =>
      if has_end sh then
        match end_empty sh with
        | Some v => [close o (Some (n, v))]
        | None => []
        end
      else [close o None]
  end.

(* THE specification: the complete sections of a file *)
Definition sections (sh : shape) (l : list cline) : list section :=
  let '(closed, fin, n) := scan sh None 1 l in closed ++ at_eof sh n fin.

(* the sections completed by a line of [l] (not by the end of file) *)
Definition closed_sections (sh : shape) (l : list cline) : list section :=
  fst (fst (scan sh None 1 l)).

(* a section as the user sees it: start, body matches, end - in this order *)
Definition section_items (s : section) : list item :=
  [(fst (sec_start s), RStart, snd (sec_start s))]
  ++ map (fun h => (fst h, RBody, snd h)) (sec_body s)
  ++ match sec_end s with
     | Some e => [(fst e, REnd, snd e)]
     | None => []
     end.

Definition spec_report (sh : shape) (l : list cline) : list (list item) :=
  map section_items (sections sh l).

(* line numbers of an item list are strictly increasing *)
Fixpoint increasing (l : list Z) : Prop :=
  match l with
  | [] => True
  | x :: r => match r with [] => True | y :: _ => x < y end /\ increasing r
  end.

Definition item_ln (i : item) : Z := fst (fst i).
