(* C01 / C07 - specification of what a single-line search reports for one
   file.  Independent of the task loop: no buffers, no flags, no other
   definitions.  (Shares only the record types with Model/Task.v.) *)
From Coq Require Import ZArith List Bool.
From SK Require Import Model.Task.
Import ListNotations.
Open Scope Z_scope.

(* enumerate(lines, start=i) *)
Fixpoint enum {A} (i : Z) (ls : list A) : list (Z * A) :=
  match ls with
  | [] => []
  | l :: r => (i, l) :: enum (i + 1) r
  end.

Section Spec.
  Variable line : Type.
  Variable omatch : Z -> line -> option (list Z).  (* re.match, as group ids *)
  Variable ohint : Z -> line -> bool.              (* re.search of the hint *)
  Variable ocon : Z -> line -> outcome.            (* constraint on a line *)

  (* the groups of the FIRST pattern of the list that matches the line, and
     only if the optional hint occurs in the line *)
  Definition spec_hit (d : sdef) (l : line) : option (list Z) :=
    let hint_ok := match s_hint d with None => true | Some h => ohint h l end in
    if hint_ok then
      hd_error (flat_map (fun p => match omatch p l with
                                   | Some g => [g] | None => [] end)
                         (s_pats d))
    else None.

  (* captures: groups 1..n, the whole match (part 0) when the pattern has no
     groups, nothing when store_result_contents is off.
     g = whole match :: groups *)
  Definition spec_parts (d : sdef) (g : list Z) : list (Z * Z) :=
    if s_store d then
      match tl g with
      | [] => combine [0] g
      | gs => combine (map Z.of_nat (seq 1 (length gs))) gs
      end
    else [].

  (* one (line number, captures) per matching line, in line order *)
  Definition spec_simple_from (d : sdef) (i : Z) (lines : list line)
    : list (Z * list (Z * Z)) :=
    flat_map (fun il => match spec_hit d (snd il) with
                        | Some g => [(fst il, spec_parts d g)]
                        | None => []
                        end)
             (enum i lines).

  Definition spec_simple (d : sdef) (lines : list line) :=
    spec_simple_from d 1 lines.

  (* ---- C07: the search's own constraints ---- *)
  (* the line's timestamp satisfies all of the constraints *)
  Definition all_pass (cs : list Z) (l : line) : bool :=
    forallb (fun c => is_pass (ocon c l)) cs.

  (* index (from 0) of the first such line; = length lines when there is none *)
  Fixpoint active_from (cs : list Z) (lines : list line) : nat :=
    match lines with
    | [] => O
    | l :: r => if all_pass cs l then O else S (active_from cs r)
    end.

  (* the lines a constrained search sees: everything from the activation line
     on, numbered as in the file *)
  Definition visible_spec {A} (cs : list Z) (lines : list line)
             (numbered : list (Z * A)) : list (Z * A) :=
    skipn (active_from cs lines) numbered.

  Definition spec_constrained (d : sdef) (lines : list line)
    : list (Z * list (Z * Z)) :=
    let k := active_from (s_cons d) lines in
    spec_simple_from d (1 + Z.of_nat k) (skipn k lines).

  (* "undecidedness is a property of the line": on a given line either every
     constraint of the search can read the timestamp or none can (always true
     for one constraint, and for several constraints sharing one timestamp
     matcher) *)
  Definition uniform_line (cs : list Z) (l : line) : bool :=
    forallb (fun c => is_und (ocon c l)) cs ||
    negb (existsb (fun c => is_und (ocon c l)) cs).
  Definition uniform (cs : list Z) (lines : list line) : Prop :=
    forall l, In l lines -> uniform_line cs l = true.
End Spec.

(* what is observable of a result: (line number, captures) *)
Definition obs (r : result) : Z * list (Z * Z) := (r_ln r, r_parts r).

(* the collector's results for definition k, in collection order *)
Definition results_for (k : Z) (rs : list result) : list result :=
  filter (fun r => r_key r =? k) rs.
