(* C16 - A line passes a since constraint iff timestamp >= current_date -
   window; the boundary instant passes; an undated line is undecidable; the
   counters count exactly the decided lines.

   Every theorem below is about the model instantiated with the three
   functions the translator regenerates from searchkit/constraints.py on
   every run: Gen.Exprs.since_init (days/hours selection of __init__),
   Gen.Exprs.since_secs (since_date) and Gen.Exprs.line_date_is_valid
   (_line_date_is_valid), and the defaults Gen.Params.SINCE_DEFAULT_*. *)
From Coq Require Import ZArith List Bool Lia.
From SK Require Import Model.Base Model.Dates Spec.Since Model.Since
     Proofs.Dates Proofs.Since Model.TsMatcher Gen.Exprs Gen.Params
     Gen.XTsmatcher.
Import ListNotations.
Open Scope Z_scope.

Notation g_mk := (mk since_init).
Notation g_apply := (apply_to_line since_secs line_date_is_valid).
Notation g_session := (session since_init since_secs line_date_is_valid).

(* ---- T1 instantiation obligations: the translated source expressions
   satisfy the two hypotheses of Proofs/Since.v ---- *)

(* __init__ + since_date: the window is days*86400 if days is non-zero (hours
   are then ignored), otherwise hours*3600 *)
Theorem C16_window_selection : forall cur days hours,
  since_secs cur (fst (since_init days hours)) (snd (since_init days hours))
  = cur - spec_window days hours.
Proof.
  intros cur days hours. unfold since_secs, since_init, spec_window.
  destruct (days =? 0) eqn:Ed; cbn [negb fst snd].
  - apply Z.eqb_eq in Ed. destruct (hours =? 0) eqn:Eh;
      [apply Z.eqb_eq in Eh|]; lia.
  - cbn [Z.eqb]. lia.
Qed.

(* _line_date_is_valid is "timestamp >= since" *)
Theorem C16_line_date_is_valid : forall ts s,
  line_date_is_valid ts s = (s <=? ts).
Proof.
  intros ts s. unfold line_date_is_valid. cbv zeta.
  destruct (ts <? s) eqn:E; [apply Z.ltb_lt in E | apply Z.ltb_ge in E];
    symmetry; [apply Z.leb_gt | apply Z.leb_le]; lia.
Qed.

(* days AND hours both given: the hours are ignored *)
Theorem C16_days_override_hours : forall cur days hours,
  days <> 0 ->
  since since_secs (g_mk cur days hours) = cur - days * 86400.
Proof.
  intros cur days hours Hd.
  rewrite (since_mk _ _ C16_window_selection). unfold spec_window.
  apply Z.eqb_neq in Hd. rewrite Hd. reflexivity.
Qed.

Theorem C16_hours_when_no_days : forall cur hours,
  since since_secs (g_mk cur 0 hours) = cur - hours * 3600.
Proof.
  intros cur hours. rewrite (since_mk _ _ C16_window_selection). reflexivity.
Qed.

(* neither given: 24 hours *)
Theorem C16_default_window : forall cur,
  since since_secs (g_mk cur SINCE_DEFAULT_DAYS SINCE_DEFAULT_HOURS)
  = cur - 86400.
Proof.
  intros cur. rewrite (since_mk _ _ C16_window_selection).
  vm_compute spec_window. reflexivity.
Qed.

(* only days given (hours left at its default) / only hours given *)
Theorem C16_default_hours_ignored_when_days : forall cur days,
  days <> 0 ->
  since since_secs (g_mk cur days SINCE_DEFAULT_HOURS) = cur - days * 86400.
Proof. intros cur days. apply C16_days_override_hours. Qed.

Theorem C16_default_days_is_zero : SINCE_DEFAULT_DAYS = 0.
Proof. vm_compute. reflexivity. Qed.

(* ---- the calendar: order of date-times = order of [secs] ---- *)
Theorem C16_ord_strictly_monotone : forall a b,
  valid_dt a = true -> valid_dt b = true ->
  (lex_lt a b <-> secs a < secs b) /\ (a = b <-> secs a = secs b).
Proof. exact ord_strictly_monotone_lemma. Qed.

Theorem C16_secs_range : forall t,
  valid_dt t = true ->
  secs (DT 1 1 1 0 0 0) <= secs t <= secs (DT 9999 12 31 23 59 59).
Proof. exact secs_range. Qed.

(* ---- the property ---- *)

(* the whole behaviour (since instant, outcome of every line, counters) is
   the specification's *)
Theorem C16_session_refines_spec : forall cur days hours lines,
  g_session cur days hours lines =
  (secs cur - spec_window days hours,
   map (spec_outcome (secs cur) days hours) lines,
   spec_pass_count (secs cur) days hours lines,
   spec_fail_count (secs cur) days hours lines).
Proof.
  exact (session_spec _ _ _ C16_window_selection C16_line_date_is_valid).
Qed.

Theorem C16_passes_iff : forall cur days hours t,
  valid_dt t = true ->
  let o := fst (g_apply (g_mk (secs cur) days hours) (Some t)) in
  (o = Pass <-> secs cur - spec_window days hours <= secs t) /\
  (o = Fail <-> secs t < secs cur - spec_window days hours).
Proof.
  exact (passes_iff_lemma _ _ _ C16_window_selection C16_line_date_is_valid).
Qed.

(* in calendar terms: b being the date-time current_date - window, a dated
   line passes iff its timestamp is not before b *)
Theorem C16_passes_iff_calendar : forall cur days hours b t,
  valid_dt t = true -> valid_dt b = true ->
  secs b = secs cur - spec_window days hours ->
  (fst (g_apply (g_mk (secs cur) days hours) (Some t)) = Pass
   <-> ~ lex_lt t b).
Proof.
  exact (passes_iff_calendar_lemma _ _ _ C16_window_selection
           C16_line_date_is_valid).
Qed.

Theorem C16_boundary_passes : forall cur days hours t,
  valid_dt t = true ->
  let o := fst (g_apply (g_mk (secs cur) days hours) (Some t)) in
  (secs t = secs cur - spec_window days hours -> o = Pass) /\
  (secs t = secs cur - spec_window days hours - 1 -> o = Fail) /\
  (secs t = secs cur - spec_window days hours + 1 -> o = Pass).
Proof.
  exact (boundary_lemma _ _ _ C16_window_selection C16_line_date_is_valid).
Qed.

(* no pattern matched, or the matched fields are no real date: undecidable,
   counters (the whole state) unchanged *)
Theorem C16_undated_is_undecided : forall st line,
  decided line = None -> g_apply st line = (Undecided, st).
Proof. exact (undated_lemma since_secs line_date_is_valid). Qed.

Theorem C16_counters_count_decided : forall cur days hours lines,
  let '(_, outs, p, f) := g_session cur days hours lines in
  p + f = spec_decided_count lines /\
  p = countb (fun l => match decided l with
                       | Some t => secs cur - spec_window days hours <=? t
                       | None => false end) lines /\
  p = countb is_pass outs /\ f = countb is_fail outs /\
  length outs = length lines.
Proof.
  exact (counters_lemma _ _ _ C16_window_selection C16_line_date_is_valid).
Qed.

(* ---- the per-line method bodies themselves (Gen/XTsmatcher.v, re-extracted
   from the source on every run by translator/plugins/tsmatcher.py) ---- *)

(* apply_to_line, as a decision tree over (since_date valid?, timestamp
   extracted?, _line_date_is_valid?) with the counter updates on each path,
   does exactly what the model's apply_to_line does: the answer, and
   _line_pass / _line_fail bumped once on the passing / failing path and
   never on the undecidable one *)
Theorem C16_apply_to_line_program : forall st line,
  let ts := extracted_datetime line in
  let ok := match ts with
            | Some t => line_date_is_valid t (since since_secs st)
            | None => false
            end in
  tree_outcome (eval_atree true (match ts with Some _ => true | None => false
                                 end) ok x_apply_to_line)
  = Some (is_decided (fst (g_apply st line)), is_pass (fst (g_apply st line)),
          c_pass (snd (g_apply st line)) - c_pass st,
          c_fail (snd (g_apply st line)) - c_fail st).
Proof.
  intros st line. unfold apply_to_line. cbv zeta.
  destruct (extracted_datetime line) as [t|].
  - destruct (line_date_is_valid t (since since_secs st)); cbn;
      repeat f_equal; lia.
  - cbn. repeat f_equal; lia.
Qed.

(* without a since date the line is undecidable too, nothing is counted *)
Theorem C16_apply_to_line_invalid : forall has_ts ok,
  tree_outcome (eval_atree false has_ts ok x_apply_to_line)
  = Some (false, false, 0, 0).
Proof. intros has_ts ok. reflexivity. Qed.

(* stats()['line'] reports _line_pass as 'pass' and _line_fail as 'fail' *)
Theorem C16_stats_line : forall p f, x_stats_line p f = (p, f).
Proof. intros p f. reflexivity. Qed.

(* _is_valid holds whenever since_date could be computed; current_date is
   read in the matcher class's own DEFAULT_DATETIME_FORMAT *)
Theorem C16_is_valid_and_format : forall (A B : Type) (s : A) (c b : B),
  x_is_valid (Some s) = true /\ x_is_valid (@None A) = false /\
  x_date_format true c b = c.
Proof. intros A B s c b. repeat split. Qed.

(* since_date / apply_to_line of the base classes are abstract: the only
   implementations are the ones translated above *)
Theorem C16_base_methods_abstract :
  x_since_date_abstract = true /\ x_apply_to_line_abstract = true.
Proof. split; reflexivity. Qed.

(* ---- non-vacuity ---- *)

(* leap-day boundary: one day before 2024-03-01 00:00:00 is 2024-02-29
   00:00:00 (and 2023-03-01 - 1 day is 2023-02-28, 1900 is no leap year, 2000
   is); the boundary instant passes, the second before fails *)
Example C16_example_leap_boundary :
  let cur := DT 2024 3 1 0 0 0 in
  secs (DT 2024 2 29 0 0 0) = secs cur - spec_window 1 24 /\
  valid_dt (DT 2024 2 29 0 0 0) = true /\
  valid_dt (DT 2023 2 29 0 0 0) = false /\
  valid_dt (DT 1900 2 29 0 0 0) = false /\
  valid_dt (DT 2000 2 29 0 0 0) = true /\
  secs (DT 1900 2 28 0 0 0) = secs (DT 1900 3 1 0 0 0) - spec_window 1 0 /\
  g_session cur 1 24
    [Some (DT 2024 2 29 0 0 0); Some (DT 2024 2 28 23 59 59);
     Some (DT 2024 2 29 0 0 1); None; Some (DT 2024 2 30 0 0 0);
     Some (DT 2024 3 1 0 0 0)]
  = (secs (DT 2024 2 29 0 0 0),
     [Pass; Fail; Pass; Undecided; Undecided; Pass], 3, 1).
Proof. vm_compute. repeat split; reflexivity. Qed.

(* window selection on concrete arguments: days given -> hours ignored;
   days = 0 -> hours; defaults -> 24 h; year boundary *)
Example C16_example_windows :
  since since_secs (g_mk (secs (DT 2024 1 1 0 0 0)) 7 1000)
    = secs (DT 2023 12 25 0 0 0) /\
  since since_secs (g_mk (secs (DT 2024 1 1 0 0 0)) 0 25)
    = secs (DT 2023 12 30 23 0 0) /\
  since since_secs (g_mk (secs (DT 2024 1 1 0 0 0)) SINCE_DEFAULT_DAYS
                         SINCE_DEFAULT_HOURS)
    = secs (DT 2023 12 31 0 0 0) /\
  since since_secs (g_mk (secs (DT 2001 3 1 0 0 0)) 400 0)
    = secs (DT 2000 1 26 0 0 0) /\
  since since_secs (g_mk (secs (DT 2024 1 1 0 0 0)) 0 0)
    = secs (DT 2024 1 1 0 0 0).
Proof. vm_compute. repeat split; reflexivity. Qed.

(* the hypotheses of C16_ord_strictly_monotone / C16_passes_iff_calendar are
   satisfiable across a century leap day and a year boundary *)
Example C16_example_order :
  valid_dt (DT 2000 2 29 23 59 59) = true /\
  valid_dt (DT 2000 3 1 0 0 0) = true /\
  lex_lt (DT 2000 2 29 23 59 59) (DT 2000 3 1 0 0 0) /\
  secs (DT 2000 3 1 0 0 0) = secs (DT 2000 2 29 23 59 59) + 1 /\
  secs (DT 2000 1 1 0 0 0) = secs (DT 1999 12 31 23 59 59) + 1 /\
  secs (DT 1 1 1 0 0 0) = 86400.
Proof.
  repeat split; try (vm_compute; reflexivity).
  unfold lex_lt. cbn. lia.
Qed.

Print Assumptions C16_window_selection.
Print Assumptions C16_line_date_is_valid.
Print Assumptions C16_days_override_hours.
Print Assumptions C16_default_window.
Print Assumptions C16_ord_strictly_monotone.
Print Assumptions C16_secs_range.
Print Assumptions C16_session_refines_spec.
Print Assumptions C16_passes_iff.
Print Assumptions C16_passes_iff_calendar.
Print Assumptions C16_boundary_passes.
Print Assumptions C16_undated_is_undecided.
Print Assumptions C16_counters_count_decided.
Print Assumptions C16_apply_to_line_program.
Print Assumptions C16_apply_to_line_invalid.
Print Assumptions C16_stats_line.
Print Assumptions C16_is_valid_and_format.
Print Assumptions C16_base_methods_abstract.
