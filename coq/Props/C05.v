(* C05 - Values read back from results equal what was captured (the
   de-duplicating store is lossless).  Model: Model/Result.v (result.py) over
   Model/Store.v; proofs: Proofs/Result.v.

   [make_result] = SearchResult(...) (one _save_part per group, i.e. one
   store.add per group) followed by .export (metadata).  [readback_spec lk ..
   m] lists every accessor of the exported SearchResultMinimal [m] read
   through the lookup [lk]: get by group index, get by field name,
   attribute access, iteration, tag, sequence_id - each equal to the capture
   after the declared cast ([expected_value], defined independently of the
   code path), None for groups that did not take part, AttributeError for
   unknown attributes.
   The store the result is created in is ANY state reachable by additions
   (C15); the reading happens after ANY further additions, and - for the
   pre-allocating store - after ANY sequence of sync merges into the shared
   store in which the syncs that follow only write other indices (which is
   what C06 guarantees for the blocks of different tasks). *)
From Coq Require Import ZArith List Bool Arith.
From SK Require Import Model.Base Model.Skel Model.Stm Model.SequenceSk
     Model.Store Model.StoreSk Spec.Store Proofs.Store
     Model.Result Proofs.Result Gen.Params Gen.SkelTree Gen.XCatalog.
Import ListNotations.
Open Scope Z_scope.

(* ---- T1: the trees extracted from result.py have the SAME SET OF PATHS
   (sequences of calls / returns / raises along every way through the ifs;
   early return vs else, negated tests, merged ifs do not matter) as the
   ones Model/Result.v is written against:
   store_result: groups() then one _save_part per group, or group(0);
   _save_part: (value and field_info) -> index_to_name, ensure_type; then
   ONE results_store.add; then the entry appended;
   _get_store_id: one pass over the parts, name test or index test, first
   part whose store id is not None; get: _get_store_id then the store *)
Theorem C05_store_result_shape :
  same_paths (calls_only_list tk_store_result) expected_store_result = true.
Proof. vm_compute. reflexivity. Qed.

Theorem C05_save_part_shape :
  same_paths (calls_only_list tk_save_part) expected_save_part = true.
Proof. vm_compute. reflexivity. Qed.

Theorem C05_get_store_id_shape :
  same_paths (calls_only_list tk_get_store_id) expected_get_store_id = true.
Proof. vm_compute. reflexivity. Qed.

Theorem C05_result_get_shape :
  same_paths (calls_only_list tk_result_get) expected_result_get = true.
Proof. vm_compute. reflexivity. Qed.

(* ---- T1, the rest of result.py ---------------------------------------- *)
(* SearchResult.__init__: every write, raise, return and call in order (reads
   erased): sequence_id is assigned - None, then the definition's sequence id
   for a sequence part - BEFORE the store_result_contents early return;
   store_result comes last *)
Theorem C05_result_init_shape :
  no_reads_list tk_result_init = expected_result_init.
Proof. vm_compute. reflexivity. Qed.

(* ... and walked with the model's conditions (each test reading exactly the
   attribute it is about): a sequence part without section id raises; else
   the sequence id is set iff the definition is a sequence part - whether or
   not contents are stored - and store_result runs iff contents are stored.
   Model/Result.make_result takes [sq] and [store_contents] independently *)
Theorem C05_result_init_is_tree : forall is_seq_part section_given store_contents,
  run_result_init tk_result_init is_seq_part section_given store_contents
  = Some (init_model is_seq_part section_given store_contents).
Proof. intros [] [] []; vm_compute; reflexivity. Qed.

(* metadata: ONE results_store.add(self.tag, self.sequence_id, None) on every
   evaluation, unconditionally - the references are positions in THIS
   store, nothing is remembered on the definition or anywhere else *)
Theorem C05_metadata_tree : tk_result_metadata = expected_result_metadata.
Proof. vm_compute. reflexivity. Qed.

(* export: a SearchResultMinimal of the parts, that metadata, line, source,
   section and field info *)
Theorem C05_export_tree : tk_result_export = expected_result_export.
Proof. vm_compute. reflexivity. Qed.

Theorem C05_result_base_init_tree :
  tk_result_base_init = expected_result_base_init.
Proof. vm_compute. reflexivity. Qed.

(* __iter__: one store.get per part, in order (Model.Result.iter) *)
Theorem C05_iter_tree : tk_result_iter = expected_result_iter.
Proof. vm_compute. reflexivity. Qed.

Theorem C05_minimal_init_tree : tk_minimal_init = expected_minimal_init.
Proof. vm_compute. reflexivity. Qed.

(* __getattr__ (Model.Result.getattr): declared field names -> get(name),
   anything else AttributeError *)
Theorem C05_getattr_tree :
  same_paths (calls_only_list tk_minimal_getattr)
             (calls_only_list expected_minimal_getattr) = true.
Proof. vm_compute. reflexivity. Qed.

(* tag / sequence_id (Model.Result.tag_of / seq_of): the metadata slot, one
   test, then store.get; the test is `idx is None` (statement shape
   recognised by translator/plugins/catalog.py) *)
Theorem C05_tag_tree :
  tk_minimal_tag = expected_minimal_meta /\
  tk_minimal_sequence_id = expected_minimal_meta /\
  x_result_meta_none_iff_slot_none = true.
Proof. vm_compute. repeat split. Qed.

Theorem C05_register_results_store_tree :
  tk_register_results_store = expected_register_results_store.
Proof. vm_compute. reflexivity. Qed.

(* in-process search (ResultStoreSimple) *)
Theorem C05_readback_exact_plain :
  forall cast ops s rets tag sq fi groups whole,
  run init_plain ops = Ok (s, rets) -> NoDup (map fst (fields_of fi)) ->
  (forall j g, nth_error groups j = Some g -> covered fi (gidx j) g) ->
  (groups = [] -> fields_of fi = []) ->
  exists s' m,
    make_result cast s tag sq fi true groups whole = ROk (s', m) /\
    forall ops2 s2 r2, run s' ops2 = Ok (s2, r2) ->
      readback_spec (lookup s2) cast fi tag sq groups whole m.
Proof. exact readback_exact_plain. Qed.

(* worker processes (local pre-allocating stores merged by sync) *)
Theorem C05_readback_exact_parallel :
  forall cast bsize start ops s rets tag sq fi groups whole,
  1 <= bsize -> increasing_blocks bsize start ->
  run (init_pre bsize start) ops = Ok (s, rets) ->
  NoDup (map fst (fields_of fi)) ->
  (forall j g, nth_error groups j = Some g -> covered fi (gidx j) g) ->
  (groups = [] -> fields_of fi = []) ->
  exists s' m,
    make_result cast s tag sq fi true groups whole = ROk (s', m) /\
    forall ops2 s2 r2, run s' ops2 = Ok (s2, r2) ->
      readback_spec (lookup s2) cast fi tag sq groups whole m /\
      forall before after sh0,
        (forall l2 i, In l2 after -> dmem i (data s2) = true ->
                      dget i (data l2) = None) ->
        readback_spec (sh_lookup (unproxy (sync_all (before ++ s2 :: after) sh0)))
                      cast fi tag sq groups whole m.
Proof. exact readback_exact_pre. Qed.

(* outside the hypothesis [covered]: a matched group beyond the declared
   fields is a configuration error, reported as FileSearchException *)
Theorem C05_more_groups_than_fields_raises :
  forall cast s tag sq f0 f pidx r,
  index_to_name (f0 :: f) (pidx - 1) = None ->
  save_part cast s tag sq (Some (f0 :: f)) pidx (Some r) = RErrField.
Proof. exact save_part_field_error. Qed.

Theorem C05_default_block_size : 1 <= PREALLOC_BLOCK_SIZE.
Proof. vm_compute. discriminate. Qed.

(* non-vacuity: fields (10 typed, 11 untyped), three groups of which the
   second did not take part, the third has no field -> not [covered]; with
   two groups: a value equal to the tag (9) shares the tag's index *)
Example C05_example :
  let cast := fun nm r => r + 100 in
  let fi := Some [(10, true); (11, false)] in
  match make_result cast init_plain (Some 9) None fi true [Some 9; None] 0 with
  | ROk (s, m) =>
      m_data m = [(1, Some 0, Some 10); (2, None, None)] /\
      m_meta m = (Some 1, None) /\
      get (lookup s) m (FIdx 1) = Val (Some 109) /\
      get (lookup s) m (FName 10) = Val (Some 109) /\
      get (lookup s) m (FIdx 2) = Val None /\
      get (lookup s) m (FName 11) = Val None /\
      iter (lookup s) m = [Some 109; None] /\
      getattr (lookup s) m 10 = Val (Some 109) /\
      getattr (lookup s) m 12 = AttrErr /\
      tag_of (lookup s) m = Some 9 /\ seq_of (lookup s) m = None
  | _ => False
  end /\
  make_result (fun _ r => r) init_plain (Some 9) (Some 4) None true
              [Some 9; Some 4] 0 =
  ROk (mkStore [(0, 9); (1, 4)] [(9, 0); (4, 1)] [(9, 0)] [(4, 1)]
               false 1000 None (fun _ => 0) 0,
       mkMin [(1, Some 0, None); (2, Some 1, None)] (Some 0, Some 1) None) /\
  make_result cast init_plain None None fi true [Some 1; Some 2; Some 3] 0
  = RErrField.
Proof. vm_compute. repeat split. Qed.

Print Assumptions C05_readback_exact_plain.
Print Assumptions C05_result_init_is_tree.
Print Assumptions C05_metadata_tree.
Print Assumptions C05_readback_exact_parallel.
Print Assumptions C05_more_groups_than_fields_raises.
