(* C19 - MPCache is a per-key register shared safely by concurrent processes.

   The lock skeletons sk_cache_* come from Gen/Skeleton.v, i.e. from the
   repository's current source (translator/skeleton.py).  The theorems hold
   for EVERY number of processes, all programs and EVERY schedule (list of
   process numbers; a process blocked on a held lock does not move).

   Trusted, not proved here: fcntl locks exclude each other between
   processes; dbm.dumb behaves like the two-step-commit file abstraction of
   Model/Cache.v when accessed by one process at a time; fairness of the OS
   scheduler (no_deadlock + finite operations then give "does not block for
   ever").  __iter__/__len__ are outside the property. *)
From Coq Require Import String ZArith List Bool Arith.
From SK Require Import Model.Skel Spec.Cache Model.Cache Proofs.CacheInv
     Proofs.CacheSkel Proofs.CacheLin Proofs.CacheCheck Proofs.CacheTerm
     Model.CachePath Proofs.CachePath Gen.Skeleton Gen.XCache.
Import ListNotations.
Open Scope Z_scope.

Definition gen_sk : skels :=
  Build_skels sk_cache_get sk_cache_set sk_cache_bulk_set sk_cache_unset
              sk_cache_base_path.

(* the model of the code as it is now *)
Definition C19_model : compiler := compile gen_sk false.

(* ---- instantiation over the extracted skeletons (T1) ---------------- *)
Theorem C19_well_locked_gen : well_locked gen_sk = true.
Proof. vm_compute. reflexivity. Qed.

(* the individual ingredients, so that a failure names what moved *)
Theorem C19_get_one_section :
  one_section "cache" is_file_ev sk_cache_get = true.
Proof. vm_compute. reflexivity. Qed.
Theorem C19_set_one_section :
  one_section "cache" is_file_ev sk_cache_set = true.
Proof. vm_compute. reflexivity. Qed.
Theorem C19_bulk_set_one_section_with_loop :
  one_section "cache" is_file_ev sk_cache_bulk_set = true /\
  all_under "cache" is_loop_ev [] sk_cache_bulk_set = true.
Proof. vm_compute. split; reflexivity. Qed.
Theorem C19_unset_one_section :
  one_section "cache" is_file_ev sk_cache_unset = true.
Proof. vm_compute. reflexivity. Qed.
Theorem C19_lock_order_cache_then_global :
  count_acq "cache" sk_cache_base_path = 0%nat /\
  one_section "global" is_dir_call sk_cache_base_path = true /\
  (count_acq "global" sk_cache_get + count_acq "global" sk_cache_set +
   count_acq "global" sk_cache_bulk_set + count_acq "global" sk_cache_unset
   = 0)%nat.
Proof. vm_compute. repeat split; reflexivity. Qed.

(* ---- the theorems, for every well-locked skeleton ------------------- *)
(* (a) mutual exclusion: at most one process is between open and close of
   any per-key file, and that process holds the cache lock *)
Theorem C19_mutual_exclusion : forall sk, well_locked sk = true ->
  forall progs sched p q,
    let s := run (compile sk false) (init progs) sched in
    file_open s p -> file_open s q -> p = q /\ lockC s = Some p.
Proof. exact wl_mutex. Qed.

(* (b) linearizability with the point inside the critical section: the
   history annotated with one point per operation (placed at the release of
   the cache lock) is a legal sequential register history in point order
   ([lin_legal]: every get returns the last value written to ITS key, None
   if none / unset), and per process the events go
   Inv, Lin, Res, Inv, Lin, Res ... with the response carrying the value
   determined at the point ([bracketed]) *)
Theorem C19_linearization_points : forall sk, well_locked sk = true ->
  forall progs sched,
    ann_ok (hist (run (compile sk false) (init progs) sched)).
Proof. exact wl_ann_ok. Qed.

Theorem C19_linearizable : forall sk, well_locked sk = true ->
  forall progs sched,
    linearizable (erase (hist (run (compile sk false) (init progs) sched))).
Proof. exact wl_linearizable. Qed.

(* consistency with real time, for any history with such points: an
   operation that responded before another was invoked has its point first,
   and a point precedes its own response *)
Theorem C19_real_time_order : forall h p i a ra q j b rb,
  bracketed h ->
  before (HRes p i a ra) (HInv q j b) h ->
  In (HLin q j b rb) h ->
  before (HLin p i a ra) (HLin q j b rb) h.
Proof. exact rt_order. Qed.

Theorem C19_point_before_response : forall h p i a ra,
  bracketed h -> In (HRes p i a ra) h ->
  before (HLin p i a ra) (HRes p i a ra) h.
Proof. exact res_after_lin. Qed.

(* (c) no deadlock: from every reachable state in which some process has
   not finished, some process can move *)
Theorem C19_no_deadlock : forall sk, well_locked sk = true ->
  forall progs sched,
    let s := run (compile sk false) (init progs) sched in
    (exists p, ~ finished (procs s p)) ->
    exists q, step (compile sk false) s q <> None.
Proof. exact wl_no_deadlock. Qed.

(* (d) no operation fails: no point / response carries RFail *)
Theorem C19_no_op_fails : forall sk, well_locked sk = true ->
  forall progs sched,
    no_fail (hist (run (compile sk false) (init progs) sched)).
Proof. exact wl_no_op_fails. Qed.

(* the same, stated for the code as it is now *)
Theorem C19_current_code : forall progs sched,
  let s := run C19_model (init progs) sched in
  ann_ok (hist s) /\ no_fail (hist s) /\
  (forall p q, file_open s p -> file_open s q -> p = q) /\
  ((exists p, ~ finished (procs s p)) -> exists q, step C19_model s q <> None).
Proof.
  intros progs sched s. pose proof C19_well_locked_gen as W. repeat split.
  - apply (wl_ann_ok gen_sk W).
  - apply (wl_ann_ok gen_sk W).
  - apply (wl_no_op_fails gen_sk W).
  - intros p q Hp Hq. apply (wl_mutex gen_sk W progs sched p q Hp Hq).
  - apply (wl_no_deadlock gen_sk W).
Qed.

(* ---- MPCacheBase.__init__, paths, context manager, class layout -------- *)
(* (Gen/XCache.v, translator/plugins/cache.py: symbolic evaluation of the
   path expressions; locals and private helpers are resolved) *)

(* __init__ creates exactly the two locks the skeletons acquire *)
Theorem C19_init_creates_both_locks :
  lock_attrs = ["global_lock"; "cache_lock"]%string \/
  lock_attrs = ["cache_lock"; "global_lock"]%string.
Proof. vm_compute. auto. Qed.

(* processes that agree on global_path (and cache_id) use the SAME lock
   files, whatever else differs (cache_type, key, hash seed, pid ...) *)
Theorem C19_lock_files_shared : forall e e',
  e "global_path"%string = e' "global_path"%string ->
  e "cache_id"%string = e' "cache_id"%string ->
  inst e lock_path_cache_lock = inst e' lock_path_cache_lock /\
  inst e lock_path_global_lock = inst e' lock_path_global_lock.
Proof.
  intros e e' Hg Hi. split.
  - apply vars_in_inst with (vs := ["global_path"; "cache_id"]%string);
      [vm_compute; reflexivity|].
    intros v [<-|[<-|[]]]; assumption.
  - apply vars_in_inst with (vs := ["global_path"]%string);
      [vm_compute; reflexivity|].
    intros v [<-|[]]; assumption.
Qed.

(* the two locks are different files - unless the cache is called
   "all_global" (boundary: then cache lock and global lock coincide) *)
Theorem C19_lock_files_distinct : forall e,
  e "cache_id"%string <> "all_global"%string ->
  inst e lock_path_cache_lock <> inst e lock_path_global_lock.
Proof.
  intros e Hn E. apply Hn.
  unfold lock_path_cache_lock, lock_path_global_lock in E.
  cbn [inst map inst_comp inst_atom] in E.
  inversion E as [[H]].
  change "all_global.lock"%string
    with (String.append "all_global" ".lock") in H.
  apply append_inv_tail in H. exact H.
Qed.

(* all four operations open the same file for the same key ... *)
Theorem C19_db_paths_agree :
  ppath_eqb db_path_get db_path_set = true /\
  ppath_eqb db_path_get db_path_bulk_set = true /\
  ppath_eqb db_path_get db_path_unset = true /\
  ppath_eqb db_path_get (base_path ++ [[PVar "key"]])%list = true.
Proof. vm_compute. repeat split; reflexivity. Qed.

(* ... different keys get different files (no foreign key's value) ... *)
Theorem C19_db_path_injective_in_key : forall e k1 k2,
  inst (set_var e "key" k1) db_path_get = inst (set_var e "key" k2) db_path_get
  -> k1 = k2.
Proof.
  intros e k1 k2. apply whole_var_injective. vm_compute. reflexivity.
Qed.

(* ... the file depends on nothing but (global_path, cache_type, cache_id,
   key): every process computes the same file ... *)
Theorem C19_db_path_shared : forall e e',
  (forall v, In v ["global_path"; "cache_type"; "cache_id"; "key"]%string ->
             e v = e' v) ->
  inst e db_path_get = inst e' db_path_get.
Proof.
  intros e e'. apply vars_in_inst. vm_compute. reflexivity.
Qed.

(* ... and a db file is never a lock file *)
Theorem C19_db_file_is_not_a_lock_file : forall e e',
  inst e db_path_get <> inst e' lock_path_cache_lock /\
  inst e db_path_get <> inst e' lock_path_global_lock.
Proof.
  intros e e'. split; intros E; vm_compute in E; inversion E.
Qed.

(* `with cache:` does nothing: __enter__ returns self, neither __enter__ nor
   __exit__ touches a lock, a record or a file *)
Theorem C19_context_manager_is_noop :
  enter_returns_self = true /\
  existsb touches_shared sk_cache_enter = false /\
  existsb touches_shared sk_cache_exit = false /\
  existsb touches_shared sk_cache_base_exit = false.
Proof. vm_compute. repeat split; reflexivity. Qed.

(* the abstract interface has no behaviour of its own and MPCacheSimple
   implements all of it; MPCache (the default type) is MPCacheSimple with
   nothing overridden - so the modelled methods are the ones that run *)
Theorem C19_interface_fully_implemented :
  forallb (fun m => existsb (String.eqb m) simple_methods) abstract_methods
    = true /\
  forallb (fun m => existsb (String.eqb m) simple_methods)
          ["get"; "set"; "bulk_set"; "unset"]%string = true /\
  simple_bases = ["MPCacheBase"]%string /\
  mpcache_bases = ["MPCacheSimple"]%string /\
  mpcache_own_methods = [].
Proof. vm_compute. repeat split; reflexivity. Qed.

(* the open-retry handler of get is bounded (it is dead code where dbm.gnu
   does not exist; the model never takes it) *)
Theorem C19_get_retry_bounded :
  0 <= GET_MAX_OPEN_RETRY /\ 0 <= GET_RETRY_SLEEP.
Proof. vm_compute. split; discriminate. Qed.

(* ---- the executable checker used on observed histories is sound ------ *)
(* T2-facing: every chronological history the harness accepts through
   Spec.Cache.lin_ok (well-formed + lin_check) inside Coq is linearizable in
   the Prop sense (an annotation with legal, bracketed points exists).
   Completeness (linearizable -> lin_ok) is NOT proved; it is cross-checked
   against the exact python checker on every history of every run. *)
Theorem C19_checker_sound : forall chron,
  lin_ok chron = true -> linearizable (rev chron).
Proof. exact lin_ok_sound. Qed.

(* ---- termination ------------------------------------------------------ *)
(* every step that is taken consumes one unit of the work left (for any
   compiler): a run in which every scheduled process was enabled is no longer
   than the initial measure *)
Theorem C19_step_consumes_work : forall C n s p s',
  idle_beyond n s -> step C s p = Some s' ->
  (measure C n s' + 1 = measure C n s)%nat.
Proof. exact step_measure. Qed.

Theorem C19_run_length_bounded : forall C progs sched,
  all_enabled C (init progs) sched ->
  (length sched <= measure C (length progs) (init progs))%nat.
Proof. exact enabled_length_bound. Qed.

Theorem C19_maximal_run_exists : forall C progs,
  exists sched, maximal C (init progs) sched.
Proof.
  intros C progs.
  apply (maximal_exists C (length progs) _ (init progs) (le_n _)
                        (init_idle_beyond progs)).
Qed.

(* with no_deadlock: every maximal run (nobody can move any more) ends with
   ALL processes finished, after exactly the initial measure of steps.
   Fairness of the OS is only needed to say a maximal run is what happens. *)
Theorem C19_every_maximal_run_completes : forall sk, well_locked sk = true ->
  forall progs sched,
    maximal (compile sk false) (init progs) sched ->
    (forall p, finished (procs (run (compile sk false) (init progs) sched) p))
    /\ length sched = measure (compile sk false) (length progs) (init progs).
Proof.
  intros sk W progs sched H.
  apply maximal_run_completes; [apply compile_disciplined; exact W|exact H].
Qed.

(* ---- non-vacuity ----------------------------------------------------- *)
Definition ex_progs : list (list op) :=
  [[OSet 1 5; OGet 1; OUnset 1]; [OGet 1; OBulk [(1, 7); (2, 8)]; OGet 2];
   [OUnset 3; OGet 1]].

(* round-robin, long enough for everybody to finish *)
Fixpoint rr (n : nat) : list nat :=
  match n with O => [] | S m => [0; 1; 2]%nat ++ rr m end.

Definition ex_final : state := run C19_model (init ex_progs) (rr 100).

(* the run terminates, all eight operations respond, processes really were
   blocked on the way (so the schedule exercises contention), and the
   observed values are the register's *)
Example C19_example_run :
  (cur (procs ex_final 0) = None /\ todo (procs ex_final 0) = []) /\
  (cur (procs ex_final 1) = None /\ todo (procs ex_final 1) = []) /\
  (cur (procs ex_final 2) = None /\ todo (procs ex_final 2) = []) /\
  length (responses ex_final) = 8%nat /\
  existsb (fun x => x =? -1) (fst (mrun C19_model (init ex_progs) (rr 100)))
    = true /\
  lin_ok (rev (erase (hist ex_final))) = true /\
  measure C19_model 3 (init ex_progs) = 86%nat /\
  measure C19_model 3 ex_final = 0%nat /\
  In (1%nat, 0%nat, RVal (Some 5)) (responses ex_final) /\
  In (2%nat, 1%nat, RVal (Some 7)) (responses ex_final) /\
  In (1%nat, 2%nat, RVal (Some 8)) (responses ex_final).
Proof. vm_compute. repeat split; auto 20. Qed.

(* the checker rejects wrong histories: a get that returns a value nobody
   wrote to that key (foreign key's value), a stale value after a completed
   overwrite, and None after a completed set *)
Example C19_checker_rejects :
  lin_check [HInv 0 0 (OSet 1 5); HRes 0 0 (OSet 1 5) RAck;
             HInv 1 0 (OGet 2); HRes 1 0 (OGet 2) (RVal (Some 5))] = false /\
  lin_check [HInv 0 0 (OSet 1 5); HRes 0 0 (OSet 1 5) RAck;
             HInv 0 1 (OSet 1 6); HRes 0 1 (OSet 1 6) RAck;
             HInv 1 0 (OGet 1); HRes 1 0 (OGet 1) (RVal (Some 5))] = false /\
  lin_check [HInv 0 0 (OSet 1 5); HRes 0 0 (OSet 1 5) RAck;
             HInv 1 0 (OGet 1); HRes 1 0 (OGet 1) (RVal None)] = false /\
  (* ... and accepts an overlapping read of either value *)
  lin_check [HInv 0 0 (OSet 1 5); HRes 0 0 (OSet 1 5) RAck;
             HInv 0 1 (OSet 1 6); HInv 1 0 (OGet 1);
             HRes 1 0 (OGet 1) (RVal (Some 5)); HRes 0 1 (OSet 1 6) RAck]
    = true.
Proof. vm_compute. repeat split; reflexivity. Qed.

(* ---- D7: the pinned unset deleted record <key> instead of '0' -------- *)
(* legacy = true instantiates unset's write as `del db[<key>]`: for a key
   other than '0' the operation raises and the value stays readable *)
Theorem C19_legacy_unset_refuted :
  exists progs sched,
    let s := run (compile gen_sk true) (init progs) sched in
    In (0%nat, 1%nat, RFail) (responses s) /\
    In (0%nat, 2%nat, RVal (Some 5)) (responses s) /\
    lin_check (rev (erase (hist s))) = false.
Proof.
  exists [[OSet 1 5; OUnset 1; OGet 1]], (repeat 0%nat 40).
  vm_compute. repeat split; auto.
Qed.

(* ---- the cache lock is what makes it work ---------------------------- *)
Definition no_cache_lock (sk : list ev) : list ev :=
  filter (fun e => negb (ev_is (Acq "cache") e || ev_is (Rel "cache") e)) sk.

Definition unlocked_sk : skels :=
  Build_skels sk_cache_get (no_cache_lock sk_cache_set) sk_cache_bulk_set
              sk_cache_unset sk_cache_base_path.

(* with `with self.cache_lock` removed from set(): the discipline check
   fails, and there is a schedule in which a get issued after a completed
   set(1,5), overlapping only set(1,6), returns None: it opened the file
   between the two steps of the writer's commit.  (Atomicity of the commit
   is NOT assumed by the model; only the lock provides it.) *)
Theorem C19_unlocked_refuted :
  well_locked unlocked_sk = false /\
  exists progs sched,
    let s := run (compile unlocked_sk false) (init progs) sched in
    In (1%nat, 0%nat, RVal None) (responses s) /\
    lin_check (rev (erase (hist s))) = false.
Proof.
  split; [vm_compute; reflexivity|].
  exists [[OSet 1 5; OSet 1 6]; [OGet 1]],
         (repeat 0%nat 14 ++ repeat 1%nat 14 ++ repeat 0%nat 6)%list.
  vm_compute. split; auto.
Qed.

Print Assumptions C19_well_locked_gen.
Print Assumptions C19_mutual_exclusion.
Print Assumptions C19_linearization_points.
Print Assumptions C19_linearizable.
Print Assumptions C19_real_time_order.
Print Assumptions C19_no_deadlock.
Print Assumptions C19_no_op_fails.
Print Assumptions C19_current_code.
Print Assumptions C19_init_creates_both_locks.
Print Assumptions C19_lock_files_shared.
Print Assumptions C19_lock_files_distinct.
Print Assumptions C19_db_paths_agree.
Print Assumptions C19_db_path_injective_in_key.
Print Assumptions C19_db_path_shared.
Print Assumptions C19_db_file_is_not_a_lock_file.
Print Assumptions C19_context_manager_is_noop.
Print Assumptions C19_interface_fully_implemented.
Print Assumptions C19_get_retry_bounded.
Print Assumptions C19_checker_sound.
Print Assumptions C19_run_length_bounded.
Print Assumptions C19_maximal_run_exists.
Print Assumptions C19_every_maximal_run_completes.
Print Assumptions C19_legacy_unset_refuted.
Print Assumptions C19_unlocked_refuted.
