(* C18 - Worker parallelism never exceeds min(max_parallel_tasks, CPUs, files).
   The function bodies come from Gen/Exprs.v, i.e. from the repository's
   current source (translator/gen.py). *)
From Coq Require Import String ZArith List Bool Arith.
From SK Require Import Model.Skel Model.Stm Model.CallCount Proofs.CallCount
     Spec.C18 Proofs.C18 Gen.Exprs Gen.Params Gen.Skeleton Gen.SkelTree
     Gen.XCatalog.
Import ListNotations.
Open Scope Z_scope.

(* the generated num_parallel_tasks equals the specified pool size *)
Theorem C18_num_tasks_exact : forall m c f,
  0 <= m -> 1 <= c -> 0 <= f ->
  num_parallel_tasks m c f = spec_workers m c f.
Proof. exact num_tasks_spec. Qed.

(* ... which, for at least one file, IS the bound of the property *)
Theorem C18_num_tasks_is_bound : forall m c f,
  0 <= m -> 1 <= c -> 1 <= f ->
  num_parallel_tasks m c f = worker_bound m c f.
Proof. exact num_tasks_eq_bound. Qed.

Theorem C18_num_tasks_positive : forall m c f,
  0 <= m -> 1 <= c -> 0 <= f -> 1 <= num_parallel_tasks m c f.
Proof. exact num_tasks_pos. Qed.

(* a pool of n workers never runs tasks in more than n distinct processes,
   nor in more processes than there are tasks, whatever the schedule *)
Theorem C18_distinct_workers_bounded : forall n assign,
  pool_execution n assign ->
  (length (nodup Nat.eq_dec assign) <= n)%nat /\
  (length (nodup Nat.eq_dec assign) <= length assign)%nat.
Proof.
  intros n assign H. split.
  - exact (distinct_workers_le n assign H).
  - exact (distinct_workers_le_tasks assign).
Qed.

(* zero or one file: searched in the calling process (no pool) *)
Theorem C18_single_file_in_process : forall f,
  0 <= f -> f <= 1 -> run_uses_pool f = false.
Proof. exact single_file_no_pool. Qed.

Theorem C18_many_files_use_pool : forall f,
  1 < f -> run_uses_pool f = true.
Proof. exact many_files_pool. Qed.

(* instantiation over the extracted skeleton of _run_mp: exactly one submit,
   inside the loop over catalog entries, inside the pool *)
Theorem C18_submit_once_per_entry :
  submit_once_per_entry sk_run_mp = true.
Proof. vm_compute. reflexivity. Qed.

(* ONE dispatch per run, whatever path the execution of run() takes
   (exceptions and early exits included): over every event sequence the
   extracted body of run() admits, _run_mp and _run_single are called at most
   once in total - no pool generation is started a second time *)
Theorem C18_one_dispatch_per_run : forall t,
  trl tk_run t ->
  (count (is_call_in ["run_mp"; "run_single"]) t <= 1)%nat.
Proof.
  intros t H. apply (count_bounded_list _ _ _ _ H). vm_compute. reflexivity.
Qed.

(* ... and that dispatch creates ONE executor: over every event sequence of
   _run_mp the pool is entered at most once *)
Theorem C18_one_pool_per_dispatch : forall t,
  trl tk_run_mp t -> (count (is_call "pool_enter") t <= 1)%nat.
Proof.
  intros t H. apply (count_bounded_list _ _ _ _ H). vm_compute. reflexivity.
Qed.

(* non-vacuity: the bound is attained by the ordinary multi-file path *)
Example C18_one_dispatch_attained : exists t,
  trl tk_run t /\ count (is_call_in ["run_mp"; "run_single"]) t = 1%nat.
Proof.
  eexists. split.
  - unfold tk_run.
    eapply trl_cons; [apply tr_ev|].
    eapply trl_cons; [apply tr_skip|].
    eapply trl_cons;
      [apply tr_if_a; repeat (eapply trl_cons; [apply tr_ev|]); apply trl_nil|].
    eapply trl_cons; [apply tr_skip|apply trl_nil].
  - vm_compute. reflexivity.
Qed.

(* the files the dispatch and the pool size count ARE the catalog entries -
   one per task submitted - and nothing else (no id table, no lookup
   history): `FileSearcher.files` as read from the source *)
Theorem C18_files_counted_are_catalog_entries :
  x_fs_files_are_entry_paths = true.
Proof. reflexivity. Qed.

(* default configuration *)
Theorem C18_default_max_parallel_tasks_nonneg :
  0 <= DEFAULT_MAX_PARALLEL_TASKS.
Proof. vm_compute. discriminate. Qed.

(* non-vacuity: a configuration meeting the hypotheses, with all three
   components of the bound being the binding one in turn *)
Example C18_example :
  num_parallel_tasks 8 16 3 = 3 /\ num_parallel_tasks 2 16 30 = 2 /\
  num_parallel_tasks 8 4 30 = 4 /\ num_parallel_tasks 0 16 30 = 1 /\
  pool_execution 3 [0; 2; 1; 0; 2]%nat.
Proof.
  repeat split; try (vm_compute; reflexivity).
  unfold pool_execution. repeat constructor.
Qed.

Print Assumptions C18_num_tasks_exact.
Print Assumptions C18_num_tasks_is_bound.
Print Assumptions C18_num_tasks_positive.
Print Assumptions C18_distinct_workers_bounded.
Print Assumptions C18_single_file_in_process.
Print Assumptions C18_many_files_use_pool.
Print Assumptions C18_submit_once_per_entry.
Print Assumptions C18_one_dispatch_per_run.
Print Assumptions C18_one_pool_per_dispatch.
Print Assumptions C18_files_counted_are_catalog_entries.
