(* TimestampMatcherBase (searchkit/constraints.py) tied to its model: the
   programs in Gen/XTsmatcher.v are re-extracted from the source on every run
   by translator/plugins/tsmatcher.py; every theorem says "the interpreter of
   the extracted program = the hand-written model function" for ALL answers
   of the regex oracle, or checks an extracted fact.  Shared by C04, C07,
   C11 and C16 (all of which see lines only through this matcher). *)
From Coq Require Import Ascii String ZArith List Bool Lia.
From SK Require Import Model.Dates Model.TsMatcher Proofs.TsMatcher
     Gen.XTsmatcher.
Import ListNotations.
Open Scope string_scope.
Open Scope list_scope.
Open Scope Z_scope.

(* __init__: self.result is the match of the FIRST pattern, in list order,
   that matches AT THE START of the line (re.match); later patterns are not
   consulted (break), a match elsewhere in the line does not count *)
Theorem TsM_init_first_match_at_start :
  forall (M : Type) (pats : list (pat_out M)),
    exec_init x_ts_init pats = Some (ts_result pats).
Proof.
  intros M. apply exec_init_first.
  - intros s. reflexivity.
  - intros p r0. cbn. destruct (at_start p) as [m|]; cbn; split;
      try reflexivity; discriminate.
Qed.

(* matched: a result is present *)
Theorem TsM_matched : forall (M : Type) (r : option M),
  x_ts_matched r = ts_matched r.
Proof. intros M r. reflexivity. Qed.

(* strptime: each of the six fields is the class's override property of
   that name if it has one, else int() of the named group; the keyword names
   handed to datetime() are the keys without their plural s *)
Theorem TsM_strptime_override_then_group :
  forall (attrs : string -> option Z) (groups : string -> gval),
    eval_strptime attrs groups x_ts_strptime = ts_fields attrs groups.
Proof.
  intros attrs groups. apply eval_strptime_spec; try reflexivity.
  intros key. unfold eval_key, ts_field. cbn.
  destruct (attrs key); reflexivity.
Qed.

(* `patterns` is left to the subclass (abstract property, no body) *)
Theorem TsM_patterns_is_abstract : x_ts_patterns_abstract = true.
Proof. reflexivity. Qed.

(* the base class's current_date format has whole-second resolution: the six
   directives Y m d H M S and nothing else (no %f, no %z) *)
Theorem TsM_default_format_whole_seconds :
  whole_second_format x_ts_default_format = true.
Proof. vm_compute. reflexivity. Qed.

(* extracted_datetime gives the matcher the WHOLE (decoded) line: nothing is
   cut off before the patterns are tried *)
Theorem TsM_matcher_sees_whole_line : forall line : list Z,
  apply_line_ops x_ed_line_ops line = line.
Proof. intros line. reflexivity. Qed.

(* ... consults strptime only for a matched line, and text that int() /
   datetime() reject (ValueError) means "no timestamp" *)
Theorem TsM_value_error_is_no_timestamp :
  x_ed_guarded_by_matched = true /\ In "ValueError" x_ed_none_on.
Proof. split; [reflexivity | cbn; tauto]. Qed.

(* non-vacuity / regression shapes: two patterns that both match and read the
   fields differently (first wins); a match only further into the line (does
   not count); an override that differs from the raw group (override wins);
   a non-numeric group without override (ValueError -> no timestamp) *)
Example TsM_example :
  let dmy := MO [] [("day", GInt 3); ("month", GInt 4); ("year", GInt 2024);
                    ("hours", GInt 1); ("minutes", GInt 2);
                    ("seconds", GInt 3)] in
  let mdy := MO [] [("day", GInt 4); ("month", GInt 3); ("year", GInt 2024);
                    ("hours", GInt 1); ("minutes", GInt 2);
                    ("seconds", GInt 3)] in
  let pm := MO [("hours", 15)]
               [("day", GInt 3); ("month", GInt 4); ("year", GInt 2024);
                ("hours", GInt 3); ("minutes", GInt 2); ("seconds", GInt 3)] in
  let mon := MO [] [("day", GInt 3); ("month", GNonInt); ("year", GInt 2024);
                    ("hours", GInt 1); ("minutes", GInt 2);
                    ("seconds", GInt 3)] in
  exec_init x_ts_init [PO (Some dmy) (Some dmy); PO (Some mdy) (Some mdy)]
    = Some (Some dmy) /\
  ts_line [PO None (Some dmy); PO (Some mdy) (Some mdy)]
    = LTs (Some (DT 2024 3 4 1 2 3)) /\
  ts_line [PO None (Some dmy)] = LTs None /\
  eval_strptime (attr_of pm) (group_of pm) x_ts_strptime
    = SOk (DT 2024 4 3 15 2 3) /\
  ts_line [PO (Some mon) (Some mon)] = LTs None /\
  apply_line_ops [LSlice None (Some 3)] [1; 2; 3; 4; 5] = [1; 2; 3].
Proof. vm_compute. repeat split; reflexivity. Qed.

Print Assumptions TsM_init_first_match_at_start.
Print Assumptions TsM_matched.
Print Assumptions TsM_strptime_override_then_group.
Print Assumptions TsM_patterns_is_abstract.
Print Assumptions TsM_default_format_whole_seconds.
Print Assumptions TsM_matcher_sees_whole_line.
Print Assumptions TsM_value_error_is_no_timestamp.
