(* C09 - Path registration searches exactly the denoted files, capped by
   logrotate depth.  Model: Model/Catalog.v (string-level matchers for the
   four fixed regular expressions, _filtered_dir, _expand_path, register,
   get_source_id, task-level de-duplication).  Spec: Spec/Catalog.v. *)
From Coq Require Import String ZArith List Bool.
From SK Require Import Model.Skel Model.Stm Model.SequenceSk Model.CallCount
     Proofs.CallCount Gen.SkelTree.
From SK Require Import Model.Collection Model.Catalog Spec.Catalog
     Proofs.CatalogStr Proofs.CatalogDir Proofs.CatalogReg
     Proofs.CatalogBoundary Proofs.CatalogTop Proofs.CatalogTags Gen.Params
     Gen.XCatalog.
Import ListNotations.
Open Scope Z_scope.
Open Scope list_scope.

(* ---- T1: the hand-written matchers are matchers for the regex strings
   that are in the source NOW (a changed regex breaks these proofs) *)
Theorem C09_group_regex_tied : FILTERED_DIR_REGEX = re_group_fixed.
Proof. vm_compute. reflexivity. Qed.
Theorem C09_sort_regex_0_tied : LOGROTATE_FILTER_0 = re_sort_0.
Proof. vm_compute. reflexivity. Qed.
Theorem C09_sort_regex_1_tied : LOGROTATE_FILTER_1 = re_sort_1.
Proof. vm_compute. reflexivity. Qed.
Theorem C09_sort_regex_2_tied : LOGROTATE_FILTER_2 = re_sort_2.
Proof. vm_compute. reflexivity. Qed.
Theorem C09_default_depths_tied :
  0 <= DEFAULT_MAX_LOGROTATE_DEPTH /\
  CATALOG_MAX_LOGROTATE_DEPTH = DEFAULT_MAX_LOGROTATE_DEPTH /\
  FILTERED_DIR_MAX_LOGROTATE_DEPTH = DEFAULT_MAX_LOGROTATE_DEPTH.
Proof. vm_compute. repeat split; discriminate. Qed.

(* ---- the classification used by the specification means what it says *)
Theorem C09_rotated_means : forall x stem n,
  rotated x = Some (stem, n) <-> is_rotated x stem n.
Proof. exact rotated_iff. Qed.

(* ---- FULL statement: for every listing whose regular files have no
   whitespace in their paths (and are distinct, as listdir/glob give them)
   and every depth >= 0, _filtered_dir returns exactly what [kept] allows *)
Theorem C09_filtered_dir_sound_complete : forall contents depth,
  0 <= depth -> forallb no_ws (regular contents) = true ->
  NoDup (regular contents) ->
  kept (regular contents) depth
       (filtered_dir grp_fixed LOGROTATE_NOMATCH_KEY contents depth).
Proof. exact (filtered_dir_sound_complete_top LOGROTATE_NOMATCH_KEY). Qed.

(* file / directory / glob registration forms *)
Theorem C09_expand_path_exact : forall depth t,
  0 <= depth -> forallb no_ws (regular (listing t)) = true ->
  NoDup (regular (listing t)) ->
  match t with
  | TFile p => expand_path grp_fixed LOGROTATE_NOMATCH_KEY depth t = [p]
  | _ => kept (regular (listing t)) depth
              (expand_path grp_fixed LOGROTATE_NOMATCH_KEY depth t)
  end.
Proof. exact (expand_path_exact_top LOGROTATE_NOMATCH_KEY). Qed.

(* every name that reaches the sort is a rotated copy sorted by its number:
   the `no match' key (and the `gz?' typo of the third sort regex) is
   unreachable *)
Theorem C09_grouped_key_is_number : forall x pfx,
  no_ws x = true -> grp_fixed x = Some pfx -> ends_with x dotlog = false ->
  exists n, rotated x = Some (pfx, n) /\ sort_key LOGROTATE_NOMATCH_KEY x = n.
Proof. exact (grouped_key_is_number_top LOGROTATE_NOMATCH_KEY). Qed.

(* the endswith('.log') branch appends fnamepfix + '.log', not the path:
   with the current regex that is always the path itself *)
Theorem C09_endswith_branch_is_path : forall x pfx,
  ends_with x dotlog = true -> grp_fixed x = Some pfx -> pfx ++ dotlog = x.
Proof. exact endswith_branch_is_path_top. Qed.

(* boundary: a path containing whitespace (other than one final newline)
   defeats the rotation regex: the file is searched, never lost, uncapped *)
Theorem C09_whitespace_boundary : forall contents depth x,
  In (x, true) contents -> no_ws x = false ->
  (forall t, x = t ++ [10] -> no_ws t = false) ->
  In x (filtered_dir grp_fixed LOGROTATE_NOMATCH_KEY contents depth).
Proof. exact (whitespace_kept_top LOGROTATE_NOMATCH_KEY). Qed.

(* boundary of the boundary: Python's `$` also matches before a final
   newline, so a file literally named "x.log\n" is grouped as a copy of x
   (it does not end with ".log") and is dropped at depth 0 *)
Theorem C09_trailing_newline_name_boundary :
  filtered_dir grp_fixed LOGROTATE_NOMATCH_KEY
               [([47; 100; 47; 120; 46; 108; 111; 103; 10], true); ([47; 100; 47; 110; 46; 116; 120; 116], true)] 0
  = [[47; 100; 47; 110; 46; 116; 120; 116]].
Proof. vm_compute. reflexivity. Qed.

(* a path reached through several registrations has ONE catalog entry that
   carries all of them in order; source ids are injective and resolve *)
Theorem C09_merge_once : forall regs,
  let c := register_all regs in
  NoDup (cat_files c) /\
  (forall q, searches_of c q = occurrences q (plain regs)) /\
  (forall q, In q (cat_files c) <-> occurrences q (plain regs) <> []) /\
  (forall p1 e1 p2 e2, In (p1, e1) (entries c) -> In (p2, e2) (entries c) ->
     e_source e1 = e_source e2 -> p1 = p2) /\
  (forall p e, In (p, e) (entries c) ->
     dget Z.eqb (source_ids c) (e_source e) = Some p).
Proof. exact merge_once_top. Qed.

Theorem C09_add_is_register_of_expansion : forall G nm depth ops,
  add_all G nm depth ops =
  register_all (map (fun op => (fst (fst op), snd (fst op),
                                expand_path G nm depth (snd op))) ops).
Proof. exact add_all_register_all. Qed.

(* the task runs each definition once per line however often it was
   registered for the file: each match is reported once *)
Theorem C09_each_match_once : forall hit l lines,
  NoDup lines ->
  NoDup (task_defs l) /\ (forall s, In s (task_defs l) <-> In s l) /\
  NoDup (task_results hit l lines) /\
  (forall ln s, In (ln, s) (task_results hit l lines) <->
                In ln lines /\ In s l /\ hit s ln = true).
Proof. exact each_match_once_lemma. Qed.

(* ---- non-vacuity: a 12-name listing (one sub-directory named like a
   rotated copy) meeting the hypotheses, and what depth 2 keeps *)
Definition ex_listing : list (str * bool) :=
  [([47; 100; 47; 97; 112; 112; 46; 108; 111; 103], true) (* '/d/app.log' *);
   ([47; 100; 47; 97; 112; 112; 46; 108; 111; 103; 46; 49], true) (* '/d/app.log.1' *);
   ([47; 100; 47; 97; 112; 112; 46; 108; 111; 103; 46; 50; 46; 103; 122], true) (* '/d/app.log.2.gz' *);
   ([47; 100; 47; 97; 112; 112; 46; 108; 111; 103; 46; 49; 48], true) (* '/d/app.log.10' *);
   ([47; 100; 47; 97; 112; 112; 46; 108; 111; 103; 46; 57], true) (* '/d/app.log.9' *);
   ([47; 100; 47; 110; 111; 116; 101; 115; 46; 116; 120; 116], true) (* '/d/notes.txt' *);
   ([47; 100; 47; 115; 121; 115; 46; 100; 46; 108; 111; 103; 46; 49], true) (* '/d/sys.d.log.1' *);
   ([47; 100; 47; 115; 121; 115; 46; 100; 46; 108; 111; 103; 46; 49; 46; 103; 122], true) (* '/d/sys.d.log.1.gz' *);
   ([47; 100; 47; 115; 121; 115; 46; 100; 46; 108; 111; 103], true) (* '/d/sys.d.log' *);
   ([47; 100; 47; 120; 46; 108; 111; 103; 105; 110], true) (* '/d/x.login' *);
   ([47; 100; 47; 97; 112; 112; 46; 108; 111; 103; 46; 51; 46; 103], true) (* '/d/app.log.3.g' *);
   ([47; 100; 47; 111; 108; 100; 46; 108; 111; 103; 46; 55], true) (* '/d/old.log.7' *);
   ([47; 100; 47; 115; 117; 98; 46; 108; 111; 103; 46; 49], false) (* '/d/sub.log.1' *)].

Example C09_example :
  forallb no_ws (regular ex_listing) = true /\
  NoDup (regular ex_listing) /\ length (regular ex_listing) = 12%nat /\
  kept (regular ex_listing) 2
       (filtered_dir grp_fixed LOGROTATE_NOMATCH_KEY ex_listing 2) /\
  filtered_dir grp_fixed LOGROTATE_NOMATCH_KEY ex_listing 2 =
  [[47; 100; 47; 97; 112; 112; 46; 108; 111; 103];
   [47; 100; 47; 110; 111; 116; 101; 115; 46; 116; 120; 116];
   [47; 100; 47; 115; 121; 115; 46; 100; 46; 108; 111; 103];
   [47; 100; 47; 120; 46; 108; 111; 103; 105; 110];
   [47; 100; 47; 97; 112; 112; 46; 108; 111; 103; 46; 51; 46; 103];
   [47; 100; 47; 97; 112; 112; 46; 108; 111; 103; 46; 49];
   [47; 100; 47; 97; 112; 112; 46; 108; 111; 103; 46; 50; 46; 103; 122];
   [47; 100; 47; 115; 121; 115; 46; 100; 46; 108; 111; 103; 46; 49];
   [47; 100; 47; 115; 121; 115; 46; 100; 46; 108; 111; 103; 46; 49; 46; 103; 122];
   [47; 100; 47; 111; 108; 100; 46; 108; 111; 103; 46; 55]].
Proof.
  assert (Hws : forallb no_ws (regular ex_listing) = true)
    by (vm_compute; reflexivity).
  assert (Hnd : NoDup (regular ex_listing)).
  { vm_compute. repeat (constructor; [simpl; intuition discriminate|]).
    constructor. }
  split; [exact Hws|]. split; [exact Hnd|]. split; [reflexivity|].
  split; [apply C09_filtered_dir_sound_complete;
          [discriminate|exact Hws|exact Hnd]|].
  vm_compute. reflexivity.
Qed.

Example C09_merge_example :
  let c := add_all grp_fixed LOGROTATE_NOMATCH_KEY 1
             [(1, Some 7, TGlob ex_listing);
              (2, None, TFile [47; 100; 47; 97; 112; 112; 46; 108; 111; 103]);
              (1, Some 7, TFile [47; 100; 47; 97; 112; 112; 46; 108; 111; 103])] in
  searches_of c [47; 100; 47; 97; 112; 112; 46; 108; 111; 103] = [1; 2; 1] /\
  task_defs (searches_of c [47; 100; 47; 97; 112; 112; 46; 108; 111; 103]) = [1; 2] /\
  searches_of c [47; 100; 47; 97; 112; 112; 46; 108; 111; 103; 46; 49] = [1] /\
  searches_of c [47; 100; 47; 97; 112; 112; 46; 108; 111; 103; 46; 50; 46; 103; 122] = [].
Proof. vm_compute. repeat split; reflexivity. Qed.

(* ---- regression corpus: the grouping regex before the repair of D9,
   r"(\S+)\.log\S*" (model: grp_legacy), violates the specification *)
Definition d9_a : list (str * bool) :=
  [([47; 100; 47; 120; 46; 108; 111; 103; 105; 110], true) (* '/d/x.login' *);
   ([47; 100; 47; 110; 111; 116; 101; 115; 46; 116; 120; 116], true) (* '/d/notes.txt' *)].
Theorem C09_legacy_filtered_dir_refuted_loglike :
  forallb no_ws (regular d9_a) = true /\ NoDup (regular d9_a) /\
  ~ kept (regular d9_a) 0 (filtered_dir grp_legacy LOGROTATE_NOMATCH_KEY d9_a 0).
Proof.
  split; [vm_compute; reflexivity|]. split.
  - vm_compute. repeat (constructor; [simpl; intuition discriminate|]).
    constructor.
  - apply (not_kept_by_missing _ _ _ [47; 100; 47; 120; 46; 108; 111; 103; 105; 110]);
      vm_compute; reflexivity.
Qed.

Definition d9_b : list (str * bool) :=
  [([47; 100; 47; 120; 46; 108; 111; 103; 105; 110], true) (* '/d/x.login' *);
   ([47; 100; 47; 120; 46; 108; 111; 103], true) (* '/d/x.log' *);
   ([47; 100; 47; 120; 46; 108; 111; 103; 46; 49], true) (* '/d/x.log.1' *);
   ([47; 100; 47; 120; 46; 108; 111; 103; 46; 50], true) (* '/d/x.log.2' *);
   ([47; 100; 47; 120; 46; 108; 111; 103; 46; 51], true) (* '/d/x.log.3' *);
   ([47; 100; 47; 120; 46; 108; 111; 103; 46; 52], true) (* '/d/x.log.4' *);
   ([47; 100; 47; 120; 46; 108; 111; 103; 46; 53], true) (* '/d/x.log.5' *);
   ([47; 100; 47; 120; 46; 108; 111; 103; 46; 54], true) (* '/d/x.log.6' *);
   ([47; 100; 47; 120; 46; 108; 111; 103; 46; 55], true) (* '/d/x.log.7' *)].
Theorem C09_legacy_filtered_dir_refuted_loglike_depth7 :
  ~ kept (regular d9_b) 7 (filtered_dir grp_legacy LOGROTATE_NOMATCH_KEY d9_b 7).
Proof.
  apply (not_kept_by_missing _ _ _ [47; 100; 47; 120; 46; 108; 111; 103; 105; 110]);
    vm_compute; reflexivity.
Qed.

(* `x.log.1.g` ranked as copy #1 displaces the genuine copy x.log.2 *)
Definition d9_c : list (str * bool) :=
  [([47; 100; 47; 120; 46; 108; 111; 103], true) (* '/d/x.log' *);
   ([47; 100; 47; 120; 46; 108; 111; 103; 46; 49; 46; 103], true) (* '/d/x.log.1.g' *);
   ([47; 100; 47; 120; 46; 108; 111; 103; 46; 50], true) (* '/d/x.log.2' *)].
Theorem C09_legacy_filtered_dir_refuted_gz_typo :
  ~ kept (regular d9_c) 1 (filtered_dir grp_legacy LOGROTATE_NOMATCH_KEY d9_c 1).
Proof.
  apply (not_kept_by_count _ _ _ [47; 100; 47; 120]). vm_compute. discriminate.
Qed.

(* '.log' inside a directory component: plain files are capped *)
Definition d9_d : target :=
  TDir [47; 100; 47; 97; 112; 112; 46; 108; 111; 103; 115]
       [([110; 111; 116; 101; 115; 46; 116; 120; 116], true) (* 'notes.txt' *);
   ([98; 46; 116; 120; 116], true) (* 'b.txt' *);
   ([99; 46; 116; 120; 116], true) (* 'c.txt' *)].
Theorem C09_legacy_expand_path_refuted_dir_component :
  ~ kept (regular (listing d9_d)) 2
         (expand_path grp_legacy LOGROTATE_NOMATCH_KEY 2 d9_d).
Proof.
  apply (not_kept_by_missing _ _ _ [47; 100; 47; 97; 112; 112; 46; 108; 111; 103; 115; 47; 99; 46; 116; 120; 116]);
    vm_compute; reflexivity.
Qed.

(* whitespace: the legacy endswith('.log') branch registered a different,
   possibly nonexistent path *)
Theorem C09_legacy_endswith_branch_refuted_whitespace :
  let x := [47; 100; 47; 109; 121; 46; 108; 111; 103; 115; 32; 97; 110; 100; 32; 109; 111; 114; 101; 47; 97; 112; 112; 46; 108; 111; 103] in
  ends_with x dotlog = true /\
  grp_legacy x = Some [47; 100; 47; 109; 121] /\
  filtered_dir grp_legacy LOGROTATE_NOMATCH_KEY [(x, true)] 7
  = [[47; 100; 47; 109; 121; 46; 108; 111; 103]].
Proof. vm_compute. repeat split; reflexivity. Qed.

(* the same inputs on the current model satisfy the specification *)
Theorem C09_regression_inputs_now_kept :
  kept (regular d9_a) 0 (filtered_dir grp_fixed LOGROTATE_NOMATCH_KEY d9_a 0) /\
  kept (regular d9_b) 7 (filtered_dir grp_fixed LOGROTATE_NOMATCH_KEY d9_b 7) /\
  kept (regular d9_c) 1 (filtered_dir grp_fixed LOGROTATE_NOMATCH_KEY d9_c 1) /\
  kept (regular (listing d9_d)) 2
       (expand_path grp_fixed LOGROTATE_NOMATCH_KEY 2 d9_d).
Proof.
  repeat split;
    (apply C09_filtered_dir_sound_complete || apply filtered_dir_kept);
    try discriminate; try (vm_compute; reflexivity);
    (vm_compute; repeat (constructor; [simpl; intuition discriminate|]);
     constructor).
Qed.

(* ---- T1, structure: the TREE skeletons and the expression-level pieces
   that translator/skeleton.py and translator/plugins/catalog.py regenerate
   from the source on every run *)
Local Open Scope string_scope.

(* _filtered_dir, calls and tests only: per path - isfile test (skip), no
   match (keep, next), endswith test (keep | group); then per group one
   sorted() *)
Definition expected_filtered_dir : list stm :=
  [ SLoop [ SEv (Call "isfile"); SIf [SExit] [];
            SIf [SEv (Call "keep"); SExit] [];
            SEv (Call "endswith_log");
            SIf [SEv (Call "keep")] [SIf [] []] ];
    SLoop [ SEv (Call "sorted") ];
    SExit ].

Theorem C09_filtered_dir_shape :
  calls_only_list tk_filtered_dir = expected_filtered_dir.
Proof. vm_compute. reflexivity. Qed.

(* register: tag table update, then per expanded path: existing entry |
   get_source_id + new entry *)
Definition expected_register : list stm :=
  [ SIf [SIf [SIf [] []] []] []; SIf [] [];
    SEv (Call "expand_path");
    SLoop [ SIf [] [SEv (Call "get_source_id")] ] ].

Theorem C09_register_shape : calls_only_list tk_register = expected_register.
Proof. vm_compute. reflexivity. Qed.

Local Close Scope string_scope.

(* the model's _filtered_dir IS the loop structure above filled with the
   expressions extracted from the source: the isfile test, the literal of
   endswith(), the string appended for a live log and the slice bound of
   sorted(...)[:limit] with the temporary `limit` inlined (an edit such as
   [:limit + 1] breaks this) *)
Definition fd_step_src (grp : str -> option str) (acc : fd_state)
           (e : str * bool) : fd_state :=
  let '(newc, groups) := acc in
  let '(path, isfile) := e in
  if x_fd_skips isfile then acc
  else match grp path with
       | None => (newc ++ [path], groups)
       | Some pfx =>
           if ends_with path x_fd_live_suffix
           then (newc ++ [x_fd_live_appended pfx], groups)
           else (newc, dappend str_eqb groups pfx path)
       end.

Definition filtered_dir_src (grp : str -> option str) (nm : Z)
           (contents : list (str * bool)) (depth : Z) : list str :=
  let '(newc, groups) := fold_left (fd_step_src grp) contents ([], []) in
  newc ++ flat_map (fun g => x_fd_cap (sort_key nm) depth (snd g))
                   groups.

Theorem C09_filtered_dir_is_source_pieces : forall grp nm contents depth,
  x_fd_groups_by_prefix = true /\
  filtered_dir_src grp nm contents depth = filtered_dir grp nm contents depth.
Proof. intros. split; reflexivity. Qed.

Theorem C09_cap_is_source_slice : forall (A : Type) (key : A -> Z) depth l,
  x_fd_cap key depth l = py_take depth (sort_by key l).
Proof. intros. reflexivity. Qed.

(* get_source_id: 0 for the first path, max(ids) + 1 for a new one *)
Definition get_source_id_src (t : list (Z * str)) (path : str)
  : Z * list (Z * str) :=
  match t with
  | [] => (x_first_source_id, [(x_first_source_id, path)])
  | _ => match find_source t path with
         | Some i => (i, t)
         | None => let i := x_next_source_id (max_id t) in
                   (i, dset Z.eqb t i path)
         end
  end.

Theorem C09_get_source_id_is_source_pieces : forall t path,
  get_source_id_src t path = get_source_id t path.
Proof. intros. destruct t; reflexivity. Qed.

(* logrotate_log_sort: first matching filter wins, a filter without group
   sorts as 0, otherwise int(group(1)); _expand_path: the three cases *)
Theorem C09_sort_and_expand_from_source :
  x_sort_first_match_wins = true /\ x_sort_live_key = 0 /\
  x_sort_group_index = 1 /\
  x_expand_file_is_itself = true /\ x_expand_dir_joins = true /\
  x_expand_glob_filtered = true /\
  (* task level: search_defs is a dict keyed by the definition and the
     per-line loop iterates it *)
  x_task_defs_dict_keyed_by_definition = true /\
  x_task_line_loop_over_search_defs = true.
Proof. repeat split; reflexivity. Qed.

(* ---- round 3: FileSearcher.add / files / resolve_source_id and the
   catalog's lookup methods, regenerated from the source *)
Local Open Scope string_scope.
Theorem C09_fs_add_shape :
  tk_fs_add = [SIf [SEv (Call "restrict")] []; SEv (Call "register")].
Proof. vm_compute. reflexivity. Qed.

(* on EVERY execution path of FileSearcher.add the catalog's register() is
   called at most once, and so is the restriction bookkeeping *)
Theorem C09_fs_add_registers_once : forall t,
  trl tk_fs_add t ->
  (count (is_call "register") t <= 1)%nat /\
  (count (is_call "restrict") t <= 1)%nat.
Proof.
  intros t H. split; apply (count_bounded_list _ _ _ _ H);
    vm_compute; reflexivity.
Qed.

(* (resolve_from_tag is tied through its loop/comprehension normal form,
   x_resolve_from_tag_maps_tag_table below) *)
Theorem C09_catalog_lookup_shapes :
  calls_only_list tk_resolve_from_id = [SIf [SExit] []; SExit] /\
  calls_only_list tk_source_id_to_path =
    [STry [SExit] [("KeyError", [])] [] []; SExit].
Proof. repeat split; vm_compute; reflexivity. Qed.
Local Close Scope string_scope.

(* the restriction set of the model is the source's test (`not
   allow_global_constraints`) plugged into the set insertion; after any
   history of add() calls it holds exactly the definitions ever added with
   allow_global_constraints=False, each once *)
Theorem C09_fs_add_restrictions : forall ops,
  (forall r allow d,
     (if x_fs_add_restricts allow
      then (if existsb (Z.eqb d) r then r else r ++ [d]) else r)
     = fs_restrict r allow d) /\
  NoDup (fs_restrictions ops) /\
  (forall d, In d (fs_restrictions ops) <-> In (d, false) ops).
Proof.
  intro ops. split; [reflexivity|]. exact (fs_restrictions_spec ops).
Qed.

Theorem C09_lookup_statements_from_source :
  x_fs_files_are_entry_paths = true /\
  x_fs_resolve_source_delegates = true /\
  x_resolve_from_id_simple_then_sequence = true /\
  x_resolve_from_tag_maps_tag_table = true /\
  x_source_id_unknown_is_none = true /\
  x_catalog_iterates_entries = true /\
  x_searcher_base_is_abstract = true.
Proof. repeat split; reflexivity. Qed.

Print Assumptions C09_filtered_dir_sound_complete.
Print Assumptions C09_expand_path_exact.
Print Assumptions C09_grouped_key_is_number.
Print Assumptions C09_endswith_branch_is_path.
Print Assumptions C09_whitespace_boundary.
Print Assumptions C09_merge_once.
Print Assumptions C09_each_match_once.
Print Assumptions C09_rotated_means.
Print Assumptions C09_fs_add_registers_once.
Print Assumptions C09_fs_add_restrictions.
Print Assumptions C09_catalog_lookup_shapes.
