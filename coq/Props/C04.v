(* C04 - File-level since constraint starts exactly at the first in-window
   line.

   Model: Model/SinceSeek.v on top of Model/Seek.v (try_find_line_with_date,
   __getitem__, bisect.bisect_left, run, apply_to_file), parametric in
   H = SEEK_HORIZON, A = MAX_SEEK_HORIZON_EXPAND,
   L = MAX_TRY_FIND_WITH_DATE_ATTEMPTS, W = MAX_DATETIME_READ_BYTES and in the
   timestamp oracle tsw (matcher applied to the <= W bytes read at a line
   start).  Spec: Spec/C04.v [first_in_window].
   Proof layers: Proofs/SeekSpec.v (C11: exact line lookup)
     => Proofs/SinceSeekWalk.v  (inside the budget the lookups are walks over
                                 lines; __getitem__ = backwards, else forwards)
     => Proofs/SinceSeekChain.v (the walks find the nearest dated line)
     => Proofs/Bisect.v         (bisect_left on a monotone function)
     => Proofs/SinceSeekTop.v   (position = declarative first-in-window)
     => Proofs/SinceSeekList.v  (list forms of the spec and hypotheses).
   The whole chain is closed: since_seek_exact is proved in full.
   Source tie: the last section (shapes, extracted pieces, interpreters). *)
From Coq Require Import String ZArith List Bool Lia.
From SK Require Import Model.Base Model.Seek Model.SinceSeek Spec.Lines
     Spec.C04 Proofs.Seek Proofs.SeekSpec Proofs.SinceSeek Proofs.Bisect
     Proofs.SinceSeekWalk Proofs.SinceSeekChain Proofs.SinceSeekTop
     Proofs.SinceSeekList Proofs.SinceSeekExact Model.Skel Model.Stm
     Model.SequenceSk Model.SinceSeekSk Proofs.SinceSeekSk Gen.Params
     Gen.SkelTree Gen.XSeek.
Import ListNotations.
Open Scope Z_scope.

(* ---- bisect_left ------------------------------------------------------- *)
(* Python's bisect_left over range(lo, hi) of a function that is monotone on
   the range returns the least index whose value is >= x (hi if none) *)
Theorem C04_bisect_left_correct : forall (g : Z -> Z) (x : Z) fuel lo hi,
  lo <= hi -> (Z.to_nat (hi - lo) < fuel)%nat ->
  (forall i j, lo <= i -> i <= j -> j < hi -> g i <= g j) ->
  exists r, bisect_left g x fuel lo hi = Some r /\ lo <= r <= hi /\
            (forall i, lo <= i < r -> g i < x) /\
            (forall i, r <= i < hi -> x <= g i).
Proof. exact bisect_left_correct. Qed.

(* ---- outcome -> position ------------------------------------------------ *)
Theorem C04_outcome_position : forall H A L W tsw c since pos0,
  apply_to_file H A L W tsw c since pos0 =
  match run H A L W tsw c since pos0 with
  | OkPos p => Some p
  | NoTimestampsFoundInFile => Some 0
  | NoValidLinesFoundInFile => Some (lenZ c)
  | TooManyLinesWithoutDate => Some 0
  | MaxSearchableLineLengthReached => Some (lenZ c)
  | AssertionFailed | FuelExhausted => None
  end.
Proof. exact outcome_position. Qed.

(* ---- THE THEOREM ---------------------------------------------------------
   For every content c, oracle tsw, since date and constants H, A, L > 0:
   if (h0) empty lines / the end of the file carry no timestamp,
      (h1) every offset can be looked up (Spec/Lines.v within_budget),
      (h2) the timestamped lines are in non-decreasing time order,
      (h3) there are no L consecutive undated lines (max run <= L - 1),
   then apply_to_file leaves a freshly opened file exactly at
   first_in_window: the first byte of the first line whose timestamp is
   >= since; the end of the file if timestamps exist but none qualifies;
   0 if no line is timestamped.  (In particular no assertion fails and the
   model's bisect fuel is never exhausted: the result is Some _.) *)
Theorem C04_since_seek_exact : forall H A L W tsw c since,
  0 < H -> 0 < A -> 0 < L ->
  empty_undated (ts_of tsw W c) c ->
  all_within_budget H A c ->
  time_ordered (ts_of tsw W c) c ->
  undated_runs_below L (ts_of tsw W c) c ->
  apply_to_file H A L W tsw c since 0 =
  Some (first_in_window (ts_of tsw W c) since c).
Proof. exact since_seek_exact. Qed.

(* the function first_in_window is THE position described in the property *)
Theorem C04_first_in_window_is_declarative : forall ts since c p,
  is_first_in_window ts since c p -> p = first_in_window ts since c.
Proof. exact first_in_window_is_declarative. Qed.

(* "no line at or after the since date is ever skipped and no older
   timestamped line is searched": a dated line lies in the searched suffix
   [p, |c|) iff its timestamp is >= since *)
Theorem C04_no_skip_no_old : forall ts since c p,
  time_ordered_lines ts c -> (forall s, lenZ c <= s -> ts s = None) ->
  is_first_in_window ts since c p ->
  forall s d, real_line_start c s -> ts s = Some d ->
    (since <= d -> p <= s) /\ (d < since -> s < p).
Proof. exact no_skip_no_old. Qed.

(* ---- discharging the hypotheses ---------------------------------------- *)
(* (h0) holds for every matcher that rejects the empty string and any text
   that begins with a line feed *)
Theorem C04_oracle_rejects_lf_gives_h0 : forall tsw W c,
  0 < W -> tsw [] = None -> (forall r, tsw (10 :: r) = None) ->
  empty_undated (ts_of tsw W c) c.
Proof. exact oracle_rejects_lf_gives_h0. Qed.

(* (h1) holds when every line (terminator included, if any) is at most
   A*H - 1 bytes long; see C11 for the exact boundary *)
Theorem C04_short_lines_give_h1 : forall H A c,
  0 < H -> 0 < A ->
  (forall o, 0 <= o <= lenZ c -> line_len c o <= A * H - 1) ->
  all_within_budget H A c.
Proof. exact short_lines_give_h1. Qed.

(* list form of (h2)/(h3) implies the offset form used inside the proof *)
Theorem C04_time_ordered_offsets : forall ts c,
  time_ordered ts c -> time_ordered_lines ts c.
Proof. exact time_ordered_offsets. Qed.

Theorem C04_undated_runs_offsets : forall ts c L,
  0 < L -> undated_runs_below L ts c -> no_long_undated_run L ts c.
Proof. exact undated_runs_offsets. Qed.

(* ---- instantiation with the constants of the source --------------------- *)
Theorem C04_constants :
  0 < SEEK_HORIZON /\ 0 < MAX_SEEK_HORIZON_EXPAND /\
  0 < MAX_TRY_FIND_WITH_DATE_ATTEMPTS /\ 0 < MAX_DATETIME_READ_BYTES /\
  MAX_TRY_FIND_WITH_DATE_ATTEMPTS - 1 = 499 /\
  MAX_SEEK_HORIZON_EXPAND * SEEK_HORIZON - 1 = 1048575.
Proof. vm_compute. repeat split; reflexivity. Qed.

(* time-ordered log, every line shorter than 1 MiB (at most 1 048 575 bytes,
   terminator included if any), at most 499
   consecutive undated lines, matcher rejecting LF-initial text: searching
   starts exactly at the first in-window line *)
Theorem C04_real_since_seek_exact : forall tsw c since,
  tsw [] = None -> (forall r, tsw (10 :: r) = None) ->
  (forall o, 0 <= o <= lenZ c -> line_len c o <= 1048575) ->
  time_ordered (ts_of tsw MAX_DATETIME_READ_BYTES c) c ->
  max_undated_run (ts_of tsw MAX_DATETIME_READ_BYTES c) c <= 499 ->
  apply_to_file SEEK_HORIZON MAX_SEEK_HORIZON_EXPAND
    MAX_TRY_FIND_WITH_DATE_ATTEMPTS MAX_DATETIME_READ_BYTES tsw c since 0 =
  Some (first_in_window (ts_of tsw MAX_DATETIME_READ_BYTES c) since c).
Proof.
  intros tsw c since Hnil Hlf Hlen Hord Hrun.
  apply since_seek_exact; try (vm_compute; reflexivity).
  - apply oracle_rejects_lf_gives_h0; [vm_compute; reflexivity|exact Hnil|exact Hlf].
  - intros o Ho. apply short_line_within_budget;
      [vm_compute; reflexivity|vm_compute; reflexivity|exact Ho|].
    replace (MAX_SEEK_HORIZON_EXPAND * SEEK_HORIZON - 1) with 1048575
      by (vm_compute; reflexivity). apply Hlen. exact Ho.
  - exact Hord.
  - unfold undated_runs_below.
    replace (MAX_TRY_FIND_WITH_DATE_ATTEMPTS - 1) with 499
      by (vm_compute; reflexivity). exact Hrun.
Qed.

(* ---- source tie (T1): the model IS the structure of the current source ----
   Gen/SkelTree.v holds the tree skeletons of the six functions and
   Gen/XSeek.v (translator/plugins/seek.py) the seek targets, call arguments
   and comparison operators, all regenerated from the working tree on every
   run.  (a) shapes, (b) extracted pieces, (c) interpreting the generated
   trees with the generated pieces over the model state = the model. *)

(* (a) calls, tests, raises, handlers and returns of the source, in order *)
Theorem C04_shape_logline_date :
  calls_only_list tk_logline_date = expected_logline_date.
Proof. vm_compute. reflexivity. Qed.
Theorem C04_shape_try_find_line :
  calls_only_list tk_try_find_line = expected_try_find_line.
Proof. vm_compute. reflexivity. Qed.
Theorem C04_shape_tfld : calls_only_list tk_tfld = expected_tfld.
Proof. vm_compute. reflexivity. Qed.
Theorem C04_shape_getitem :
  calls_only_list tk_seeker_getitem = expected_getitem.
Proof. vm_compute. reflexivity. Qed.
Theorem C04_shape_run : calls_only_list tk_seeker_run = expected_run.
Proof. vm_compute. reflexivity. Qed.
Theorem C04_shape_apply_to_file_try :
  try_of (calls_only_list tk_apply_to_file) = [expected_apply_try].
Proof. vm_compute. reflexivity. Qed.

(* (b) what the events do not show *)
Theorem C04_src_seek_sites : apply_seek_sites = expected_seek_sites.
Proof. reflexivity. Qed.
Theorem C04_src_getitem_args : getitem_tfld_args = expected_getitem_args.
Proof. reflexivity. Qed.
Theorem C04_src_run_probe_args : forall len,
  run_tfld_args len = (len, None, false).
Proof. reflexivity. Qed.
Theorem C04_src_comparisons : forall d since,
  getitem_line_info_cmp d since = (since <=? d) /\
  run_shortcut_cmp d since = (since <=? d).
Proof.
  intros d since. unfold getitem_line_info_cmp, run_shortcut_cmp.
  rewrite Z.geb_leb. split; reflexivity.
Qed.
Theorem C04_src_run_misc :
  run_bisect_fn = "bisect_left"%string /\ run_shortcut_slf = -1 /\
  run_returns_line_info_start = true.
Proof. repeat split; reflexivity. Qed.

(* (c) the generated trees, run over the model state with the generated
   pieces, are the model functions - for all inputs *)
Theorem C04_apply_to_file_is_source : forall H A L W tsw c since pos0,
  ap_interp apply_seek_sites (lenZ c) pos0 (run H A L W tsw c since pos0)
            true (try_of (calls_only_list tk_apply_to_file))
  = apply_to_file H A L W tsw c since pos0.
Proof.
  intros. rewrite C04_shape_apply_to_file_try, C04_src_seek_sites.
  apply ap_interp_correct.
Qed.

(* destructive=False: a successful search puts the file back where it was,
   the four give-up handlers still seek to 0 / the end of the file *)
Theorem C04_apply_to_file_nd_is_source : forall H A L W tsw c since pos0,
  ap_interp apply_seek_sites (lenZ c) pos0 (run H A L W tsw c since pos0)
            false (try_of (calls_only_list tk_apply_to_file))
  = apply_to_file_nd H A L W tsw c since pos0.
Proof.
  intros. rewrite C04_shape_apply_to_file_try, C04_src_seek_sites.
  apply ap_interp_correct_nd.
Qed.

Theorem C04_run_is_source : forall H A L W tsw c since pos0,
  rn_interp H A L W tsw c since pos0 run_tfld_args run_shortcut_slf
            run_shortcut_cmp (calls_only_list tk_seeker_run)
  = run H A L W tsw c since pos0.
Proof.
  intros. rewrite C04_shape_run. apply rn_interp_correct.
  - reflexivity.
  - reflexivity.
  - intros d s. apply (C04_src_comparisons d s).
Qed.

Theorem C04_getitem_is_source : forall H A L W tsw c since st offset,
  gi_interp H A L W tsw c since st offset getitem_tfld_args
            getitem_line_info_cmp (calls_only_list tk_seeker_getitem)
  = getitem H A L W tsw c since st offset.
Proof.
  intros. rewrite C04_shape_getitem, C04_src_getitem_args.
  apply gi_interp_correct. intros d s. apply (C04_src_comparisons d s).
Qed.

(* the seeker starts with found_any_date = False, line_info = None (the
   model's [st0]); its length is f.seek(0, 2) measured inside a
   SavedFilePosition block, which seeks back to where the file was, so
   constructing a seeker and reading lines / dates never moves the file *)
Theorem C04_seeker_init_is_source :
  st0 = (seeker_init_found_any_date, None) /\
  seeker_init_line_info_is_none = true /\
  seeker_length_seek = (0, 2) /\
  (forall n, seeker_len n = n) /\
  (forall p, saved_position_after_exit p = p).
Proof. repeat split; reflexivity. Qed.

(* SearchTask._run_search (Gen/SkelTree.v tk_run_search): between applying
   the file-level constraint and reading the lines nothing can return, raise
   or call out - whatever sits there (building locals with loops or
   comprehensions, logging) falls through to the read loop, so whatever
   position the constraint left the file at is where searching starts, for
   plain and gzip files alike *)
Theorem C04_run_search_reads_right_after_constraint :
  match between_calls "apply_global" "enumerate_lines"
                      (calls_only_list tk_run_search) with
  | Some seg => all_fall_through seg
  | None => false
  end = true.
Proof. vm_compute. reflexivity. Qed.

(* ---- non-vacuity ----------------------------------------------------------
   A toy oracle: a line is dated iff it starts with 'd' (100); its date is
   the next byte.  A 7-line log with undated lines at the start, in the
   middle (one empty, one with timestamp-looking text mid-line) and at the
   end, equal timestamps, no final line feed:
       "u" "d5" "d5" "" "xd9" "d7" "u"      line starts 0 2 5 8 9 13 16
   H = 4, A = 3, L = 3 (longest undated run = 2 = L - 1), W = 2. *)
Definition ex_tsw (w : list Z) : option Z :=
  match w with 100 :: d :: _ => Some d | _ => None end.
Definition ex_log : list Z :=
  [117; 10;  100; 53; 10;  100; 53; 10;  10;  120; 100; 57; 10;
   100; 55; 10;  117].

Example C04_example_hypotheses :
  empty_undated (ts_of ex_tsw 2 ex_log) ex_log /\
  all_within_budget 4 3 ex_log /\
  time_ordered (ts_of ex_tsw 2 ex_log) ex_log /\
  undated_runs_below 3 (ts_of ex_tsw 2 ex_log) ex_log /\
  line_starts ex_log = [0; 2; 5; 8; 9; 13; 16] /\
  max_undated_run (ts_of ex_tsw 2 ex_log) ex_log = 2.
Proof.
  split; [apply oracle_rejects_lf_gives_h0; [lia|reflexivity|reflexivity]|].
  split.
  { intros o Ho. apply (forall_offsets_check (within_budget 4 3 ex_log) 17);
      [vm_compute; reflexivity|exact Ho]. }
  split; [vm_compute; reflexivity|].
  split; [unfold undated_runs_below; vm_compute; discriminate|].
  split; vm_compute; reflexivity.
Qed.

(* since before / equal to / between / equal to / after the timestamps *)
Example C04_example_positions :
  map (fun since => apply_to_file 4 3 3 2 ex_tsw ex_log since 0)
      [50; 53; 54; 55; 56]
  = [Some 2; Some 2; Some 13; Some 13; Some 17] /\
  map (fun since => first_in_window (ts_of ex_tsw 2 ex_log) since ex_log)
      [50; 53; 54; 55; 56]
  = [2; 2; 13; 13; 17].
Proof. vm_compute. split; reflexivity. Qed.

(* (h3) is tight: with L = 2 the log "d5" "u" "u" has an undated run of
   length 2 = L at its end; for since = 60 (after every timestamp) the
   specification says end-of-file (6), the code raises
   TooManyLinesWithoutDate and rewinds to 0 *)
Example C04_h3_is_tight :
  let c := [100; 53; 10; 117; 10; 117] in
  max_undated_run (ts_of ex_tsw 2 c) c = 2 /\
  first_in_window (ts_of ex_tsw 2 c) 60 c = 6 /\
  run 4 3 2 2 ex_tsw c 60 0 = TooManyLinesWithoutDate /\
  apply_to_file 4 3 2 2 ex_tsw c 60 0 = Some 0 /\
  apply_to_file 4 3 3 2 ex_tsw c 60 0 = Some 6.
Proof. vm_compute. repeat split; reflexivity. Qed.

Print Assumptions C04_bisect_left_correct.
Print Assumptions C04_since_seek_exact.
Print Assumptions C04_real_since_seek_exact.
Print Assumptions C04_no_skip_no_old.
Print Assumptions C04_first_in_window_is_declarative.
Print Assumptions C04_apply_to_file_is_source.
Print Assumptions C04_apply_to_file_nd_is_source.
Print Assumptions C04_run_is_source.
Print Assumptions C04_getitem_is_source.
Print Assumptions C04_seeker_init_is_source.
Print Assumptions C04_run_search_reads_right_after_constraint.
