(* C12 - Gzip-compressed files are searched exactly like their uncompressed
   content.  PARTIAL BY NATURE: that CPython's GzipFile presents the
   decompressed stream like a plain file presents its bytes is trusted; what
   is proved is searchkit's own dispatch (Model/Gzip.v), tied to the source
   by the shape checker below, and T2 runs plain / gzip / multi-member gzip
   side by side. *)
From Coq Require Import String ZArith List Bool.
From SK Require Import Model.Skel Model.Stm Model.Gzip Model.GzipSk
     Proofs.Gzip Model.Task Proofs.TaskLoop Proofs.Compose Gen.SkelTree.
Import ListNotations.
Open Scope Z_scope.

(* for every search function that reports nothing on an empty stream, every
   two well-formed files with the same (decompressed) stream give the same
   outcome - results, line numbers, statistics, exceptions: whatever [Res]
   holds *)
Theorem C12_gzip_transparent :
  forall (Res : Type) (search : list Z -> Res) (empty : Res),
  search [] = empty ->
  forall f g, wf f -> wf g -> stream f = stream g ->
  Gzip.execute Res search empty f = Gzip.execute Res search empty g.
Proof. exact gzip_transparent. Qed.

(* every non-empty file takes exactly one of the two branches and both call
   the same search on the stream *)
Theorem C12_dispatch_total :
  forall (Res : Type) (search : list Z -> Res) (empty : Res),
  search [] = empty ->
  forall f, wf f -> Gzip.execute Res search empty f = search (stream f).
Proof. exact execute_is_search. Qed.

(* the premise [search [] = empty] holds for the task model of C01/C07:
   searching a descriptor that yields no line delivers exactly what the
   end-of-file pass makes of the initial handler states - nothing for simple
   searches, and nothing for sequence searches either (no section is open) -
   so gzip of empty content behaves like the zero-size shortcut *)
Theorem C12_search_of_nothing :
  forall (line D St R : Type) (key : D -> Z) (cons : D -> list Z)
         (ocon : Z -> line -> outcome) (init : D -> St)
         (step : D -> St -> Z -> line -> St * list R)
         (post : list (D * St) -> Z -> list R) (MAX NBUF : Z),
  (1 <= MAX)%Z -> forall ds,
  exists bs,
    Task.execute line D St R key cons ocon init step post MAX NBUF ds []
    = TaskOk bs /\
    concat bs = post (slot_states D St (search_defs D St key cons init ds)) 0%Z.
Proof. exact search_of_nothing. Qed.

(* tie to the source: execute() still has the modelled shape *)
Theorem C12_execute_shape_from_source : execute_shape_ok tk_execute = true.
Proof. vm_compute. reflexivity. Qed.

(* non-vacuity: plain empty file (zero-size shortcut) vs gzip of empty
   content (non-zero size, empty stream) vs plain/gzip of the same text *)
Example C12_example :
  let search := fun s : list Z => (Model.Gzip.lenZ (filter (Z.eqb 10) s), s) in
  let e := (0, @nil Z) in
  Gzip.execute _ search e (mkFile 0 Plain []) = Gzip.execute _ search e (mkFile 20 Gz []) /\
  Gzip.execute _ search e (mkFile 4 Plain [97; 10; 98; 10])
  = Gzip.execute _ search e (mkFile 24 Gz [97; 10; 98; 10]) /\
  wf (mkFile 0 Plain []) /\ wf (mkFile 20 Gz []) /\
  wf (mkFile 4 Plain [97; 10; 98; 10]).
Proof. vm_compute. repeat split; discriminate || reflexivity. Qed.

Print Assumptions C12_gzip_transparent.
Print Assumptions C12_dispatch_total.
Print Assumptions C12_execute_shape_from_source.
