(* C10 - Task failure or worker death: prompt exception, no hang, no
   leftovers.

   Model: Model/Lifecycle.v (one multi-file run() as a small-step machine over
   arbitrary schedules); vocabulary: Spec/Lifecycle.v.  [F] are the facts the
   model's transitions consult, computed from the CURRENT source's skeletons
   (Gen/Skeleton.v): execute()'s handler table, _run_mp's two handler tables,
   the stop() calls in _run_mp's finally.  All schedule-quantified theorems
   are proved for every such record satisfying [facts_ok] (Proofs/Lifecycle*.v)
   and instantiated here.

   Full statements: C10_failure_never_returns, C10_return_means_complete,
   C10_run_always_clean (any fault kind, any schedule: never stuck, always
   completable, clean end, mapped class), C10_raise_is_clean,
   C10_exit_clean_if_lock_free, C10_stuck_only_by_dead_owner,
   C10_observe_allowed, C10_moves_bounded, C10_second_run_is_first.
   Regression corpus (D8, repaired by the forced release in _run_mp's
   finally): C10_legacy_death_in_lock_refuted - the same model WITHOUT that
   release ([F_legacy]) hangs the second run / the first run.
   Not proved here (runtime, see evidence assumptions): process teardown,
   signal delivery and the pool's breakage detection are the runtime's; the
   model's "bounded" is a bound on the number of moves, wall-clock time is
   measured by the harness. *)
From Coq Require Import String ZArith List Bool Arith Lia.
From SK Require Import Model.Skel Model.Stm Model.CallCount Model.Lifecycle
     Model.LifecycleSk Spec.Lifecycle
     Proofs.CallCount Proofs.LifecycleProgress Proofs.LifecycleTop
     Gen.Skeleton Gen.SkelTree Gen.Exprs Gen.XLifecycle.
Import ListNotations.
Local Open Scope list_scope.
Local Open Scope nat_scope.

Definition F : facts := facts_of sk_execute sk_run_mp.

(* ------------------------------------------------ ties to the source (T1) *)
(* _run_mp: BrokenProcessPool from the future loop AND from the submit loop
   leaves as FileSearchException; both stop() calls are in the finally *)
Theorem C10_facts_ok : facts_ok F = true.
Proof. vm_compute. reflexivity. Qed.

Theorem C10_stops_in_finally : f_fin_res F = true /\ f_fin_info F = true.
Proof. vm_compute. split; reflexivity. Qed.

(* _run_mp's finally releases the store lock unconditionally BEFORE it joins
   the helper threads (D8's repair) *)
Theorem C10_force_release_first : f_fin_free F = true.
Proof. vm_compute. reflexivity. Qed.

(* execute(): UnicodeDecodeError is re-raised, anything else that happens
   inside the try leaves as FileSearchException (handler ORDER matters: the
   table is scanned in source order) *)
Theorem C10_execute_table_ok : exec_table_ok false (f_handlers F) = true.
Proof. vm_compute. reflexivity. Qed.

Theorem C10_execute_mapping : forall e,
  map_exc (f_handlers F) e = if String.eqb e E_UDE then E_UDE else E_FSE.
Proof.
  intros e. apply (exec_table_sound _ false C10_execute_table_ok).
  intros H; discriminate H.
Qed.

(* _run_mp: a task's exception passes unchanged, a broken pool is mapped *)
Theorem C10_pool_tables_ok :
  pool_table_ok (f_inner F) = true /\ pool_table_ok (f_outer F) = true.
Proof. vm_compute. split; reflexivity. Qed.

Theorem C10_main_mapping : forall e,
  main_class F e = if String.eqb e E_BPP then E_FSE else e.
Proof.
  exact (main_class_sound F C10_facts_ok (proj1 C10_pool_tables_ok)
                          (proj2 C10_pool_tables_ok)).
Qed.

Theorem C10_submit_mapping : submit_class F = E_FSE.
Proof. vm_compute. reflexivity. Qed.

(* where the calls sit in the source *)
Theorem C10_sync_inside_try :
  call_in_outer_try_body "sync" sk_execute = true /\
  sync_outside_try sk_execute = false.
Proof. vm_compute. split; reflexivity. Qed.

Theorem C10_loops_inside_tries :
  future_loop_in_inner_try sk_run_mp = true /\
  submit_in_outer_try_only sk_run_mp = true.
Proof. vm_compute. split; reflexivity. Qed.

Theorem C10_purge_only_after_futures :
  purge_only_after_futures sk_run_mp = true /\ stops_before_purge sk_run_mp = true.
Proof. vm_compute. split; reflexivity. Qed.

Theorem C10_unproxy_inside_manager : unproxy_inside_manager sk_run = true.
Proof. vm_compute. reflexivity. Qed.

(* preallocate() and sync() each take the store lock once, around a
   non-empty group of accesses: a process can die inside *)
Theorem C10_locked_regions :
  takes_store_lock sk_preallocate = true /\ takes_store_lock sk_sync = true /\
  1 <= crit_k (crit_of sk_preallocate) /\ 1 <= crit_k (crit_of sk_sync).
Proof. vm_compute. repeat split; repeat constructor. Qed.

(* ------------------- the small functions around the life cycle (T1) *)
(* run(): several files ALWAYS go through the pool, whatever the worker
   count - the process isolation every "abrupt worker exit" statement below
   relies on (a task executed in the calling process would take the caller
   down with it) *)
Theorem C10_several_files_use_the_pool : forall files : Z,
  (1 < files)%Z -> run_uses_pool files = true.
Proof. intros files H. unfold run_uses_pool. apply Z.ltb_lt. exact H. Qed.

(* ThreadManager.stop(): the extracted body, executed for either value of
   the `running` flag it tests (the polarity of the test - `if running:` or
   the early-return spelling `if not running: return` - comes from
   Gen/XLifecycle.v), makes exactly the calls the model's
   MStop*/MJoin* steps stand for: nothing for a thread never started,
   otherwise event.set() and THEN thread.join(); the flag is written *)
Theorem C10_thread_stop_is_model : forall running,
  run_if (xorb tm_stop_test_negated running) Exec sk_tm_stop
  = model_stop_calls running.
Proof. intros [|]; vm_compute; reflexivity. Qed.

Theorem C10_thread_stop_shape :
  if_tests_cell "running" sk_tm_stop = true /\
  mem_str "running" (writes_of sk_tm_stop) = true.
Proof. vm_compute. split; reflexivity. Qed.

(* ... which is what the model does at MStopRes / MStopInfo *)
Theorem C10_model_stop_steps : forall f c s ph oe,
  s_pc s = MStopRes ph oe ->
  step_main f c s =
  Some (match s_res s with
        | RNotStarted => set_pc s (next_after_res f ph oe)
        | _ => set_pc (set_rstop s true) (MJoinRes ph oe)
        end).
Proof.
  intros f c s ph oe H. unfold step_main. rewrite H.
  destruct (s_res s); reflexivity.
Qed.

(* over EVERY event sequence stop() admits (exceptions included) the thread
   is joined at most once and told to stop at most once *)
Theorem C10_thread_joined_at_most_once : forall t,
  trl tk_tm_stop t ->
  (count (is_call "thread_join") t <= 1)%nat /\
  (count (is_call "event_set") t <= 1)%nat.
Proof.
  intros t H. split; apply (count_bounded_list _ _ _ _ H); vm_compute; reflexivity.
Qed.

(* start() starts the thread once and records it; __init__ creates event and
   thread but does NOT start the thread (the model's *NotStarted states) *)
Theorem C10_thread_start_init_shape :
  str_list_eqb (calls_of sk_tm_start) ["thread_start"] = true /\
  mem_str "running" (writes_of sk_tm_start) = true /\
  mem_str "thread_start" (calls_of sk_tm_init) = false /\
  mem_str "thread_new" (calls_of sk_tm_init) = true /\
  mem_str "event_new" (calls_of sk_tm_init) = true /\
  mem_str "running" (writes_of sk_tm_init) = true.
Proof. vm_compute. repeat split; reflexivity. Qed.

(* _ensure_worker_processes_killed(): every os.kill is guarded against a
   worker that is already gone and the function raises nothing itself - the
   model's MKill step cannot fail; the child list is taken once *)
Theorem C10_kill_workers_guarded : kill_guarded sk_kill_workers = true.
Proof. vm_compute. reflexivity. Qed.

Theorem C10_kill_workers_lists_once : forall t,
  trl tk_kill_workers t ->
  (count (is_call "active_children") t <= 1)%nat /\
  (count (is_call "ps_children") t <= 1)%nat.
Proof.
  intros t H. split; apply (count_bounded_list _ _ _ _ H); vm_compute; reflexivity.
Qed.

Theorem C10_model_kill_step_total : forall f c s,
  s_pc s = MKill -> step_main f c s <> None.
Proof. intros f c s H. unfold step_main. rewrite H. discriminate. Qed.

(* SearchConstraintsManager.__init__ only initialises its three fields;
   FileSearcher.stats is a pure accessor of the run's statistics object *)
Theorem C10_plain_constructor_and_accessor :
  str_list_eqb (writes_of sk_cm_init)
               ["search_catalog"; "global_constraints"; "global_restrictions"]
  = true /\
  calls_of sk_cm_init = [] /\
  str_list_eqb (reads_of sk_fs_stats) ["stats"] = true /\
  calls_of sk_fs_stats = [] /\ writes_of sk_fs_stats = [].
Proof. vm_compute. repeat split; reflexivity. Qed.

(* both exception classes keep the constructor arguments stored by
   BaseException.__new__: a FileSearchException raised in a worker can be
   re-created in the parent (the future carries it as a pickle) *)
Theorem C10_exceptions_cross_processes :
  plain_exc_init sk_fse_init = true /\ plain_exc_init sk_rse_init = true.
Proof. vm_compute. split; reflexivity. Qed.

(* execute(): whatever the SEARCH of a file raises (also an OSError /
   BadGzipFile from a damaged gzip stream, which the gzip PROBE's own
   `except OSError` must not see) reaches the outer handler table, i.e. is
   mapped by C10_execute_mapping; the same for the final flush and sync *)
Theorem C10_search_failures_reach_the_table :
  forallb (fun g =>
    forallb (fun x => reaches_outer_table g x sk_execute)
            ["OSError"; "EOFError"; "UnicodeDecodeError"; "RuntimeError"])
    ["run_search"; "flush"; "sync"] = true.
Proof. vm_compute. reflexivity. Qed.

(* "the same process can afterwards run further searches that complete
   correctly": the per-file reset of the sequence definitions happens before
   the file is read, so it cannot be skipped by a failure mid-file *)
Theorem C10_definitions_reset_before_reading :
  resets_before_reading sk_run_search = true.
Proof. vm_compute. reflexivity. Qed.

(* every FileSearchException raised in task.py / search.py is built from
   text only: the object a worker pickles to report its failure never holds
   the original exception (which need not be picklable) *)
Theorem C10_only_text_crosses_processes :
  only_text_raised fse_raise_sites = true.
Proof. vm_compute. reflexivity. Qed.

(* ------------------------------------------------------------- theorems *)
(* a fault that fired is never followed by a normal return *)
Theorem C10_failure_never_returns : forall c st co sched,
  lock_init st -> lock_init co ->
  let s := run F c sched (init c st co) in
  s_fired s = true -> s_pc s <> MReturn.
Proof. exact (top_failure_never_returns F C10_facts_ok). Qed.

(* ... and a normal return means every task completed: no partial results *)
Theorem C10_return_means_complete : forall c st co sched,
  lock_init st -> lock_init co ->
  let s := run F c sched (init c st co) in
  s_pc s = MReturn ->
  s_fired s = false /\ forall t, t < ntasks c -> s_futs s t = FOk.
Proof. exact (top_return_means_complete F C10_facts_ok). Qed.

(* THE property, for the code as it is now: any tasks, any worker count >= 1,
   any fault plan (task exception or abrupt worker exit at any point, or
   none), any schedule: the run is never stuck, can always be driven to its
   end; at the end both helper threads are joined, no worker and no manager
   is left, both locks are free and the next run starts exactly like a first
   run; an exception leaving run() has the mapped class
   (FileSearchException for a dead worker); a fired fault never ends in a
   normal return *)
Theorem C10_run_always_clean : forall c sched,
  1 <= c_workers c ->
  let s := run F c sched (init c None None) in
  (final s = false -> can_move F c s) /\
  ~ stuck F c s /\
  (final s = true -> clean_end c s) /\
  (forall e, s_pc s = MRaised e ->
     s_fired s = true /\
     exists p, c_plan c = Some p /\
       match p_kind p with
       | KRaise e0 => e = expected_class F c p e0
       | KExit => e = E_FSE
       end) /\
  (s_fired s = true -> s_pc s <> MReturn) /\
  (exists sched', final (run F c (sched ++ sched') (init c None None)) = true).
Proof.
  exact (fun c sched =>
           top_run_always_clean F C10_facts_ok c sched C10_force_release_first).
Qed.

(* kind = Raise (or no fault), any tasks, any worker count >= 1, any schedule:
   no lock is ever orphaned; some actor can always move until run() ends;
   the run can always be driven to its end; at the end both helper threads
   are joined, no worker and no manager is left, both locks are free and the
   next run starts exactly like a first run; an exception that leaves run()
   has the mapped class; a fired fault never ends in a return *)
Theorem C10_raise_is_clean : forall c sched,
  plan_raises c -> 1 <= c_workers c ->
  let s := run F c sched (init c None None) in
  (dead_ownerb s (s_store s) = false /\ dead_ownerb s (s_coll s) = false) /\
  (final s = false -> can_move F c s) /\
  (final s = true -> clean_end c s) /\
  (forall e, s_pc s = MRaised e ->
     s_fired s = true /\
     exists p e0, c_plan c = Some p /\ p_kind p = KRaise e0 /\
                  e = expected_class F c p e0) /\
  (s_fired s = true -> s_pc s <> MReturn) /\
  (exists sched', final (run F c (sched ++ sched') (init c None None)) = true).
Proof. exact (top_raise_is_clean F C10_facts_ok). Qed.

(* kind = Exit: as long as no process has died owning the store lock the
   same holds, with FileSearchException *)
Theorem C10_exit_clean_if_lock_free : forall c sched p,
  1 <= c_workers c -> c_plan c = Some p -> p_kind p = KExit ->
  let s := run F c sched (init c None None) in
  dead_ownerb s (s_store s) = false ->
  (final s = false -> can_move F c s) /\
  (final s = true -> clean_end c s) /\
  (forall e, s_pc s = MRaised e -> s_fired s = true /\ e = E_FSE) /\
  (s_fired s = true -> s_pc s <> MReturn).
Proof. exact (top_exit_clean_if_lock_free F C10_facts_ok). Qed.

(* the only hangs are those with a lock owned by a dead process *)
Theorem C10_stuck_only_by_dead_owner : forall c st co sched,
  lock_init st -> lock_init co -> 1 <= c_workers c ->
  let s := run F c sched (init c st co) in
  stuck F c s ->
  dead_ownerb s (s_store s) = true \/ dead_ownerb s (s_coll s) = true.
Proof. exact (top_stuck_only_by_dead_owner F C10_facts_ok). Qed.

Theorem C10_first_run_stuck_only_by_store_lock : forall c sched,
  1 <= c_workers c ->
  let s := run F c sched (init c None None) in
  stuck F c s -> dead_ownerb s (s_store s) = true.
Proof. exact (top_fresh_stuck_is_store F C10_facts_ok). Qed.

(* the code before D8's repair: the same facts without the forced release *)
Definition F_legacy : facts :=
  mkFacts (f_handlers F) (f_inner F) (f_outer F) (f_fin_res F) (f_fin_info F)
          false.
Lemma legacy_facts_ok : facts_ok F_legacy = true.
Proof. vm_compute. reflexivity. Qed.

(* legacy: an abrupt exit INSIDE a locked region always orphaned the lock *)
Theorem C10_legacy_exit_in_lock_orphans : forall c sched p r,
  c_plan c = Some p -> p_kind p = KExit -> p_j p = Some r ->
  let s := run F_legacy c sched (init c None None) in
  s_fired s = true -> dead_ownerb s (s_store s) = true.
Proof.
  exact (fun c sched p r =>
           top_exit_in_lock_orphans F_legacy legacy_facts_ok c sched p r eq_refl).
Qed.

(* a run makes a bounded number of moves, whatever the schedule *)
Theorem C10_moves_bounded : forall c st co, lock_init st -> lock_init co ->
  exists B, forall sched, moves F c sched (init c st co) <= B.
Proof. exact (top_moves_bounded F C10_facts_ok). Qed.

(* after a clean first run the second run IS a first run *)
Theorem C10_second_run_is_first : forall c sched c' sched',
  let s := run F c sched (init c None None) in
  final s = true -> dead_ownerb s (s_store s) = false ->
  run F c' sched' (restart s c') = run F c' sched' (init c' None None).
Proof. exact (top_second_run_is_first F C10_facts_ok). Qed.

(* what the fault sweep may observe at the end (or hang) of a faulted run *)
Theorem C10_observe_allowed : forall c sched p, 1 <= c_workers c ->
  c_plan c = Some p ->
  let s := run F c sched (init c None None) in
  s_fired s = true -> final s = true \/ stuck F c s ->
  obs_mem (observe s) (allowed F c p) = true.
Proof. exact (top_observe_allowed F C10_facts_ok). Qed.

(* D8(a), general form: once the store lock has a dead owner no fault-free
   run of any configuration ever finishes *)
Theorem C10_orphaned_lock_dooms_next_run : forall c sched c',
  let s := run F c sched (init c None None) in
  dead_ownerb s (s_store s) = true -> plain_cfg c' ->
  doomed F c' (restart s c').
Proof. exact (top_second_run_doomed F). Qed.

(* --------------------------------------------- the sweep's task programs *)
Definition AL : item := crit_of sk_preallocate.
Definition SY : item := crit_of sk_sync.
Definition SO : bool := sync_outside_try sk_execute.
Definition P : prog := task_prog AL SY SO 1 2.

Fixpoint rep {A} (n : nat) (l : list A) : list A :=
  match n with O => [] | S m => l ++ rep m l end.

Definition mk (pt : option (nat * point * kind)) (ib rb : nat) : cfg :=
  mkCfg [P; P] 2
        (match pt with
         | Some (t, x, k) =>
             let '(i, j) := point_pos AL SY SO 1 2 x in Some (mkPlan t i j k)
         | None => None
         end) ib rb.
Definition gof (f : facts) (c : cfg) (n : nat) : state :=
  run f c (rep n (actors c)) (init c None None).
Definition go := gof F.

Definition cleanb (c : cfg) (s : state) : bool :=
  match s_info s, s_res s with IDone, RDone => true | _, _ => false end
  && forallb (fun w => is_dead (s_ws s w)) (seq 0 (c_workers c))
  && negb (s_mgr s)
  && match s_store s, s_coll s with None, None => true | _, _ => false end.

(* classes reaching the caller for a RuntimeError / UnicodeDecodeError
   injected at each named point of the sweep: every point up to and including
   sync() is inside the try *)
Example C10_point_classes :
  map (fun pt => let '(i, _) := point_pos AL SY SO 1 2 pt in
                 (main_class F (raise_class F (mk None 0 0) 0 i "RuntimeError"),
                  main_class F (raise_class F (mk None 0 0) 0 i E_UDE)))
      [PtBeforeOpen; PtLine; PtBeforePut; PtAfterPut; PtBeforeAlloc;
       PtAllocInside; PtAfterAlloc; PtBeforeSync; PtSyncInside; PtAfterSync]
  = repeat (E_FSE, E_UDE) 10.
Proof. vm_compute. reflexivity. Qed.

(* a hand-over that fails inside the queue proxy (reset / broken connection
   to the manager, EOF, any OSError) is a task exception like any other: the
   put sits inside execute()'s try, so it leaves as FileSearchException *)
Example C10_put_failure_classes :
  map (fun e => let '(i, _) := point_pos AL SY SO 1 2 PtBeforePut in
                main_class F (raise_class F (mk None 0 0) 0 i e))
      ["ConnectionResetError"; "BrokenPipeError"; "ConnectionError";
       "EOFError"; "OSError"]%string
  = repeat E_FSE 5.
Proof. vm_compute. reflexivity. Qed.

Example C10_example_connection_reset_at_put :
  let c := mk (Some (1, PtBeforePut, KRaise "ConnectionResetError")) 1 1 in
  let s := go c 60 in
  s_fired s = true /\ s_pc s = MRaised E_FSE /\ cleanb c s = true.
Proof. vm_compute. repeat split; reflexivity. Qed.

(* non-vacuity: the hypotheses are satisfiable and the conclusions are hit *)
Example C10_example_fault_free_returns :
  let c := mk None 1 1 in let s := go c 60 in
  s_pc s = MReturn /\ cleanb c s = true /\ s_fired s = false.
Proof. vm_compute. repeat split; reflexivity. Qed.

Example C10_example_raise_mid_file :
  let c := mk (Some (1, PtLine, KRaise "RuntimeError")) 1 1 in
  let s := go c 60 in
  plan_raises c /\ s_fired s = true /\ s_pc s = MRaised E_FSE /\
  cleanb c s = true.
Proof. vm_compute. repeat split; reflexivity. Qed.

Example C10_example_raise_inside_sync_lock :
  let c := mk (Some (1, PtSyncInside, KRaise "RuntimeError")) 1 1 in
  let s := go c 60 in
  s_fired s = true /\ s_pc s = MRaised E_FSE /\ cleanb c s = true.
Proof. vm_compute. repeat split; reflexivity. Qed.

Example C10_example_undecodable :
  let c := mk (Some (0, PtLine, KRaise E_UDE)) 1 1 in
  let s := go c 60 in
  s_fired s = true /\ s_pc s = MRaised E_UDE /\ cleanb c s = true.
Proof. vm_compute. repeat split; reflexivity. Qed.

(* a worker exits INSIDE preallocate's locked region while the info thread
   is about to poll the lock, resp. OUTSIDE any lock while the pool then
   terminates the sibling inside one: FileSearchException, clean end *)
Example C10_example_exit_inside_lock_is_clean :
  let c := mk (Some (0, PtAllocInside, KExit)) 1 1 in
  let s := go c 40 in
  s_fired s = true /\ s_pc s = MRaised E_FSE /\ cleanb c s = true.
Proof. vm_compute. repeat split; reflexivity. Qed.

Example C10_example_sibling_terminated_in_lock_is_clean :
  let c := mk (Some (0, PtLine, KExit)) 1 1 in
  let s := go c 40 in
  s_fired s = true /\ s_pc s = MRaised E_FSE /\ cleanb c s = true.
Proof. vm_compute. repeat split; reflexivity. Qed.

Example C10_example_exit_lock_free :
  let c := mk (Some (0, PtBeforeOpen, KExit)) 0 1 in
  let s := go c 30 in
  s_fired s = true /\ s_pc s = MRaised E_FSE /\ cleanb c s = true /\
  dead_ownerb s (s_store s) = false.
Proof. vm_compute. repeat split; reflexivity. Qed.

(* a worker dying while the parent is still submitting: mapped as well *)
Example C10_example_exit_during_submit :
  let c := mk (Some (0, PtBeforeOpen, KExit)) 0 1 in
  let s := run F c ([AMain; AMain; AWorker 0; AWorker 0; APool; AMain]
                      ++ rep 20 (actors c)) (init c None None) in
  s_fired s = true /\ s_pc s = MRaised E_FSE /\ s_res s = RNotStarted /\
  s_futs s 1 = FNone /\ dead_ownerb s (s_store s) = false /\ s_mgr s = false.
Proof. vm_compute. repeat split; reflexivity. Qed.

(* the checkers above are meaningful for the model: drop info_thread.stop()
   from the finally and a task exception leaves the info thread running;
   drop the BrokenProcessPool handlers and the raw class escapes *)
Example C10_finally_matters :
  let F' := mkFacts (f_handlers F) (f_inner F) (f_outer F) true false true in
  let c := mk (Some (1, PtLine, KRaise "RuntimeError")) 1 1 in
  let s := run F' c (rep 60 (actors c)) (init c None None) in
  s_pc s = MRaised E_FSE /\ s_info s <> IDone /\ s_info s <> INotStarted.
Proof. vm_compute. repeat split; discriminate. Qed.

Example C10_handlers_matter :
  let F' := mkFacts (f_handlers F) [] [] true true true in
  let c := mk (Some (0, PtBeforeOpen, KExit)) 0 1 in
  let s := run F' c (rep 30 (actors c)) (init c None None) in
  s_pc s = MRaised E_BPP.
Proof. vm_compute. reflexivity. Qed.

Example C10_sync_position_matters :
  (* with sync() after the try (the code before the repair) an exception in
     it would reach the caller unmapped *)
  let P' := task_prog AL SY true 1 2 in
  let c := mkCfg [P'; P'] 2 None 0 0 in
  let '(i, _) := point_pos AL SY true 1 2 PtSyncInside in
  main_class F (raise_class F c 0 i "RuntimeError") = "RuntimeError"%string.
Proof. vm_compute. reflexivity. Qed.

(* ---------------------------------- D8 (repaired): regression corpus *)
Lemma plain_mk : plain_cfg (mk None 1 1).
Proof. repeat split; vm_compute; try reflexivity; repeat constructor. Qed.

(* WITHOUT the forced release in the finally ([F_legacy], the code before
   commit "a worker that dies holding the results store lock must not block
   later searches") the property is FALSE of the model:
   (1) a worker exits inside preallocate's locked region: run 1 raises
       FileSearchException and is otherwise clean, but the lock keeps its
       dead owner; then NO fault-free second run of any configuration ever
       finishes, and a concrete schedule deadlocks it;
   (2) the same when the worker exits OUTSIDE any locked region and the
       sibling is terminated by the broken pool inside one;
   (3) if the info thread asks for the store lock before it is told to stop,
       the FIRST run deadlocks too (main waits in info_thread.stop()). *)
Theorem C10_legacy_death_in_lock_refuted :
  (exists c sched,
     let s1 := run F_legacy c sched (init c None None) in
     (exists p r, c_plan c = Some p /\ p_kind p = KExit /\ p_j p = Some r) /\
     s_pc s1 = MRaised E_FSE /\ dead_ownerb s1 (s_store s1) = true /\
     (forall c2, plain_cfg c2 -> doomed F_legacy c2 (restart s1 c2)) /\
     (exists c2 sched2, plain_cfg c2 /\
        stuck F_legacy c2 (run F_legacy c2 sched2 (restart s1 c2)))) /\
  (exists c sched,
     let s1 := run F_legacy c sched (init c None None) in
     (exists p, c_plan c = Some p /\ p_kind p = KExit /\ p_j p = None) /\
     s_pc s1 = MRaised E_FSE /\ dead_ownerb s1 (s_store s1) = true /\
     (forall c2, plain_cfg c2 -> doomed F_legacy c2 (restart s1 c2))) /\
  (exists c sched,
     let s1 := run F_legacy c sched (init c None None) in
     stuck F_legacy c s1 /\ s_pc s1 = MJoinInfo PFin (Some E_FSE) /\
     s_info s1 = IWantStore /\ dead_ownerb s1 (s_store s1) = true).
Proof.
  split; [|split].
  - exists (mk (Some (0, PtAllocInside, KExit)) 0 1).
    exists (rep 30 (actors (mk (Some (0, PtAllocInside, KExit)) 0 1))).
    cbv zeta.
    split; [eexists; eexists; vm_compute; repeat split; reflexivity|].
    split; [vm_compute; reflexivity|].
    assert (D : dead_ownerb
                  (run F_legacy (mk (Some (0, PtAllocInside, KExit)) 0 1)
                       (rep 30 (actors (mk (Some (0, PtAllocInside, KExit)) 0 1)))
                       (init (mk (Some (0, PtAllocInside, KExit)) 0 1) None None))
                  (s_store
                     (run F_legacy (mk (Some (0, PtAllocInside, KExit)) 0 1)
                       (rep 30 (actors (mk (Some (0, PtAllocInside, KExit)) 0 1)))
                       (init (mk (Some (0, PtAllocInside, KExit)) 0 1) None None)))
                = true) by (vm_compute; reflexivity).
    split; [exact D|].
    split.
    + intros c2 Hp. apply (top_second_run_doomed F_legacy); assumption.
    + exists (mk None 1 1). exists (rep 20 (actors (mk None 1 1))).
      split; [exact plain_mk|]. apply stuckb_sound. vm_compute. reflexivity.
  - exists (mk (Some (0, PtLine, KExit)) 0 1).
    exists (rep 30 (actors (mk (Some (0, PtLine, KExit)) 0 1))).
    cbv zeta.
    split; [eexists; vm_compute; repeat split; reflexivity|].
    split; [vm_compute; reflexivity|].
    assert (D : dead_ownerb
                  (run F_legacy (mk (Some (0, PtLine, KExit)) 0 1)
                       (rep 30 (actors (mk (Some (0, PtLine, KExit)) 0 1)))
                       (init (mk (Some (0, PtLine, KExit)) 0 1) None None))
                  (s_store
                     (run F_legacy (mk (Some (0, PtLine, KExit)) 0 1)
                       (rep 30 (actors (mk (Some (0, PtLine, KExit)) 0 1)))
                       (init (mk (Some (0, PtLine, KExit)) 0 1) None None)))
                = true) by (vm_compute; reflexivity).
    split; [exact D|].
    intros c2 Hp. apply (top_second_run_doomed F_legacy); assumption.
  - exists (mk (Some (0, PtAllocInside, KExit)) 1 1).
    exists (rep 30 (actors (mk (Some (0, PtAllocInside, KExit)) 1 1))).
    cbv zeta.
    split; [apply stuckb_sound; vm_compute; reflexivity|].
    vm_compute. repeat split; reflexivity.
Qed.

Print Assumptions C10_several_files_use_the_pool.
Print Assumptions C10_thread_stop_is_model.
Print Assumptions C10_thread_stop_shape.
Print Assumptions C10_model_stop_steps.
Print Assumptions C10_thread_joined_at_most_once.
Print Assumptions C10_thread_start_init_shape.
Print Assumptions C10_kill_workers_guarded.
Print Assumptions C10_kill_workers_lists_once.
Print Assumptions C10_model_kill_step_total.
Print Assumptions C10_plain_constructor_and_accessor.
Print Assumptions C10_exceptions_cross_processes.
Print Assumptions C10_search_failures_reach_the_table.
Print Assumptions C10_only_text_crosses_processes.
Print Assumptions C10_definitions_reset_before_reading.
Print Assumptions C10_facts_ok.
Print Assumptions C10_execute_mapping.
Print Assumptions C10_main_mapping.
Print Assumptions C10_failure_never_returns.
Print Assumptions C10_return_means_complete.
Print Assumptions C10_raise_is_clean.
Print Assumptions C10_exit_clean_if_lock_free.
Print Assumptions C10_stuck_only_by_dead_owner.
Print Assumptions C10_run_always_clean.
Print Assumptions C10_legacy_exit_in_lock_orphans.
Print Assumptions C10_moves_bounded.
Print Assumptions C10_second_run_is_first.
Print Assumptions C10_observe_allowed.
Print Assumptions C10_orphaned_lock_dooms_next_run.
Print Assumptions C10_legacy_death_in_lock_refuted.
