(* C03 - Sequence search reports exactly the complete sections; none is ever
   lost.

   Model:  Model/Sequence.v  (_sequence_search, _process_sequence_results,
           SequenceSearchDef.start/stop/reset, SequenceSearchResults,
           find_sequence_sections; one definition and several definitions
           sharing the results object and the uuid source).
   Spec:   Spec/Sequence.v   ([sections]: a parser written from the property
           text).
   Every theorem below holds for ALL lists of classified lines (any length,
   lines matching any subset of start / end / body) and ALL definition
   shapes (end present or not, body present or not, end matching the empty
   string or not). *)
From Coq Require Import ZArith List Bool Arith.
From SK Require Import Model.Skel Model.Stm Model.Sequence Model.SequenceSk
     Spec.Sequence
     Proofs.Sequence Proofs.SequenceMulti Proofs.SequenceIds Proofs.SequenceSkel
     Gen.Skeleton Gen.SkelTree Gen.XSequence.
Import ListNotations.
Open Scope Z_scope.

(* --- sequence_exact ---------------------------------------------------- *)
(* what find_sequence_sections shows (sections in order of appearance, each
   a list of (line, role, captures), ids erased) is exactly the
   specification's list of complete sections *)
Theorem C03_sequence_exact : forall sh l,
  report (seq_run sh l) = spec_report sh l.
Proof. exact sequence_exact_report. Qed.

(* strong form: the exported result list IS the concatenation of the
   complete sections in order, each labelled with one section id, the ids
   pairwise distinct ([tagged], Proofs/Sequence.v) *)
Theorem C03_sequence_exact_ids : forall sh l,
  exists ids, NoDup ids /\ length ids = length (sections sh l) /\
              seq_run sh l = tagged ids (sections sh l).
Proof. exact sequence_exact_tagged. Qed.

(* the dictionary returned by find_sequence_sections: one entry per complete
   section, keyed by pairwise distinct ids *)
Theorem C03_section_ids_distinct : forall sh l,
  exists ids, NoDup ids /\
    group_by_section (seq_run sh l)
    = combine ids (map section_items (sections sh l)) /\
    length ids = length (sections sh l).
Proof. exact sequence_exact_groups. Qed.

(* each reported section lists its parts in strictly increasing line order
   (start, then body matches, then end) *)
Theorem C03_parts_in_line_order : forall sh l,
  Forall (fun its => increasing (map item_ln its)) (report (seq_run sh l)).
Proof. exact report_line_order. Qed.

(* a definition without an end reports exactly one section per line matching
   its start pattern, however many there are (used by the many-sections
   run of the harness, where only the number and the ids are compared) *)
Theorem C03_noend_one_section_per_start : forall sh l,
  has_end sh = false ->
  length (report (seq_run sh l)) = length (filter is_start l).
Proof. exact report_noend_count. Qed.

(* --- earlier_sections_stable ------------------------------------------- *)
(* the sections closed by a line of l1 are reported identically (same ids,
   same parts, same position) whatever follows l1 *)
Theorem C03_earlier_sections_stable : forall sh l1 l2,
  let n := length (closed_sections sh l1) in
  firstn n (group_by_section (seq_run sh (l1 ++ l2)))
  = firstn n (group_by_section (seq_run sh l1)) /\
  map snd (firstn n (group_by_section (seq_run sh l1)))
  = map section_items (closed_sections sh l1).
Proof. exact stable_groups. Qed.

(* the same on the specification: the sections closed within l1 are all of
   l1's sections except possibly one completed by the end of file, and they
   are a prefix of the sections of any extension *)
Theorem C03_spec_sections_prefix : forall sh l1 l2,
  (exists tail, sections sh l1 = closed_sections sh l1 ++ tail /\
                (length tail <= 1)%nat) /\
  (exists rest, sections sh (l1 ++ l2) = closed_sections sh l1 ++ rest).
Proof. exact sections_prefix. Qed.

(* --- independence ------------------------------------------------------ *)
(* several definitions in one pass over the file (shared results object,
   shared uuid source, any number of definitions of any shapes): each
   definition's report is the one it gets when it runs alone *)
Theorem C03_independence : forall shapes l key sh,
  nth_error shapes key = Some sh ->
  report (m_view key (m_run shapes l)) = report (seq_run sh (lines_of key l)).
Proof. exact independence. Qed.

(* ... and is exactly the specification's, each section under its own id *)
Theorem C03_multi_exact : forall shapes l key sh,
  nth_error shapes key = Some sh ->
  report (m_view key (m_run shapes l)) = spec_report sh (lines_of key l) /\
  exists ids, NoDup ids /\
    length ids = length (sections sh (lines_of key l)) /\
    m_view key (m_run shapes l) = tagged ids (sections sh (lines_of key l)).
Proof.
  intros shapes l key sh H. split.
  - exact (multi_exact_report shapes l key sh H).
  - exact (multi_exact_tagged shapes l key sh H).
Qed.

(* section ids of different definitions never coincide, so merging their
   section dictionaries (find_sequence_by_tag for definitions sharing a tag)
   loses nothing *)
Theorem C03_ids_distinct_across_definitions : forall shapes l k1 k2 p1 p2,
  k1 <> k2 ->
  In p1 (m_view k1 (m_run shapes l)) ->
  In p2 (m_view k2 (m_run shapes l)) ->
  fst p1 <> fst p2.
Proof. exact multi_ids_disjoint. Qed.

(* --- the repaired defect D3 (regression witness) ------------------------ *)
(* on the model of the code BEFORE `fix: sequence restart must only discard
   the open section` the word S,B,E,S,S,B,E yields one section although the
   specification (and the current model) says two *)
Theorem C03_legacy_sequence_refuted :
  exists sh l, length (spec_report sh l) = 2%nat /\
               length (report (legacy_seq_run sh l)) = 1%nat /\
               report (seq_run sh l) = spec_report sh l.
Proof. exact legacy_refuted. Qed.

(* --- T1: shape of _run_search ------------------------------------------ *)
(* definitions are reset before the file is read, _sequence_search runs
   once per (line, definition), _process_sequence_results once after the
   last line - what [seq_run] = [seq_loop] from [init_state] then [seq_eof]
   assumes *)
Theorem C03_run_search_shape : run_search_shape sk_run_search = true.
Proof. vm_compute. reflexivity. Qed.

(* --- T1: _sequence_search / _process_sequence_results, branch for branch - *)
(* (a) how often each call occurs in _sequence_search (helpers walked in
   place, any arrangement of tests): Model/SequenceSk.v
   [expected_sequence_search_counts] *)
Theorem C03_sequence_search_calls :
  sequence_search_counts tk_sequence_search = true.
Proof. vm_compute. reflexivity. Qed.

(* _process_sequence_results: the calls that matter and the number of loops
   around each - the end pattern is run and its result added once per
   definition, results are exported once per (sequence, result) - whatever
   the way its tests are written (merged, nested, early `continue`) *)
Theorem C03_process_sequence_results_calls :
  eof_calls sk_process_sequence_results = true.
Proof. vm_compute. reflexivity. Qed.

(* (b) interpreting the extracted tree of _sequence_search - each call event
   as the model operation of that name, each `if` classified by the
   attributes it reads and decided by the corresponding model condition
   ([sinterp]: robust to elif / early return / negated tests / a helper
   walked in place) - IS the model's step, for every definition
   shape, every state and every line *)
Theorem C03_sequence_search_is_ctl_step : forall sh k c,
  run_seq_tree tk_sequence_search sh k c = Some (ctl_step sh k c).
Proof.
  intros [he hb ee] [stt cu nx] [cs ce cb].
  destruct he, stt, cs, ce, hb, cb; vm_compute; reflexivity.
Qed.

(* the per-definition part of the end-of-file pass, interpreted with tests
   classified by what they read (Model/SequenceSk.v [einterp]; robust to
   merged / split / nested / re-ordered guards): skipped unless started
   and with an end; the end pattern is run on ''; a match adds an end result
   to the current section, no match puts the current section in the filter *)
Theorem C03_process_sequence_results_is_eof_action : forall sh k,
  eof_outcomes tk_process_sequence_results sh k <> [] /\
  Forall (fun o => o = Some (eof_action sh k))
         (eof_outcomes tk_process_sequence_results sh k).
Proof.
  intros [he hb ee] [stt cu nx].
  destruct he, stt, ee; vm_compute; (split; [discriminate | repeat constructor]).
Qed.

(* filter_section_id is created empty once, before the loop over the
   definitions, and never re-assigned as a whole: what one definition
   registered stays registered (m_eof_scan threads [flt] the same way) *)
Theorem C03_eof_filter_accumulates :
  x_eof_filter_created_once_before_loop = true.
Proof. reflexivity. Qed.

(* ... and [seq_eof] is the application of that action (the end result is
   numbered one past the last line) *)
Theorem C03_seq_eof_applies_eof_action : forall sh k acc ln,
  seq_eof sh (k, acc) ln = apply_eof (eof_action sh k) acc ln.
Proof. exact seq_eof_is_action. Qed.

(* --- T1: SequenceSearchDef and SequenceSearchResults ------------------- *)
(* start() / reset() / stop() as extracted from searchdef.py (programs over
   the fields _mark, _section_id, completed_sections; `started` is
   `_mark == x_seqdef_started_mark`; a uuid4 draw is the next counter value)
   ARE the model's do_start / do_reset / do_stop: start draws a fresh id
   and marks started; reset only clears the mark; stop clears the mark,
   records the section just closed and draws a fresh id *)
Theorem C03_seqdef_start_is_do_start : forall k comp,
  run_dstms x_seqdef_started_mark x_seqdef_start (k, comp) = (do_start k, comp).
Proof. intros [s c n] comp. vm_compute. reflexivity. Qed.

Theorem C03_seqdef_reset_is_do_reset : forall k comp,
  run_dstms x_seqdef_started_mark x_seqdef_reset (k, comp) = (do_reset k, comp).
Proof. intros [s c n] comp. vm_compute. reflexivity. Qed.

Theorem C03_seqdef_stop_is_do_stop : forall k comp,
  run_dstms x_seqdef_started_mark x_seqdef_stop (k, comp)
  = (do_stop k, comp ++ [cur k]).
Proof. intros [s c n] comp. vm_compute. reflexivity. Qed.

(* a new definition is not started (init_ctl); current_section_id is the
   field start()/stop() assign *)
Theorem C03_seqdef_init_not_started : forall k comp,
  started (fst (run_dstms x_seqdef_started_mark x_seqdef_init (k, comp)))
  = false /\ x_seqdef_current_is_section_id = true.
Proof. intros [s c n] comp. vm_compute. split; reflexivity. Qed.

(* the start / end / body part is tagged "<tag>-start" / "-end" / "-body"
   (the role of a result is read from this suffix) *)
Theorem C03_seqdef_part_tags :
  part_suffixes x_seqdef_links x_seqdef_tag_suffix
  = expected_part_suffixes.
Proof. vm_compute. reflexivity. Qed.

(* SequenceSearchResults.add as extracted from result.py (append to the
   key's list, or a new singleton list) is the model's dictionary add *)
Theorem C03_seqres_add_is_alist_add : forall (k : nat) (x : part) (d : dict),
  alist_get k (alist_add k x d)
  = x_seqres_add (existsb (Nat.eqb k) (keys d)) (alist_get k d) x.
Proof. exact (@dict_add_is part). Qed.

(* SequenceSearchResults.remove as extracted from result.py (only if the key
   is present: keep the results whose section id differs - the D3 repair)
   is what a restart does to the model's dictionary *)
Theorem C03_seqres_remove_is_filter : forall (k s : nat) (d : dict),
  alist_get k (dict_apply_op k 0 d (Remove s))
  = x_seqres_remove fst (existsb (Nat.eqb k) (keys d)) (alist_get k d) s.
Proof. exact dict_remove_is. Qed.

(* every result of a sequence part carries its section id and its sequence
   id: SearchResult.__init__ assigns both before it may return early
   (store_result_contents=False), so [Add r s v] always files the result
   under the definition's key with section id s *)
Theorem C03_result_always_linked : x_result_linked_before_any_return = true.
Proof. reflexivity. Qed.

(* --- non-vacuity ------------------------------------------------------- *)
(* class codes: 1 = S, 2 = E, 4 = B, 3 = S+E, 7 = S+E+B, 0 = none *)
Definition ex_word : list cline :=
  map mk_line [(0, 10, 11, 12); (1, 20, 21, 22); (4, 30, 31, 32);
               (2, 40, 41, 42); (4, 50, 51, 52); (1, 60, 61, 62);
               (5, 70, 71, 72); (4, 80, 81, 82); (3, 90, 91, 92);
               (7, 100, 101, 102); (6, 110, 111, 112); (1, 120, 121, 122);
               (4, 130, 131, 132)].

(* end + body, end does not match '': two sections, the restarted ones and
   the one open at EOF are not reported *)
Example C03_example_end :
  report (seq_run {| has_end := true; has_body := true; end_empty := None |}
                  ex_word)
  = [[(2, RStart, 20); (3, RBody, 32); (4, REnd, 41)];
     [(10, RStart, 100); (11, REnd, 111)]].
Proof. vm_compute. reflexivity. Qed.

(* end matches '': the section open at EOF is completed by an end numbered
   one past the last line *)
Example C03_example_end_empty :
  report (seq_run {| has_end := true; has_body := true; end_empty := Some (-1) |}
                  ex_word)
  = [[(2, RStart, 20); (3, RBody, 32); (4, REnd, 41)];
     [(10, RStart, 100); (11, REnd, 111)];
     [(12, RStart, 120); (13, RBody, 132); (14, REnd, -1)]].
Proof. vm_compute. reflexivity. Qed.

(* no end: every start closes the previous section, EOF closes the last *)
Example C03_example_noend :
  report (seq_run {| has_end := false; has_body := true; end_empty := None |}
                  ex_word)
  = [[(2, RStart, 20); (3, RBody, 32); (5, RBody, 52)];
     [(6, RStart, 60)];
     [(7, RStart, 70); (8, RBody, 82)];
     [(9, RStart, 90)];
     [(10, RStart, 100); (11, RBody, 112)];
     [(12, RStart, 120); (13, RBody, 132)]].
Proof. vm_compute. reflexivity. Qed.

(* two definitions in one pass; the ids are drawn from one source, each
   section still gets its own *)
Example C03_example_multi :
  let shapes := [{| has_end := true; has_body := true; end_empty := None |};
                 {| has_end := false; has_body := false; end_empty := None |}] in
  let l := map (fun c => [c; c]) ex_word in
  map (fun p => fst (snd p)) (m_run shapes l)
  = [1; 1; 1; 13; 13; 2; 6; 9; 12; 15; 19]%nat /\
  report (m_view 1 (m_run shapes l))
  = [[(2, RStart, 20)]; [(6, RStart, 60)]; [(7, RStart, 70)];
     [(9, RStart, 90)]; [(10, RStart, 100)]; [(12, RStart, 120)]].
Proof. vm_compute. split; reflexivity. Qed.

Example C03_example_stable :
  closed_sections {| has_end := true; has_body := true; end_empty := Some (-1) |}
                  (firstn 6 ex_word)
  = [{| sec_start := (2, 20); sec_body := [(3, 32)]; sec_end := Some (4, 41) |}].
Proof. vm_compute. reflexivity. Qed.

Print Assumptions C03_sequence_exact.
Print Assumptions C03_sequence_exact_ids.
Print Assumptions C03_section_ids_distinct.
Print Assumptions C03_parts_in_line_order.
Print Assumptions C03_noend_one_section_per_start.
Print Assumptions C03_earlier_sections_stable.
Print Assumptions C03_spec_sections_prefix.
Print Assumptions C03_independence.
Print Assumptions C03_multi_exact.
Print Assumptions C03_ids_distinct_across_definitions.
Print Assumptions C03_legacy_sequence_refuted.
Print Assumptions C03_run_search_shape.
Print Assumptions C03_sequence_search_calls.
Print Assumptions C03_process_sequence_results_calls.
Print Assumptions C03_sequence_search_is_ctl_step.
Print Assumptions C03_process_sequence_results_is_eof_action.
Print Assumptions C03_seq_eof_applies_eof_action.
Print Assumptions C03_eof_filter_accumulates.
Print Assumptions C03_seqdef_start_is_do_start.
Print Assumptions C03_seqdef_reset_is_do_reset.
Print Assumptions C03_seqdef_stop_is_do_stop.
Print Assumptions C03_seqdef_init_not_started.
Print Assumptions C03_seqdef_part_tags.
Print Assumptions C03_seqres_add_is_alist_add.
Print Assumptions C03_seqres_remove_is_filter.
Print Assumptions C03_result_always_linked.
