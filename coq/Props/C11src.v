(* C11 - tie of the hand-written scan models (Model/Seek.v) to the
   arithmetic of find_token / find_token_reverse as translated from the
   CURRENT source (Gen/Exprs.v: ftr_window, ftr_found, ftr_next_cur,
   ftr_stop, ftr_clipped, ft_read_size, ft_found, ft_next_cur, ft_short).  The loops below are the
   model's loops with every arithmetic expression replaced by the generated
   one; they are proved equal to the model's, so the C11 theorems are
   theorems about loops whose read windows, found offsets, cursor updates
   and start-of-file stop test ARE the source's. *)
From Coq Require Import ZArith List Bool Lia.
From SK Require Import Model.Base Model.Seek Gen.Exprs.
Import ListNotations.
Open Scope Z_scope.

Fixpoint ft_loop_src (H : Z) (c : list Z) (attempts : nat) (start cur : Z)
  : tok :=
  match attempts with
  | O => ErrMaxLine
  | S a =>
      let chunk := read c (start + cur) (ft_read_size H) in
      match chunk with
      | [] => ReachedEof (lenZ c)
      | _ => match find_lf chunk with
             | Some i => Found (ft_found start cur i)
             | None => if ft_short (lenZ chunk) H then ReachedEof (lenZ c)
                       else ft_loop_src H c a start
                              (ft_next_cur cur (lenZ chunk))
             end
      end
  end.

Fixpoint ftr_loop_src (H : Z) (c : list Z) (attempts : nat) (start cur : Z)
  : tok :=
  match attempts with
  | O => ErrMaxLine
  | S a =>
      let '(ro, rs) := ftr_window start cur (Z.of_nat attempts) H in
      let chunk := read c ro rs in
      match chunk with
      | [] => ReachedEof 0
      | _ => match rfind_lf chunk with
             | Some i => Found (ftr_found ro i)
             | None =>
                 if ftr_clipped rs H then ReachedEof 0
                 else match a with
                      | O => ErrMaxLine
                      | S _ => if ftr_stop ro then ReachedEof 0
                               else ftr_loop_src H c a start
                                      (ftr_next_cur cur (lenZ chunk))
                      end
             end
      end
  end.

Lemma ftr_window_is_model start cur attempts H :
  ftr_window start cur attempts H =
  ((if start + cur >? 0 then start + cur else 0),
   (if start + cur <=? 0 then H + (start + cur) else H)).
Proof.
  unfold ftr_window. cbv zeta.
  destruct (start + cur <=? 0) eqn:E1; destruct (0 <? start + cur) eqn:E2;
    destruct (start + cur >? 0) eqn:E3; try reflexivity;
    try (apply Z.leb_le in E1); try (apply Z.leb_gt in E1);
    try (apply Z.ltb_lt in E2); try (apply Z.ltb_ge in E2);
    try (apply Z.gtb_lt in E3); try (rewrite Z.gtb_ltb in E3; apply Z.ltb_ge in E3);
    try lia.
Qed.

Theorem C11_find_token_loop_is_source : forall H c attempts start cur,
  ft_loop_src H c attempts start cur = find_token_loop H c attempts start cur.
Proof.
  intros H c attempts. induction attempts as [|a IH]; intros start cur.
  - reflexivity.
  - cbn [ft_loop_src find_token_loop].
    unfold ft_read_size, ft_found, ft_next_cur, ft_short.
    destruct (read c (start + cur) H); [reflexivity|].
    destruct (find_lf (z :: l)); [reflexivity|].
    destruct (_ <? H); [reflexivity|]. apply IH.
Qed.

Theorem C11_find_token_reverse_loop_is_source : forall H c attempts start cur,
  ftr_loop_src H c attempts start cur
  = find_token_reverse_loop H c attempts start cur.
Proof.
  intros H c attempts. induction attempts as [|a IH]; intros start cur.
  - reflexivity.
  - cbn [ftr_loop_src find_token_reverse_loop].
    rewrite ftr_window_is_model.
    destruct (read c _ _); [reflexivity|].
    destruct (rfind_lf (z :: l)); [reflexivity|].
    unfold ftr_clipped. destruct (_ <? H); [reflexivity|].
    destruct a; [reflexivity|]. unfold ftr_stop, ftr_next_cur.
    destruct (_ =? 0); [reflexivity|]. apply IH.
Qed.

Print Assumptions C11_find_token_loop_is_source.
Print Assumptions C11_find_token_reverse_loop_is_source.
