(* C11 - tie of the hand-written scan models (Model/Seek.v) to the
   arithmetic of find_token / find_token_reverse as translated from the
   CURRENT source (Gen/Exprs.v: ftr_window, ftr_found, ftr_next_cur,
   ftr_stop, ftr_clipped, ft_read_size, ft_found, ft_next_cur, ft_short).  The loops below are the
   model's loops with every arithmetic expression replaced by the generated
   one; they are proved equal to the model's, so the C11 theorems are
   theorems about loops whose read windows, found offsets, cursor updates
   and start-of-file stop test ARE the source's. *)
From Coq Require Import String ZArith List Bool Lia.
From SK Require Import Model.Base Model.Seek Model.SinceSeek Model.Skel
     Model.Stm Model.SequenceSk Model.SinceSeekSk Proofs.SinceSeekSk Gen.Exprs
     Gen.XSeek Gen.SkelTree.
Import ListNotations.
Open Scope Z_scope.

Fixpoint ft_loop_src (H : Z) (c : list Z) (attempts : nat) (start cur : Z)
  : tok :=
  match attempts with
  | O => ErrMaxLine
  | S a =>
      let chunk := read c (start + cur) (ft_read_size H) in
      match chunk with
      | [] => ReachedEof (lenZ c)
      | _ => match find_lf chunk with
             | Some i => Found (ft_found start cur i)
             | None => if ft_short (lenZ chunk) H then ReachedEof (lenZ c)
                       else ft_loop_src H c a start
                              (ft_next_cur cur (lenZ chunk))
             end
      end
  end.

Fixpoint ftr_loop_src (H : Z) (c : list Z) (attempts : nat) (start cur : Z)
  : tok :=
  match attempts with
  | O => ErrMaxLine
  | S a =>
      let '(ro, rs) := ftr_window start cur (Z.of_nat attempts) H in
      let chunk := read c ro rs in
      match chunk with
      | [] => ReachedEof 0
      | _ => match rfind_lf chunk with
             | Some i => Found (ftr_found ro i)
             | None =>
                 if ftr_clipped rs H then ReachedEof 0
                 else match a with
                      | O => ErrMaxLine
                      | S _ => if ftr_stop ro then ReachedEof 0
                               else ftr_loop_src H c a start
                                      (ftr_next_cur cur (lenZ chunk))
                      end
             end
      end
  end.

Lemma ftr_window_is_model start cur attempts H :
  ftr_window start cur attempts H =
  ((if start + cur >? 0 then start + cur else 0),
   (if start + cur <=? 0 then H + (start + cur) else H)).
Proof.
  unfold ftr_window. cbv zeta.
  destruct (start + cur <=? 0) eqn:E1; destruct (0 <? start + cur) eqn:E2;
    destruct (start + cur >? 0) eqn:E3; try reflexivity;
    try (apply Z.leb_le in E1); try (apply Z.leb_gt in E1);
    try (apply Z.ltb_lt in E2); try (apply Z.ltb_ge in E2);
    try (apply Z.gtb_lt in E3); try (rewrite Z.gtb_ltb in E3; apply Z.ltb_ge in E3);
    try lia.
Qed.

Theorem C11_find_token_loop_is_source : forall H c attempts start cur,
  ft_loop_src H c attempts start cur = find_token_loop H c attempts start cur.
Proof.
  intros H c attempts. induction attempts as [|a IH]; intros start cur.
  - reflexivity.
  - cbn [ft_loop_src find_token_loop].
    unfold ft_read_size, ft_found, ft_next_cur, ft_short.
    destruct (read c (start + cur) H); [reflexivity|].
    destruct (find_lf (z :: l)); [reflexivity|].
    destruct (_ <? H); [reflexivity|]. apply IH.
Qed.

Theorem C11_find_token_reverse_loop_is_source : forall H c attempts start cur,
  ftr_loop_src H c attempts start cur
  = find_token_reverse_loop H c attempts start cur.
Proof.
  intros H c attempts. induction attempts as [|a IH]; intros start cur.
  - reflexivity.
  - cbn [ftr_loop_src find_token_reverse_loop].
    rewrite ftr_window_is_model.
    destruct (read c _ _); [reflexivity|].
    destruct (rfind_lf (z :: l)); [reflexivity|].
    unfold ftr_clipped. destruct (_ <? H); [reflexivity|].
    destruct a; [reflexivity|]. unfold ftr_stop, ftr_next_cur.
    destruct (_ =? 0); [reflexivity|]. apply IH.
Qed.

(* ---- LogLine (Gen/XSeek.v, translator/plugins/seek.py) --------------------
   LogLine.date reads [logline_date_read_len] bytes through _read_line, which
   seeks to / reads [read_line_window]: together exactly the model's
   [logline_window] = the W bytes at the start offset of the line.  (A date
   read clamped to the line, or read from another offset, changes the
   generated definitions and breaks this theorem.) *)
Theorem C11_logline_date_window_is_source : forall W c slf elf,
  logline_window W c slf =
  let '(off, n) := read_line_window (start_offset slf)
                     (logline_date_read_len W (end_offset elf)
                                            (start_offset slf)) in
  read c off n.
Proof. intros. reflexivity. Qed.

(* LogLine.__len__ (used for the truth value of a LogLine) *)
Theorem C11_logline_len_is_source : forall l : logline,
  ll_len l = logline_len (end_offset (snd l)) (start_offset (fst l)).
Proof. intros. reflexivity. Qed.

(* LogLine.text reads len(self) bytes *)
Theorem C11_logline_text_len_is_source : forall n,
  logline_text_read_len n = n.
Proof. intros. reflexivity. Qed.

(* LogLine.__init__ / start_lf / end_lf and SearchState.__init__ / status /
   offset: each property reads back the attribute that the constructor
   argument of the same role was stored in (arguments not swapped) *)
Theorem C11_logline_fields_are_source :
  In (logline_start_lf_attr, "line_start_lf"%string) logline_init_fields /\
  In (logline_end_lf_attr, "line_end_lf"%string) logline_init_fields /\
  In (search_state_status_attr, "status"%string) search_state_init_fields /\
  In (search_state_offset_attr, "offset"%string) search_state_init_fields.
Proof. vm_compute. intuition. Qed.

(* ---- where apply_to_file leaves the file (last sentence of C11) -----------
   The try statement of the CURRENT apply_to_file, interpreted with the seek
   targets extracted from the source, positions the file as the model does -
   with destructive=True and with destructive=False: every give-up handler
   seeks unconditionally (to 0 or to the end of the file), a successful
   non-destructive search seeks back to where the file was. *)
Theorem C11_apply_to_file_positions_are_source :
  forall H A L W tsw c since pos0,
  try_of (calls_only_list tk_apply_to_file) = [expected_apply_try] /\
  apply_seek_sites = expected_seek_sites /\
  ap_interp apply_seek_sites (lenZ c) pos0 (run H A L W tsw c since pos0)
            true (try_of (calls_only_list tk_apply_to_file))
  = apply_to_file H A L W tsw c since pos0 /\
  ap_interp apply_seek_sites (lenZ c) pos0 (run H A L W tsw c since pos0)
            false (try_of (calls_only_list tk_apply_to_file))
  = apply_to_file_nd H A L W tsw c since pos0.
Proof.
  intros.
  assert (E1 : try_of (calls_only_list tk_apply_to_file) = [expected_apply_try])
    by (vm_compute; reflexivity).
  assert (E2 : apply_seek_sites = expected_seek_sites) by reflexivity.
  rewrite E1, E2. repeat split.
  - apply ap_interp_correct.
  - apply ap_interp_correct_nd.
Qed.

Print Assumptions C11_find_token_loop_is_source.
Print Assumptions C11_apply_to_file_positions_are_source.
Print Assumptions C11_logline_date_window_is_source.
Print Assumptions C11_logline_len_is_source.
Print Assumptions C11_logline_fields_are_source.
Print Assumptions C11_find_token_reverse_loop_is_source.
