(* C17 - Run statistics describe exactly the run that just finished. *)
From Coq Require Import String ZArith List Bool Permutation.
From SK Require Import Model.Skel Model.SkelQ Model.Stats Spec.Stats
     Proofs.Stats Model.Task Proofs.Compose Gen.Exprs Gen.Skeleton
     Model.StatsSrc Gen.XStats.
Import ListNotations.
Open Scope Z_scope.

(* every result handed over by a task is counted exactly once: the counter
   after any sequence of put_result calls equals the number of results in
   the batches (which, by C01/C02/C03, are the results delivered) *)
Theorem C17_results_counted_once : forall (R : Type) (bs : list (list R)),
  put_counts bs = lenZ (concat bs).
Proof. exact @put_counts_concat. Qed.

(* the final statistics equal the specified ones, for every file set, every
   previous statistics and - in multi-file mode - every completion order of
   the futures *)
Theorem C17_stats_exact :
  forall (L R : Type) (prev : stats) (fs : list (fobs L R))
         (bss : list (list (list R))) (tasks' : list stats),
  Forall2 delivered fs bss ->
  Permutation tasks' (map (fun p => task_of (fst p) (snd p)) (combine fs bss)) ->
  run_stats prev (map f_regs fs) tasks' = spec_stats fs.
Proof. exact @stats_exact. Qed.

(* ... and this is what the task model of C01/C07 (Model/Task.v) does, for
   every handler (simple and sequence searches), every definition set and
   every line list: the task terminates, its result counter equals the size
   of what it delivered to the collection, its line counter the number of
   lines it was given *)
Theorem C17_task_model_counts_its_collection :
  forall (line D St R : Type) (key : D -> Z) (cons : D -> list Z)
         (ocon : Z -> line -> outcome) (init : D -> St)
         (step : D -> St -> Z -> line -> St * list R)
         (post : list (D * St) -> Z -> list R) (MAX NBUF : Z),
  1 <= MAX -> forall ds lines,
  exists bs,
    execute line D St R key cons ocon init step post MAX NBUF ds lines
    = TaskOk bs /\
    st_results (task_stats lines bs)
    = Stats.lenZ (collected (execute line D St R key cons ocon init step post
                                     MAX NBUF ds lines)) /\
    st_lines (task_stats lines bs) = Stats.lenZ lines.
Proof. exact task_counts_its_collection. Qed.

Theorem C17_no_carry_over : forall (p1 p2 : stats) regs tasks,
  run_stats p1 regs tasks = run_stats p2 regs tasks.
Proof. exact no_carry_over. Qed.

(* ---- ties to the source (regenerated on every run) ---- *)
(* the increments are what the model assumes *)
Theorem C17_increments_from_source :
  (forall n, put_result_increment n = n) /\
  lines_searched_increment tt = 1 /\ total_jobs_increment tt = 1 /\
  jobs_completed_increment tt = 1.
Proof. repeat split. Qed.

(* what a reset installs, read off the dictionary literal of
   SearchTaskStats.reset: the model's all-zero record, with searches_by_job a
   FRESH empty list (the translator refuses a value that is not a literal -
   a shared template list would carry entries from one instance to the
   next); a new statistics object starts from a reset; the merge is `+=` *)
Theorem C17_reset_from_source :
  stats_of_fields stats_reset_fields = Some stats0 /\
  stats_init_resets = true /\ stats_update_op = "+="%string.
Proof. vm_compute. repeat split. Qed.

(* run(): statistics are reset before anything else *)
Theorem C17_run_resets_first :
  first_is (Call "stats_reset") sk_run = true.
Proof. vm_compute. reflexivity. Qed.

(* _run_search: reset first; every line read is counted exactly once,
   unconditionally, inside the line loop, before it is decoded *)
Theorem C17_lines_counted_when_read :
  first_is (Call "stats_reset") sk_run_search = true /\
  once (Wr "lines_searched") sk_run_search = true /\
  before (Call "enumerate_lines") (Wr "lines_searched") sk_run_search = true /\
  before (Wr "lines_searched") (Call "decode_line") sk_run_search = true /\
  unconditional_in_loop (Call "decode_line") 1 sk_run_search = true.
Proof. vm_compute. repeat split. Qed.

(* put_result: the counter is bumped once per call, before the hand-over *)
Theorem C17_put_counts_before_handover :
  once (Wr "stats_results") sk_put_result = true /\
  before (Wr "stats_results") (Call "coll_add") sk_put_result = true /\
  before (Wr "stats_results") (Call "q_put") sk_put_result = true /\
  nesting_at (Wr "stats_results") 0 0 sk_put_result = Some (0%nat, 0%nat).
Proof. vm_compute. repeat split. Qed.

(* _run_single / _run_mp / SearchTaskStats.update *)
Theorem C17_merge_discipline :
  followed_by (Call "task_execute") (Call "stats_update") sk_run_single = true /\
  nesting_at (Wr "jobs_completed") 0 0 sk_run_single = Some (0%nat, 0%nat) /\
  followed_by (Call "future_result") (Call "stats_update") sk_run_mp = true /\
  followed_by (Call "submit") (Rd "total_jobs") sk_run_mp = true /\
  nesting_at (Wr "total_jobs") 0 0 sk_run_mp = Some (1%nat, 0%nat) /\
  nesting_at (Wr "jobs_completed") 0 0 sk_run_mp = Some (1%nat, 0%nat) /\
  once (Wr "jobs_completed") sk_run_mp = true /\
  once (Wr "total_jobs") sk_run_mp = true /\
  followed_by (Rd "stat_slot") (Wr "stat_slot") sk_stats_update = true.
Proof. vm_compute. repeat split. Qed.

(* non-vacuity: three files, one of them empty, futures completing in
   another order than submitted *)
Example C17_example :
  let f1 := mkF 2 [10; 20; 30] [1; 2] in
  let f2 := mkF 1 ([] : list Z) ([] : list Z) in
  let f3 := mkF 1 [7] [5; 6; 7] in
  run_stats (mkStats 9 [9] 9 9 9 9) [2; 1; 1]
            [task_of f3 [[5; 6]; [7]]; task_of f1 [[1]; [2]]; task_of f2 []]
  = mkStats 4 [2; 1; 1] 4 3 3 5.
Proof. vm_compute. reflexivity. Qed.

Print Assumptions C17_results_counted_once.
Print Assumptions C17_stats_exact.
Print Assumptions C17_task_model_counts_its_collection.
Print Assumptions C17_no_carry_over.
Print Assumptions C17_merge_discipline.
Print Assumptions C17_reset_from_source.
