(* C15 - Result store is an append-only injective table for every addition
   history.  Model: Model/Store.v (results_store.py); specification:
   Spec/Store.v; proofs: Proofs/Store.v.

   Reading guide.  [run s0 ops] is the whole history of add(tag, seq, value)
   calls; [events_of ops rets] lists every (component, index returned);
   [injective_table evs lookup] says: None <-> no index, equal values <-> equal
   indices, every index resolves to its value in the final state.  The
   refinement part says the returned indices are EXACTLY the image of the
   abstract first-appearance table under [slot_plain] / [slot_pre]. *)
From Coq Require Import String ZArith List Bool Arith.
From SK Require Import Model.Base Model.Skel Model.Stm Model.SequenceSk
     Model.Store Model.StoreSk Spec.Store Proofs.Store Proofs.StoreSk
     Gen.Exprs Gen.Params Gen.SkelTree Gen.XStore.
Import ListNotations.
Open Scope Z_scope.

(* T1: the roll-over test of the model IS the expression generated from the
   source of ResultStoreBase.allocations *)
Theorem C15_rollover_is_source : forall data_len bsize last_used,
  rollover data_len bsize last_used = alloc_rollover data_len bsize last_used.
Proof. intros. reflexivity. Qed.

(* T1: the default block size meets the hypothesis of the theorems *)
Theorem C15_default_block_size : 1 <= PREALLOC_BLOCK_SIZE.
Proof. vm_compute. discriminate. Qed.

(* ---- T1: the model functions ARE the extracted trees (Gen/SkelTree.v,
   regenerated from results_store.py on every run; Model/StoreSk.v) ------- *)
(* (a) calls, returns, raises and if / loop nesting (reads and writes
   erased): in _add_to_store the None test comes first, the reverse-map hit
   returns before any allocation, then _allocate_next; in _allocate_next the
   equality scan over data precedes the allocation, the block walk leaves at
   the first free index (else raises); add calls _add_to_store three times *)
Theorem C15_add_to_store_shape :
  calls_only_list tk_add_to_store = expected_add_to_store.
Proof. vm_compute. reflexivity. Qed.

Theorem C15_allocate_next_shape :
  calls_only_list tk_allocate_next = expected_allocate_next.
Proof. vm_compute. reflexivity. Qed.

Theorem C15_allocations_shape :
  calls_only_list tk_allocations = expected_allocations.
Proof. vm_compute. reflexivity. Qed.

Theorem C15_store_add_shape :
  calls_only_list tk_store_add = expected_store_add.
Proof. vm_compute. reflexivity. Qed.

(* sync, in normal form (reads erased, loop nests flattened, equal call loops
   in a row merged - so "three loops" and "one loop over the three pairs"
   are the same): under the lock, first the data loop (one guarded write per
   item), then the merges through _add_to_store; each of the three shared
   reverse maps is handed over exactly once; the guard of the copy is
   `value is not None` (Gen/XStore.v), not truthiness; unproxy: each
   of the four dicts re-assigned under the lock; preallocate: read, read,
   write of the pointer under the lock *)
Theorem C15_sync_tree :
  loop_norm tk_sync = expected_sync_norm /\
  occ_list (is_rd "value_store"%string) tk_sync = 1%nat /\
  occ_list (is_rd "tag_store"%string) tk_sync = 1%nat /\
  occ_list (is_rd "sequence_id_store"%string) tk_sync = 1%nat /\
  x_sync_data_guard_is_not_none = true.
Proof. vm_compute. repeat split. Qed.

Theorem C15_unproxy_writes :
  writes_only tk_unproxy_results = expected_unproxy_writes.
Proof. vm_compute. reflexivity. Qed.

Theorem C15_preallocate_tree : tk_preallocate = expected_preallocate.
Proof. vm_compute. reflexivity. Qed.

(* (b) walking the extracted tree over the model's state - every event the
   model operation it stands for, every `if` decided by the model's
   condition and reading exactly the cells that condition is about, every
   loop "first element passing the test" - IS the model function, for every
   store state and every argument.  The four compose: add -> _add_to_store
   -> _allocate_next -> allocations. *)
Theorem C15_allocations_is_tree : forall s,
  run_allocations tk_allocations s
  = Some (allocations s, allocations_value (allocations s)).
Proof.
  intros [d vs ts ss p bz al ps ng].
  unfold allocations, allocations_value, alloc_needed, grant.
  destruct p; [|vm_compute; reflexivity].
  destruct al as [a|]; [|vm_compute; reflexivity].
  cbv -[rollover dmem range lenZ last Z.to_nat].
  destruct (rollover (lenZ d) bz (dmem (last a 0) d)); reflexivity.
Qed.

(* ([1 <= bsz s]: with an empty block the source would iterate over nothing
   and raise where the model takes the len(data) path; block sizes < 1 are
   outside the property) *)
Theorem C15_allocate_next_is_tree : forall s v, 1 <= bsz s ->
  run_allocate_next tk_allocate_next s v = Some (allocate_next s v).
Proof.
  intros s v Hb. unfold run_allocate_next, allocate_next, tk_allocate_next.
  rewrite scan_find. cbn.
  destruct (find (fun p : Z * Z => v =? snd p) (data s)) as [[i w]|] eqn:Ef;
    cbn; [reflexivity|].
  destruct (allocations_value (allocations s)) as [[|i0 r]|] eqn:E1; cbn.
  - reflexivity.
  - destruct (allocations_twice_truthy s i0 r Hb E1) as [i1 [r1 E2]].
    rewrite E2. cbn.
    destruct (if negb (dmem i1 (data (allocations (allocations s))))
              then Some i1
              else find (fun i => negb (dmem i (data (allocations
                                                        (allocations s))))) r1)
      eqn:Ef2; cbn; reflexivity.
  - reflexivity.
Qed.

Theorem C15_add_to_store_is_tree : forall s n x,
  run_add_to_store tk_add_to_store s n x = Some (add_to_store s n x).
Proof.
  intros s n x. unfold run_add_to_store, add_to_store, tk_add_to_store.
  destruct x as [v|]; [|vm_compute; reflexivity].
  cbv -[dmem dget get_ns set_ns dset allocate_next]. unfold dmem.
  destruct (dget v (get_ns s n)) as [i|] eqn:Eg.
  - cbv -[dget get_ns]. rewrite ?Eg. reflexivity.
  - cbv -[dmem dget get_ns set_ns dset allocate_next].
    destruct (allocate_next s v) as [[s1 i]|]; reflexivity.
Qed.

(* value first, then tag, then sequence id - each with its own reverse map *)
Theorem C15_add_is_tree : forall s o,
  run_store_add tk_store_add s o = Some (add s o).
Proof.
  intros s [[tag sq] value]. unfold run_store_add, add, tk_store_add.
  cbv -[add_to_store].
  destruct (add_to_store s NsValue value) as [[s1 vi]|]; [|reflexivity].
  cbv -[add_to_store].
  destruct (add_to_store s1 NsTag tag) as [[s2 ti]|]; [|reflexivity].
  cbv -[add_to_store].
  destruct (add_to_store s2 NsSeq sq) as [[s3 si]|]; reflexivity.
Qed.

(* ---- T1, the rest of results_store.py ---------------------------------- *)
(* ResultStoreParallel.__init__: base initialiser, then the pointer and the
   four dicts become manager objects, no local store yet *)
Theorem C15_rsp_init_tree : tk_rsp_init = expected_rsp_init.
Proof. vm_compute. reflexivity. Qed.

(* ResultStoreParallel.add only delegates to the worker-local store *)
Theorem C15_rsp_add_tree : tk_rsp_add = expected_rsp_add.
Proof. vm_compute. reflexivity. Qed.

(* ResultStoreParallel._allocate_next = the base function under the lock *)
Theorem C15_rsp_allocate_next_tree :
  tk_rsp_allocate_next = expected_rsp_allocate_next.
Proof. vm_compute. reflexivity. Qed.

(* ResultStoreBase.sync does nothing *)
Theorem C15_base_sync_is_noop : tk_base_sync = [].
Proof. vm_compute. reflexivity. Qed.

(* sync only READS the worker-local tables (Model.Store.sync leaves the
   local store untouched: add .. sync .. add .. sync histories) *)
Theorem C15_sync_reads_local_only :
  occ_list is_wr_any tk_sync_local = 0%nat.
Proof. vm_compute. reflexivity. Qed.

(* ResultStoreParallel.local: a new store (built from self.preallocate and
   the block size) for a process that has none, the own store for its
   creator, ResultStoreException for every other process - so a local store
   (and its current block) is only ever used by ONE process, which is what
   the per-store theorems below and the per-task model of C06 assume *)
Theorem C15_local_shape : no_reads_list tk_rsp_local = expected_rsp_local.
Proof. vm_compute. reflexivity. Qed.

Theorem C15_local_is_tree : forall owner pid,
  run_local tk_rsp_local owner pid = Some (local_model owner pid).
Proof.
  intros [o|] pid; unfold local_model; [|vm_compute; reflexivity].
  cbv -[Z.eqb]. destruct (o =? pid); reflexivity.
Qed.

(* plain store (ResultStoreSimple without preallocator): every history
   succeeds, refines the table with slot k = k (so a new value gets index
   |data|), and is an injective table *)
Theorem C15_plain_store : forall ops,
  let T := fst (trun [] ops) in
  let rets := map (map_ret slot_plain) (snd (trun [] ops)) in
  exists s, run init_plain ops = Ok (s, rets) /\
            data s = image slot_plain T /\
            injective_table (events_of ops rets) (lookup s) /\
            map fst (data s) = map Z.of_nat (seq 0 (length (data s))).
Proof. exact plain_store_is_table. Qed.

(* pre-allocating store, any block size >= 1, any pre-allocator handing out
   increasing disjoint blocks: never "failed to get store allocation";
   refines the table with slot k = start (k / b) + k mod b; the used indices
   are the granted blocks in order cut after |T| entries (earlier blocks
   completely, then a prefix of the current one); exactly ceil(|T| / b)
   blocks were requested - at every point of every history, hence a new
   block is requested only when the current one is exhausted *)
Theorem C15_prealloc_store : forall bsize start ops,
  1 <= bsize -> increasing_blocks bsize start ->
  let b := Z.to_nat bsize in
  let T := fst (trun [] ops) in
  let rets := map (map_ret (slot_pre b start)) (snd (trun [] ops)) in
  exists s, run (init_pre bsize start) ops = Ok (s, rets) /\
            data s = image (slot_pre b start) T /\
            injective_table (events_of ops rets) (lookup s) /\
            map fst (data s) = firstn (length T) (concat (granted s)) /\
            ngrants s = blocks_for b (length T).
Proof. exact pre_store_is_table. Qed.

(* an index once returned resolves to its value for ever *)
Theorem C15_index_stable_forever_plain :
  forall ops1 ops2 s1 r1 s2 r2 v i,
  run init_plain ops1 = Ok (s1, r1) -> run s1 ops2 = Ok (s2, r2) ->
  In (Some v, Some i) (events_of ops1 r1) -> lookup s2 i = Some v.
Proof. exact plain_index_stable. Qed.

Theorem C15_index_stable_forever_prealloc :
  forall bsize start ops1 ops2 s1 r1 s2 r2 v i,
  1 <= bsize -> increasing_blocks bsize start ->
  run (init_pre bsize start) ops1 = Ok (s1, r1) -> run s1 ops2 = Ok (s2, r2) ->
  In (Some v, Some i) (events_of ops1 r1) -> lookup s2 i = Some v.
Proof. exact pre_index_stable. Qed.

(* the three reverse maps only ever point at the entry of data holding
   their key *)
Theorem C15_reverse_maps_consistent_plain : forall ops s rets n v i,
  run init_plain ops = Ok (s, rets) ->
  dget v (get_ns s n) = Some i -> lookup s i = Some v.
Proof. exact plain_rev_maps_consistent. Qed.

Theorem C15_reverse_maps_consistent_prealloc :
  forall bsize start ops s rets n v i,
  1 <= bsize -> increasing_blocks bsize start ->
  run (init_pre bsize start) ops = Ok (s, rets) ->
  dget v (get_ns s n) = Some i -> lookup s i = Some v.
Proof. exact pre_rev_maps_consistent. Qed.

(* None is never stored and maps to no index, in every state *)
Theorem C15_none_maps_to_none : forall s n,
  add_to_store s n None = Ok (s, None).
Proof. exact none_maps_to_none. Qed.

(* manager-backed store of one task: sync into the (empty) shared dicts and
   unproxy preserve every lookup *)
Theorem C15_sync_unproxy_exact : forall bsize start ops s rets,
  1 <= bsize -> increasing_blocks bsize start ->
  run (init_pre bsize start) ops = Ok (s, rets) ->
  let sh := unproxy (sync s shared_empty) in
  (forall i, sh_lookup sh i = lookup s i) /\
  (forall v, dget v (sh_vstore sh) = dget v (vstore s)) /\
  (forall v, dget v (sh_tstore sh) = dget v (tstore s)) /\
  (forall v, dget v (sh_sstore sh) = dget v (sstore s)).
Proof. exact pre_sync_exact. Qed.

(* the hypothesis on the pre-allocator is satisfiable: a pointer that only
   grows (ResultStoreParallel.preallocate; gaps = blocks taken by others) *)
Theorem C15_pointer_allocator_increasing : forall p0 b gaps,
  Forall (fun g => 0 <= g) gaps -> increasing_blocks b (start_of p0 b gaps).
Proof. exact start_of_is_increasing. Qed.

(* non-vacuity: a history with repetition, None components, a tag equal to
   an earlier value (cross-namespace reuse of index 5) and a roll-over at
   block size 2 with a gap before the second block *)
Example C15_example :
  match run (init_pre 2 (start_of 0 2 [0; 3]))
            [(Some 7, None, Some 5); (Some 5, Some 9, Some 5);
             (None, None, None); (Some 7, Some 9, Some 6)] with
  | Ok (s, rets) =>
      rets = [(Some 1, None, Some 0); (Some 0, Some 5, Some 0);
              (None, None, None); (Some 1, Some 5, Some 6)] /\
      data s = [(0, 5); (1, 7); (5, 9); (6, 6)] /\ ngrants s = 2%nat
  | ErrAlloc => False
  end.
Proof. vm_compute. repeat split; reflexivity. Qed.

Print Assumptions C15_rollover_is_source.
Print Assumptions C15_allocations_is_tree.
Print Assumptions C15_allocate_next_is_tree.
Print Assumptions C15_add_to_store_is_tree.
Print Assumptions C15_add_is_tree.
Print Assumptions C15_local_is_tree.
Print Assumptions C15_sync_reads_local_only.
Print Assumptions C15_plain_store.
Print Assumptions C15_prealloc_store.
Print Assumptions C15_index_stable_forever_plain.
Print Assumptions C15_index_stable_forever_prealloc.
Print Assumptions C15_reverse_maps_consistent_plain.
Print Assumptions C15_reverse_maps_consistent_prealloc.
Print Assumptions C15_none_maps_to_none.
Print Assumptions C15_sync_unproxy_exact.
Print Assumptions C15_pointer_allocator_increasing.
