(* C08 - Results depend only on file contents and registrations, not on
   earlier runs.

   Model/History.v makes everything that outlives a run() explicit (open-
   section flags of sequence definitions, the constraint's offset cache) and
   says how a run uses it; the search itself and the seek computation are
   abstract (they are C01/C03/C04/C07's subject).  Hypothesis of the
   theorem: file contents do not change between the runs of a history (the
   property's observation setting, "identical files"); a changed file with a
   cached offset is outside it (boundary, see DESIGN.md). *)
From Coq Require Import String ZArith List Bool.
From SK Require Import Model.Skel Model.SkelQ Model.Exn Model.History
     Proofs.History Gen.Skeleton Gen.XCachehit.
Import ListNotations.
Open Scope Z_scope.

Theorem C08_history_independent :
  forall (content results : Type) (compute : content -> option Z)
         (fallback : content -> Z)
         (search : (Z -> bool) -> Z -> content -> results)
         (ends_open : (Z -> bool) -> Z -> content -> Z -> bool)
         (files : Z -> content) (h : list step) (s : step),
  step_results content results compute fallback search true true ends_open
    files (run_steps content results compute fallback search true true
                     ends_open files (init) h) s
  = step_results content results compute fallback search true true ends_open
      files (init) s.
Proof. exact history_independent_steps. Qed.

(* files may also change between runs, as long as every change keeps a
   position that was FOUND where it is; then a run gives what a fresh process
   gives on the files as they are now *)
Theorem C08_history_independent_changing_files :
  forall (content results : Type) (compute : content -> option Z)
         (fallback : content -> Z)
         (search : (Z -> bool) -> Z -> content -> results)
         (ends_open : (Z -> bool) -> Z -> content -> Z -> bool)
         (ext : content -> content -> Prop),
  (forall c c' o, ext c c' -> compute c = Some o -> compute c' = Some o) ->
  forall files h s,
  changes_ok content ext files h ->
  let '(files', k) := run_events content results compute fallback search true
                                 true ends_open files (init) h in
  step_results content results compute fallback search true true ends_open
               files' k s
  = step_results content results compute fallback search true true ends_open
                 files' (init) s.
Proof. exact history_independent_changing. Qed.

(* append-only growth of a log by whole lines is such a change: the first
   in-window line, once it exists, stays the first *)
Theorem C08_append_only_growth_keeps_found_position :
  forall since c c' o,
  grows c c' -> first_in since 0 c = Some o -> first_in since 0 c' = Some o.
Proof. exact growth_keeps_found. Qed.

(* --- the two repaired defects, as refutations of the legacy switches --- *)
(* concrete instance: contents are numbers; the seek finds the content's
   value; a result is (position read from, was definition 0 open at start);
   every file ends inside a section *)
Definition demo_run (reset seek : bool) :=
  run_one Z (Z * bool) (fun c => Some c) (fun _ => 0)
          (fun st pos _ => (pos, st 0)) reset seek
          (fun _ _ _ _ => true).

(* D4a: without seeking on a cache hit the second run reads from offset 0 *)
Theorem C08_legacy_cache_without_seek_refuted :
  let k1 := snd (demo_run true false true (init) 5 42) in
  fst (demo_run true false true k1 5 42) <> fst (demo_run true false true (init) 5 42).
Proof. vm_compute. intros H. discriminate. Qed.

(* D4b: without resetting sequence definitions the second run starts inside
   a section *)
Theorem C08_legacy_no_reset_refuted :
  let k1 := snd (demo_run false true false (init) 5 42) in
  fst (demo_run false true false k1 6 7) <> fst (demo_run false true false (init) 6 7).
Proof. vm_compute. intros H. discriminate. Qed.

(* ... and the current switches pass the same two histories *)
Example C08_example_current :
  let k1 := snd (demo_run true true true (init) 5 42) in
  fst (demo_run true true true k1 5 42) = fst (demo_run true true true (init) 5 42) /\
  fst (demo_run true true false k1 6 7) = fst (demo_run true true false (init) 6 7).
Proof. vm_compute. split; reflexivity. Qed.

(* --- ties to the source (regenerated on every run) --- *)
(* sequence definitions are reset before the file-level constraint is
   applied and before the first line is read *)
Theorem C08_reset_before_reading :
  before (Call "seq_reset") (Call "apply_global") sk_run_search = true /\
  before (Call "seq_reset") (Call "enumerate_lines") sk_run_search = true /\
  before (Call "seq_reset") (Call "decode_line") sk_run_search = true.
Proof. vm_compute. repeat split. Qed.

(* the offset cache is only written on the success path of apply_to_file
   (inside the try body, never in an exception handler), and a cache hit
   seeks before returning *)
Definition cache_writes_only_on_success (sk : list ev) : bool :=
  forallb (fun p => match fst p with
                    | Wr c => if String.eqb c "offset_cache"
                              then negb (match snd p with [] => true | _ => false end)
                              else true
                    | _ => true end)
          (guarded_events [] sk).

Fixpoint hit_branch_seeks (sk : list ev) : bool :=
  (* first `Rd cache; IfB` (the hit test) is followed, before its matching
     Ret, by a conditional fd_seek *)
  match sk with
  | Rd c :: IfB :: r =>
      if String.eqb c "offset_cache" then
        (fix scan (l : list ev) : bool :=
           match l with
           | [] => false
           | Ret :: _ => false
           | Call f :: l' => if String.eqb f "fd_seek" then true else scan l'
           | _ :: l' => scan l'
           end) r
      else hit_branch_seeks r
  | _ :: r => hit_branch_seeks r
  | [] => false
  end.

Theorem C08_cache_discipline :
  cache_writes_only_on_success sk_apply_to_file = true /\
  hit_branch_seeks sk_apply_to_file = true.
Proof. vm_compute. split; reflexivity. Qed.

(* ... and the offset the hit branch seeks to IS the cached one, it is also
   what the branch returns, and the seek happens exactly when the call is
   destructive and an offset was cached: the branch as translated from the
   source (Gen/XCachehit.v; it may live in apply_to_file or in a private
   helper the branch delegates to) *)
Theorem C08_cache_hit_seeks_to_cached_offset :
  forall cached orig newoff len,
  cache_hit_seek_target cached orig newoff len = cached /\
  cache_hit_returns cached orig newoff len = cached /\
  cache_hit_guard true true = true /\ cache_hit_guard false true = false /\
  cache_hit_guard true false = false.
Proof. intros. repeat split. Qed.

(* the model's apply_to_file on a hit: position = the cached offset, cache
   unchanged (this is what the two facts above are for) *)
Theorem C08_model_hit_uses_cached_offset :
  forall (content results : Type) (compute : content -> option Z)
         (fallback : content -> Z) (k : carried) p c o,
  c_cache k p = Some o ->
  apply_to_file content compute fallback true k p c = (o, c_cache k).
Proof.
  intros content results compute fallback k p c o H.
  unfold apply_to_file. rewrite H. reflexivity.
Qed.

Print Assumptions C08_history_independent.
Print Assumptions C08_history_independent_changing_files.
Print Assumptions C08_legacy_cache_without_seek_refuted.
Print Assumptions C08_cache_discipline.
