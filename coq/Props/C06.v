(* C06 - Concurrent workers never share a store index, for every
   interleaving.  Model: Model/Par.v (ResultStoreParallel under a mutex, at
   the granularity of single shared accesses, expanded through the lock
   skeletons generated from the source); proofs: Proofs/Par.v.

   Semantics: a schedule is ANY list of task numbers; an entry naming a task
   that is finished, out of range or waiting for the held lock is a stutter
   ([step] = None).  Theorems hold for every number of tasks, every program
   of adds per task, every block size >= 1 and every schedule (no bound). *)
From Coq Require Import String ZArith List Bool Arith.
From SK Require Import Model.Base Model.Skel Model.Store Model.Par
     Model.Stm Model.StoreSk Proofs.Par Proofs.ParLayout Gen.Skeleton
     Gen.SkelTree Gen.Params Gen.XStore.
Import ListNotations.
Open Scope Z_scope.

(* T1: the skeletons extracted from the current source pass the checks *)
Theorem C06_well_locked_preallocate : well_locked_pre sk_preallocate = true.
Proof. vm_compute. reflexivity. Qed.

Theorem C06_well_locked_sync : well_locked_sync sk_sync = true.
Proof. vm_compute. reflexivity. Qed.

(* unproxy_results (run by the collector after all workers are done) also
   keeps all its accesses inside one critical section *)
Theorem C06_well_locked_unproxy :
  one_section "store" is_access sk_unproxy_results = true.
Proof. vm_compute. reflexivity. Qed.

(* T1: the model gives every task its OWN local store.  That is the code's
   ResultStoreParallel.local: a process without one builds it (from
   self.preallocate and the block size), its creator gets it back, any
   other process - e.g. a worker forked after the creator had used the
   store - is refused with ResultStoreException; add only goes through it *)
Theorem C06_local_store_is_per_process : forall owner pid,
  run_local tk_rsp_local owner pid = Some (local_model owner pid).
Proof.
  intros [o|] pid; unfold local_model; [|vm_compute; reflexivity].
  cbv -[Z.eqb]. destruct (o =? pid)%Z; reflexivity.
Qed.

Theorem C06_local_shape : no_reads_list tk_rsp_local = expected_rsp_local.
Proof. vm_compute. reflexivity. Qed.

Theorem C06_add_goes_through_local : tk_rsp_add = expected_rsp_add.
Proof. vm_compute. reflexivity. Qed.

(* T1: sync copies every local value that `is not None` - also the falsy
   ones (0, '', False ...) - which is what "AWrData for every item of the
   local data" in the model stands for *)
Theorem C06_sync_copies_all_but_none : x_sync_data_guard_is_not_none = true.
Proof. vm_compute. reflexivity. Qed.

(* ... and never writes (clears) the worker-local tables: the local store
   keeps describing which indices of its blocks are in use *)
Theorem C06_sync_leaves_local_tables_alone :
  occ_list is_wr_any tk_sync_local = 0%nat.
Proof. vm_compute. reflexivity. Qed.

(* parametric theorem: ANY pair of skeletons passing the checks *)
Theorem C06_safe_for_well_locked_skeletons : forall skp sks,
  well_locked_pre skp = true -> well_locked_sync sks = true ->
  forall b progs sched, 1 <= b ->
  let g := run (expand_pre 0 skp) (expand_sync sks) (init b progs) sched in
  ((forall p q t u c c', p <> q -> nth_error (g_tasks g) p = Some t ->
       nth_error (g_tasks g) q = Some u -> In c (t_blocks t) ->
       In c' (t_blocks u) -> c + b <= c' \/ c' + b <= c) /\
   (forall p t, nth_error (g_tasks g) p = Some t -> sepl b (t_blocks t)) /\
   (forall p t i v, nth_error (g_tasks g) p = Some t -> In (i, v) (t_handed t) ->
       exists c, In c (t_blocks t) /\ c <= i < c + b)) /\
  (forall p t i v, nth_error (g_tasks g) p = Some t -> t_ctl t = CDone ->
       In (i, v) (t_handed t) -> sh_lookup (g_sh g) i = Some v) /\
  (all_finished g = false ->
   exists p, enabled (expand_pre 0 skp) (expand_sync sks) g p = true).
Proof. exact par_safe. Qed.

(* ... instantiated with the skeletons of the current source *)
Theorem C06_safe_every_schedule : forall b progs sched, 1 <= b ->
  let g := run (expand_pre 0 sk_preallocate) (expand_sync sk_sync)
               (init b progs) sched in
  ((forall p q t u c c', p <> q -> nth_error (g_tasks g) p = Some t ->
       nth_error (g_tasks g) q = Some u -> In c (t_blocks t) ->
       In c' (t_blocks u) -> c + b <= c' \/ c' + b <= c) /\
   (forall p t, nth_error (g_tasks g) p = Some t -> sepl b (t_blocks t)) /\
   (forall p t i v, nth_error (g_tasks g) p = Some t -> In (i, v) (t_handed t) ->
       exists c, In c (t_blocks t) /\ c <= i < c + b)) /\
  (forall p t i v, nth_error (g_tasks g) p = Some t -> t_ctl t = CDone ->
       In (i, v) (t_handed t) -> sh_lookup (g_sh g) i = Some v) /\
  (all_finished g = false ->
   exists p, enabled (expand_pre 0 sk_preallocate) (expand_sync sk_sync) g p
             = true).
Proof.
  exact (par_safe sk_preallocate sk_sync C06_well_locked_preallocate
                  C06_well_locked_sync).
Qed.

(* no interleaving makes an add raise "failed to get store allocation":
   every task uses its blocks in order whatever the others do *)
Theorem C06_never_fails : forall b progs sched, 1 <= b ->
  let g := run (expand_pre 0 sk_preallocate) (expand_sync sk_sync)
               (init b progs) sched in
  forall p t, nth_error (g_tasks g) p = Some t -> t_ctl t <> CFailed.
Proof.
  exact (par_never_fails sk_preallocate sk_sync C06_well_locked_preallocate
                         C06_well_locked_sync).
Qed.

(* so a state in which nobody can move is one in which everybody has
   synchronised (and, by the theorem above, every index resolves) *)
Theorem C06_quiescent_means_all_synced : forall b progs sched, 1 <= b ->
  let g := run (expand_pre 0 sk_preallocate) (expand_sync sk_sync)
               (init b progs) sched in
  (forall p, enabled (expand_pre 0 sk_preallocate) (expand_sync sk_sync) g p
             = false) ->
  forall p t, nth_error (g_tasks g) p = Some t -> t_ctl t = CDone.
Proof.
  exact (par_quiescent_all_done sk_preallocate sk_sync
           C06_well_locked_preallocate C06_well_locked_sync).
Qed.

Theorem C06_default_block_size : 1 <= PREALLOC_BLOCK_SIZE.
Proof. vm_compute. discriminate. Qed.

(* the lock is necessary: with Acq/Rel removed from preallocate the check
   fails and a short schedule hands the same block to two tasks *)
Theorem C06_unlocked_refuted :
  well_locked_pre (unlock sk_preallocate) = false /\
  exists sched,
    let g := run (expand_pre 0 (unlock sk_preallocate)) (expand_sync sk_sync)
                 (init 2 [[(NsValue, 5)]; [(NsValue, 6)]]) sched in
    blocks_disjoint 2 g = false /\
    map t_blocks (g_tasks g) = [[0]; [0]] /\
    map t_handed (g_tasks g) = [[(0, 5)]; [(0, 6)]].
Proof.
  split; [vm_compute; reflexivity|].
  exists [0; 0; 1; 1; 1; 1; 1; 0; 0; 0; 0]%nat. vm_compute. repeat split.
Qed.

(* non-vacuity: two tasks, block size 2, an interleaved schedule; both
   finish, blocks [0,2) [4,6) vs [2,4), every handed index resolves *)
Example C06_example :
  let g := run (expand_pre 0 sk_preallocate) (expand_sync sk_sync)
               (init 2 [[(NsValue, 5); (NsTag, 6); (NsValue, 7)];
                        [(NsValue, 5); (NsValue, 8)]])
               (repeatN 0%nat 8%N ++ repeatN 1%nat 9%N ++ repeatN 0%nat 40%N
                ++ repeatN 1%nat 40%N) in
  all_finished g = true /\ map t_ctl (g_tasks g) = [CDone; CDone] /\
  map t_blocks (g_tasks g) = [[4; 0]; [2]] /\
  map t_handed (g_tasks g) = [[(4, 7); (1, 6); (0, 5)]; [(3, 8); (2, 5)]] /\
  sh_data (g_sh g) = [(0, 5); (1, 6); (4, 7); (2, 5); (3, 8)] /\
  g_lock g = None.
Proof. vm_compute. repeat split. Qed.

(* boundary (NOT a violation of C06 / C15, stated so nobody assumes more):
   the SHARED store that results from merging several tasks is not injective
   on values - two tasks that stored the same value keep their own index
   for it (both resolve to it), and the shared reverse map keeps the index
   of the task that synchronised first *)
Example C06_shared_store_keeps_duplicates_boundary :
  let g := run (expand_pre 0 sk_preallocate) (expand_sync sk_sync)
               (init 1 [[(NsValue, 5)]; [(NsValue, 5)]])
               (repeatN 0%nat 30%N ++ repeatN 1%nat 30%N) in
  all_finished g = true /\
  sh_data (g_sh g) = [(0, 5); (1, 5)] /\ sh_vstore (g_sh g) = [(5, 0)].
Proof. vm_compute. repeat split. Qed.

Print Assumptions C06_well_locked_preallocate.
Print Assumptions C06_well_locked_sync.
Print Assumptions C06_safe_for_well_locked_skeletons.
Print Assumptions C06_safe_every_schedule.
Print Assumptions C06_unlocked_refuted.
Print Assumptions C06_never_fails.
Print Assumptions C06_local_store_is_per_process.
Print Assumptions C06_quiescent_means_all_synced.
