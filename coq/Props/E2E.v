(* E2E - CAPSTONE: the separately proved pieces fit together into one
   statement about a single-file FileSearcher.run() (the in-process path
   run -> _run_single -> SearchTask.execute -> _run_search).

   Composed model : Model/Run.v   (built FROM Model/{Gzip,Task,SinceSeek,Seek,
                                   Lines,Sequence,Stats}.v - nothing re-modelled)
   Specification  : Spec/Run.v    ([spec_run]; uses Spec/C04.v first_in_window
                                   and Spec/Task.v spec_simple/spec_constrained)
   Proofs         : Proofs/RunBridge.v (bytes -> lines), Proofs/RunStream.v
                    (apply_global + apply_to_file + gzip dispatch),
                    Proofs/Run.v (simple searches), Proofs/RunSeq.v (sequences),
                    Proofs/RunWindow.v (the window on the lines).

   What is IMPORTED (theorems of the other properties, used as they are):
     C12 execute_is_search / gzip_transparent        file kinds, zero size
     C04 since_seek_exact, since_seek_declarative,   where the seek ends
         no_skip_no_old, first_in_window_unique
     C11 position_is_line_boundary, try_find_line_spec
     Lines split_lines_app_lf, split_lines_concat, split_lines_wf
     C01 simple_run_file_numbering, simple_search_exact, simple_no_spurious,
         execute_exact
     C07 simple_constrained_exact, results_of_def, final_state_of_def
     C03 sequence_exact_report
     C17 task_counts_its_collection, stats_exact
   What is BRIDGED here (interfaces that did not fit; Model/Run.v B1-B4):
     B1 apply_to_file as the [atf] of Task.apply_global (byte positions)
     B2 classify : bytes of a line -> the oracle record the task loop reads
     B3 byte position -> line index ([lines_before]); the byte view
        ([search_stream]) equals Task.run_file with apply_to_file as [atf]
     B4 Sequence.seq_step / seq_eof as Task's [step] / [post].

   The line-level oracles (omatch / ohint / ocon on classified lines) and the
   window-level timestamp oracle [tsw] are independent parameters: the two
   main theorems need NO relation between them.  One statement does - "no
   searched timestamped line is older than the since date, no skipped one is
   in the window", read on the LINE-level timestamp
   (E2E_window_exact_on_lines): it needs Spec/Run.v [one_matcher] (on every
   line of the file the line-level timestamp is the one the seek reads in
   the window at the line's first byte - in the implementation both come
   from one TimestampMatcher class).  The Example builds both from the same
   toy matcher and proves the hypothesis for it. *)
From Coq Require Import ZArith List Bool Lia.
From SK Require Import Model.Base Model.Seek Model.SinceSeek Model.Lines
     Model.Task Model.Stats Model.Gzip Model.Sequence Model.Run
     Spec.Lines Spec.C04 Spec.Task Spec.Stats Spec.Sequence Spec.Run
     Proofs.TaskLoop Proofs.TaskSimple Proofs.SeekSpec Proofs.SinceSeekExact
     Proofs.RunBridge Proofs.RunStream Proofs.Run Proofs.RunSeq Proofs.SeqShift
     Proofs.RunWindow Gen.Params.
Import ListNotations.
Open Scope Z_scope.

(* ==== THE THEOREM ==========================================================
   For every file [f] (plain or gzip; [stream f] = the bytes its descriptor
   yields), every timestamp oracle, classification oracle and line-level
   oracles, every previous statistics, every list of registered simple
   definitions (distinct objects have distinct identities; an object may be
   registered several times; with or without constraints of their own),
   every optional file-level since date and every restriction set:
   if  - the constants are positive and QueueTransitBuffer.MAX >= 1,
       - WHEN the file-level constraint is applied to the file, the bytes
         satisfy C04's hypotheses h0-h3 (Spec/Run.v [seek_hyps]),
       - every definition's own constraints are uniform on the searched
         lines (C07's hypothesis; vacuous for 0 or 1 constraint),
   then run() returns, and what is observable of it - for every registered
   definition the collection's results (line number, captures), in order,
   and the statistics - is exactly [spec_run]: spec_simple /
   spec_constrained of the lines of the file from [first_in_window] on
   (the whole file without a constraint or when a registered search is
   restricted), numbered from 1 at the first line searched; searches =
   registrations, lines_searched = number of those lines, results = number
   of all results of all definitions, jobs 1 of 1.                  [full] *)
Theorem E2E_single_file_run_exact :
  forall (H A L W : Z) (tsw : list Z -> option Z) (line : Type)
         (classify : list Z -> line)
         (omatch : Z -> line -> option (list Z)) (ohint : Z -> line -> bool)
         (ocon : Z -> line -> Task.outcome) (MAX NBUF : Z),
    0 < H -> 0 < A -> 0 < L -> 1 <= MAX ->
    forall (prev : stats) (f : bfile) (since : option Z)
           (restrictions : list Z) (ds : list sdef),
    wf f -> keys_ok s_key ds ->
    let c := stream f in
    let ts := ts_at W tsw c in
    (seeks since restrictions (map s_key ds) = true ->
       empty_undated ts c /\ all_within_budget H A c /\
       time_ordered ts c /\ undated_runs_below L ts c) ->
    (forall d, In d ds ->
       uniform line ocon (s_cons d)
               (searched W tsw line classify since restrictions
                         (map s_key ds) c)) ->
    observe (simple_view ds)
            (run_simple H A L W tsw line classify omatch ohint ocon MAX NBUF
                        prev f since restrictions ds) =
    Some (spec_run W tsw line classify omatch ohint ocon since restrictions
                   ds c).
Proof. exact single_file_run_exact. Qed.

(* ==== the bridges, as statements of their own ============================ *)
(* bytes -> lines: for every content and every line boundary [p] (0, the end
   of the file, the byte after a line feed), iterating the descriptor from
   byte [p] yields the file's lines from index [lines_before] on, and the
   lines skipped are exactly the bytes before [p]                   [full] *)
Theorem E2E_boundary_cuts_lines : forall c p,
  is_line_boundary c p ->
  let k := lines_before (split_lines c) (Z.to_nat p) in
  lines_from c (Z.to_nat p) = skipn k (split_lines c) /\
  concat (firstn k (split_lines c)) = firstn (Z.to_nat p) c.
Proof.
  intros c p Hb. split;
    [exact (boundary_cuts_lines c p Hb)
    |exact (proj2 (boundary_cuts_lines_exact c p Hb))].
Qed.

(* ... composed with C11: EVERY position a file-level constraint can leave
   a freshly opened file at - any content, oracle, since date, limits; no
   ordering or length hypothesis - cuts the lines                   [full] *)
Theorem E2E_seek_position_cuts_lines : forall H A L W tsw c since p,
  0 < H -> 0 < A ->
  apply_to_file H A L W tsw c since 0 = Some p ->
  lines_from c (Z.to_nat p) =
  skipn (lines_before (split_lines c) (Z.to_nat p)) (split_lines c).
Proof. exact seek_position_cuts_lines. Qed.

(* (B3), unconditionally: the byte-level stream model is C01/C07's
   whole-file model [simple_run_file] with apply_to_file as its [atf] and
   line positions obtained through [lines_before]                   [full] *)
Theorem E2E_byte_view_is_line_view :
  forall H A L W tsw (line : Type) (classify : list Z -> line) omatch ohint
         ocon MAX NBUF,
    0 < H -> 0 < A ->
    forall ds since restrictions c,
    let '(_, p2, applied) :=
      apply_global (atf_lines H A L W tsw c) (globals_of since) restrictions
                   (simple_ids ds) in
    simple_stream H A L W tsw line classify omatch ohint ocon MAX NBUF ds
                  since restrictions c =
    if existsb (seek_raises H A L W tsw c) applied then TkRaises
    else lift line result (skipn p2 (file_lines line classify c))
              (simple_stream_lines H A L W tsw line classify omatch ohint
                                   ocon MAX NBUF ds since restrictions c).
Proof. exact simple_stream_is_run_file. Qed.

(* what C01_numbering_from_first_searched_line leaves open - WHERE the first
   searched line is - closed by C04: the whole-file model of C01/C07 with
   apply_to_file plugged in searches exactly the specification's lines *)
Theorem E2E_run_file_searches_spec_lines :
  forall H A L W tsw (line : Type) (classify : list Z -> line) omatch ohint
         ocon MAX NBUF,
    0 < H -> 0 < A -> 0 < L ->
    forall since restrictions ds c,
    (seeks since restrictions (map s_key ds) = true ->
     seek_hyps H A L W tsw c) ->
    simple_stream_lines H A L W tsw line classify omatch ohint ocon MAX NBUF
                        ds since restrictions c =
    simple_execute line omatch ohint ocon MAX NBUF ds
      (searched W tsw line classify since restrictions (map s_key ds) c).
Proof. exact run_file_searches_spec_lines. Qed.

(* the lines searched are whole lines of the file: the file's lines from
   index k on, the k lines before being exactly the bytes before the start
   byte - so result line number n is line n + k of the file         [full] *)
Theorem E2E_searched_lines_are_file_lines :
  forall H A L W tsw (line : Type) (classify : list Z -> line),
    0 < H -> 0 < A ->
    forall c since restrictions ids, 0 < L ->
    (seeks since restrictions ids = true -> seek_hyps H A L W tsw c) ->
    let p := Z.to_nat (start_byte W tsw since restrictions ids c) in
    let k := lines_before (split_lines c) p in
    searched W tsw line classify since restrictions ids c =
      skipn k (file_lines line classify c) /\
    concat (firstn k (split_lines c)) = firstn p c.
Proof. exact searched_are_file_lines. Qed.

(* the since window read on the LINES: under C04's hypotheses and
   ONE MATCHER ([tsl] on a classified line = [tsw] on the window at the
   line's first byte), for a file-level constraint that is applied: every
   searched line that has a timestamp is at or after the since date, and
   every line before the first searched one that has a timestamp is older.
   (C04_no_skip_no_old transported from byte offsets to line indices:
   [line_offset] of a line is a line start, [lines_before] counts the lines
   whose offset is before the position.)                            [full] *)
Theorem E2E_window_exact_on_lines :
  forall H A L W tsw (line : Type) (classify : list Z -> line)
         (tsl : line -> option Z),
    0 < H -> 0 < A -> 0 < L ->
    forall c s restrictions ids,
    restricted restrictions ids = false ->
    seek_hyps H A L W tsw c ->
    one_matcher W tsw line classify tsl c ->
    let k := lines_before (split_lines c)
               (Z.to_nat (start_byte W tsw (Some s) restrictions ids c)) in
    Forall (fun x => forall d, tsl x = Some d -> s <= d)
           (searched W tsw line classify (Some s) restrictions ids c) /\
    Forall (fun x => forall d, tsl x = Some d -> d < s)
           (firstn k (file_lines line classify c)).
Proof. exact searched_in_window_skipped_old. Qed.

(* C12 inside the composed run: plain / gzip / multi-member gzip files with
   the same (decompressed) stream give the same outcome - results,
   statistics, non-termination; NO hypothesis on the content.  (Uses
   [stream_nil]: on an empty stream apply_to_file returns normally for every
   oracle, so the search of nothing is the zero-size shortcut.)      [full] *)
Theorem E2E_file_kind_irrelevant :
  forall H A L W tsw (line : Type) (classify : list Z -> line) omatch ohint
         ocon MAX NBUF,
    0 < H -> 0 < A ->
    forall prev f g since restrictions ds,
    wf f -> wf g -> stream f = stream g ->
    run_simple H A L W tsw line classify omatch ohint ocon MAX NBUF prev f
               since restrictions ds =
    run_simple H A L W tsw line classify omatch ohint ocon MAX NBUF prev g
               since restrictions ds.
Proof. exact run_simple_kind_irrelevant. Qed.

(* ==== SECOND THEOREM: sequence searches ==================================
   Model/Sequence.v's handler plugged into Task's generic loop ([seq_hstep]
   = seq_step, [seq_hpost] = seq_eof per definition; Model/Run.v B4).  Same
   hypotheses; sequence definitions only.  run() returns; the statistics are
   the specified ones; and for every registered definition WITHOUT
   constraints of its own, find_sequence_sections on the returned collection
   shows exactly Spec/Sequence.v [sections] of the searched lines as that
   definition classifies them (section ids erased).
   [a definition with own constraints sees the lines from its activation
   line on with their ORIGINAL numbers: stated separately below as
   E2E_sequence_search_constrained, through Proofs/SeqShift.v] *)
Theorem E2E_sequence_search :
  forall (H A L W : Z) (tsw : list Z -> option Z) (line : Type)
         (classify : list Z -> line) (ocon : Z -> line -> Task.outcome)
         (MAX NBUF : Z) (qclass : Z -> line -> cline),
    0 < H -> 0 < A -> 0 < L -> 1 <= MAX ->
    forall (prev : stats) (f : bfile) (since : option Z)
           (restrictions : list Z) (ds : list qdef),
    wf f -> keys_ok q_key ds ->
    (seeks since restrictions (map q_key ds) = true ->
     seek_hyps H A L W tsw (stream f)) ->
    let lines := searched W tsw line classify since restrictions
                          (map q_key ds) (stream f) in
    exists coll,
      run_sequence H A L W tsw line classify ocon MAX NBUF qclass prev f
                   since restrictions ds =
      RunOk coll (mkStats (Stats.lenZ ds) [Stats.lenZ ds] (Stats.lenZ lines)
                          1 1 (Stats.lenZ coll)) /\
      forall d, In d ds -> q_cons d = [] ->
        seq_report (q_key d) coll =
        spec_report (q_shape d) (map (qclass (q_key d)) lines).
Proof. exact sequence_run_exact. Qed.

(* Sequence definitions WITH constraints of their own (C07 x C03, full):
   such a definition sees the lines from its activation line k on (the
   first line on which all its constraints pass) with their ORIGINAL
   numbers; its report is the specification's sections of those lines,
   numbers moved by k.  For a definition without constraints k = 0 and
   this is E2E_sequence_search. *)
Theorem E2E_sequence_search_constrained :
  forall (H A L W : Z) (tsw : list Z -> option Z) (line : Type)
         (classify : list Z -> line) (ocon : Z -> line -> Task.outcome)
         (MAX NBUF : Z) (qclass : Z -> line -> cline),
    0 < H -> 0 < A -> 0 < L -> 1 <= MAX ->
    forall (prev : stats) (f : bfile) (since : option Z)
           (restrictions : list Z) (ds : list qdef),
    wf f -> keys_ok q_key ds ->
    (seeks since restrictions (map q_key ds) = true ->
     seek_hyps H A L W tsw (stream f)) ->
    let lines := searched W tsw line classify since restrictions
                          (map q_key ds) (stream f) in
    exists coll,
      run_sequence H A L W tsw line classify ocon MAX NBUF qclass prev f
                   since restrictions ds =
      RunOk coll (mkStats (Stats.lenZ ds) [Stats.lenZ ds] (Stats.lenZ lines)
                          1 1 (Stats.lenZ coll)) /\
      forall d, In d ds -> uniform line ocon (q_cons d) lines ->
        let k := active_from line ocon (q_cons d) lines in
        seq_report (q_key d) coll =
        map (map (shift_item (Z.of_nat k)))
            (spec_report (q_shape d)
                         (map (qclass (q_key d)) (skipn k lines))).
Proof. exact sequence_run_exact_constrained. Qed.

(* the machine started at line number k reports the specification's
   sections, numbers moved by k (the C03 half of the statement above) *)
Theorem E2E_sequence_numbering_shift :
  forall sh k cl,
    report (seq_run_from sh k cl) =
    map (map (shift_item k)) (spec_report sh cl).
Proof. exact sequence_exact_report_from. Qed.

(* (B4) as a statement: the handler run of a definition over numbered lines
   is Model/Sequence.v's seq_loop, and emits nothing while lines are read *)
Theorem E2E_sequence_handler_is_seq_loop :
  forall (line : Type) (qclass : Z -> line -> cline) d lines i st,
    hrun line qdef sstate qresult (seq_hstep line qclass) d st
         (enum (i + 1) lines) =
    (fst (seq_loop (q_shape d) st i (map (qclass (q_key d)) lines)), []).
Proof. exact hrun_is_seq_loop. Qed.

(* ==== instantiation with the constants of the current source ============= *)
Theorem E2E_constants :
  0 < SEEK_HORIZON /\ 0 < MAX_SEEK_HORIZON_EXPAND /\
  0 < MAX_TRY_FIND_WITH_DATE_ATTEMPTS /\ 0 < MAX_DATETIME_READ_BYTES /\
  1 <= TRANSIT_MAX.
Proof. vm_compute. repeat split; reflexivity || discriminate. Qed.

(* a time-ordered log, every line shorter than 1 MiB, at most 499 consecutive
   lines without timestamp, a matcher that rejects the empty string and
   LF-initial text: run() with the real constants meets the specification *)
Theorem E2E_real_single_file_run_exact :
  forall (tsw : list Z -> option Z) (line : Type) (classify : list Z -> line)
         omatch ohint (ocon : Z -> line -> Task.outcome)
         (prev : stats) (f : bfile) (since : option Z)
         (restrictions : list Z) (ds : list sdef),
    wf f -> keys_ok s_key ds ->
    let c := stream f in
    let ts := ts_at MAX_DATETIME_READ_BYTES tsw c in
    tsw [] = None -> (forall r, tsw (10 :: r) = None) ->
    (forall o, 0 <= o <= Base.lenZ c -> line_len c o <= 1048575) ->
    time_ordered ts c -> max_undated_run ts c <= 499 ->
    (forall d, In d ds ->
       uniform line ocon (s_cons d)
               (searched MAX_DATETIME_READ_BYTES tsw line classify since
                         restrictions (map s_key ds) c)) ->
    observe (simple_view ds)
            (run_simple SEEK_HORIZON MAX_SEEK_HORIZON_EXPAND
                        MAX_TRY_FIND_WITH_DATE_ATTEMPTS
                        MAX_DATETIME_READ_BYTES tsw line classify omatch
                        ohint ocon TRANSIT_MAX NUM_BUFFERED_RESULTS
                        prev f since restrictions ds) =
    Some (spec_run MAX_DATETIME_READ_BYTES tsw line classify omatch ohint
                   ocon since restrictions ds c).
Proof.
  intros tsw line classify omatch ohint ocon prev f since restrictions ds
         Hwf Hk c ts Hnil Hlf Hlen Hord Hrun Hu.
  destruct E2E_constants as (C1 & C2 & C3 & C4 & C5).
  apply single_file_run_exact; try assumption.
  intros _. repeat split.
  - apply oracle_rejects_lf_gives_h0; assumption.
  - intros o Ho. apply short_line_within_budget; try assumption.
    replace (MAX_SEEK_HORIZON_EXPAND * SEEK_HORIZON - 1) with 1048575
      by (vm_compute; reflexivity). apply Hlen. exact Ho.
  - exact Hord.
  - unfold undated_runs_below.
    replace (MAX_TRY_FIND_WITH_DATE_ATTEMPTS - 1) with 499
      by (vm_compute; reflexivity). exact Hrun.
Qed.

(* ==== non-vacuity ==========================================================
   Toy oracles on bytes.  Timestamp matcher (C04's example): text is dated
   iff it starts with 'd' (100); the date is the next byte.  Classification
   of a line: pattern 1 = "contains 'a' (97)", no groups; pattern 2 =
   "contains 'b' (98)", one group (the line's length); constraint 1 = the
   line's own timestamp BY THE SAME MATCHER against the date 55 (Pass /
   Fail, Undecided when undated); sequence start 's' (115), body 'b', end
   'e' (101); the line's timestamp itself is kept as the "match" of the
   otherwise unused pattern 0 ([ex_tsl]).  The log, 7 lines, no final LF:
       "us" "d5a" "d5s" "" "xd9b" "d7ab" "ue"   line starts 0 3 7 11 12 17 22
   H = 4, A = 3, L = 3 (longest undated run 2 = L - 1), W = 2, MAX = 2,
   NUM_BUFFERED_RESULTS = 3.  d1 = [p1] unconstrained, registered twice;
   d2 = [p2] with its own constraint 1. *)
Definition ex_tsw (w : list Z) : option Z :=
  match w with 100 :: d :: _ => Some d | _ => None end.
Definition has (b : Z) (l : list Z) : bool := existsb (Z.eqb b) l.
Definition ex_classify (l : list Z) : tline :=
  mkTline ((if has 97 l then [(1, [97])] else []) ++
           (if has 98 l then [(2, [98; Base.lenZ l])] else []) ++
           (match ex_tsw l with Some d => [(0, [d])] | None => [] end))
          []
          (match ex_tsw l with
           | Some d => [(1, if 55 <=? d then Pass else Fail)]
           | None => []
           end).
Definition ex_tsl (t : tline) : option Z :=
  match t_omatch 0 t with Some (d :: _) => Some d | _ => None end.
Definition ex_log : list Z :=
  [117; 115; 10;  100; 53; 97; 10;  100; 53; 115; 10;  10;
   120; 100; 57; 98; 10;  100; 55; 97; 98; 10;  117; 101].
Definition ex_d1 := mkSdef 1 [1] None true 100 [].
Definition ex_d2 := mkSdef 2 [2] None true 200 [1].
Definition ex_ds := [ex_d1; ex_d2; ex_d1].
Definition ex_plain := mkFile 24 Plain ex_log.
Definition ex_gz := mkFile 44 Gz ex_log.
Definition ex_prev := mkStats 9 [9] 9 9 9 9.

Definition ex_run f since restrictions :=
  observe (simple_view ex_ds)
    (run_simple 4 3 3 2 ex_tsw tline ex_classify t_omatch t_ohint t_ocon 2 3
                ex_prev f since restrictions ex_ds).
Definition ex_spec since restrictions :=
  spec_run 2 ex_tsw tline ex_classify t_omatch t_ohint t_ocon since
           restrictions ex_ds ex_log.

(* every hypothesis of the theorem holds for this file: they are jointly
   satisfiable *)
Example E2E_example_hypotheses :
  wf ex_plain /\ wf ex_gz /\ keys_ok s_key ex_ds /\
  seek_hyps 4 3 3 2 ex_tsw ex_log /\
  line_starts ex_log = [0; 3; 7; 11; 12; 17; 22] /\
  (forall since restrictions d, In d ex_ds ->
     uniform tline t_ocon (s_cons d)
             (searched 2 ex_tsw tline ex_classify since restrictions
                       (map s_key ex_ds) ex_log)).
Proof.
  split; [reflexivity|]. split; [reflexivity|]. split.
  { intros a b Ha Hb. simpl in Ha, Hb.
    destruct Ha as [<-|[<-|[<-|[]]]]; destruct Hb as [<-|[<-|[<-|[]]]];
      simpl; intros E; try reflexivity; discriminate. }
  split.
  { split; [exact (oracle_rejects_lf_gives_h0 ex_tsw 2 ex_log ltac:(lia)
                     eq_refl (fun _ => eq_refl))|].
    split.
    { intros o Ho.
      apply (forall_offsets_check (within_budget 4 3 ex_log) 24);
        [vm_compute; reflexivity|exact Ho]. }
    split; [vm_compute; reflexivity|].
    unfold undated_runs_below. vm_compute. discriminate. }
  split; [vm_compute; reflexivity|].
  intros since restrictions d [<-|[<-|[<-|[]]]].
  - apply uniform_nil.
  - apply uniform_single.
  - apply uniform_nil.
Qed.

(* so the theorem applies (this is an application of the theorem, not an
   evaluation) - for every since date and every restriction set *)
Example E2E_example_theorem_applies : forall since restrictions,
  ex_run ex_plain since restrictions = Some (ex_spec since restrictions) /\
  ex_run ex_gz since restrictions = Some (ex_spec since restrictions).
Proof.
  intros since restrictions.
  destruct E2E_example_hypotheses as (W1 & W2 & Hk & Hs & _ & Hu).
  split; apply E2E_single_file_run_exact; try lia; try assumption;
    try (intros _; exact Hs); apply Hu.
Qed.

(* ... and this is what the composed MODEL computes: no constraint (7 lines);
   since = 53 (starts at line 2, byte 3: d2's own constraint skips "xd9b"
   although it matches, and activates on "d7ab"); since = 54 (starts at
   "d7ab", byte 17, numbered 1); since = 56 (end of file: nothing searched);
   since = 53 but d2 registered with allow_global_constraints=False (whole
   file).  Statistics: 3 registrations, jobs 1 / 1, previous values gone. *)
Example E2E_example_run :
  ex_run ex_plain None [] =
    Some ([(1, [(2, [(0, 97)]); (6, [(0, 97)])]); (2, [(6, [(1, 5)])]);
           (1, [(2, [(0, 97)]); (6, [(0, 97)])])],
          mkStats 3 [3] 7 1 1 3) /\
  ex_run ex_plain (Some 53) [] =
    Some ([(1, [(1, [(0, 97)]); (5, [(0, 97)])]); (2, [(5, [(1, 5)])]);
           (1, [(1, [(0, 97)]); (5, [(0, 97)])])],
          mkStats 3 [3] 6 1 1 3) /\
  ex_run ex_gz (Some 54) [] =
    Some ([(1, [(1, [(0, 97)])]); (2, [(1, [(1, 5)])]);
           (1, [(1, [(0, 97)])])],
          mkStats 3 [3] 2 1 1 2) /\
  ex_run ex_plain (Some 56) [] =
    Some ([(1, []); (2, []); (1, [])], mkStats 3 [3] 0 1 1 0) /\
  ex_run ex_plain (Some 53) [2] = ex_run ex_plain None [] /\
  map (fun s => ex_run ex_plain s []) [None; Some 53; Some 54; Some 56] =
  map (fun s => Some (ex_spec s [])) [None; Some 53; Some 54; Some 56] /\
  map (fun s => start_byte 2 ex_tsw s [] [1; 2; 1] ex_log)
      [None; Some 53; Some 54; Some 56] = [0; 3; 17; 24].
Proof. vm_compute. repeat split; reflexivity. Qed.

(* the two timestamp oracles of the example come from ONE matcher: the
   timestamp the seek reads in the 2-byte window at a line start is the
   timestamp the line-level constraint reads on the line itself *)
Example E2E_example_one_matcher :
  map (ts_at 2 ex_tsw ex_log) (line_starts ex_log) =
  map ex_tsw (split_lines ex_log) /\
  map (fun l => t_ocon 1 (ex_classify l)) (split_lines ex_log) =
  map (fun l => match ex_tsw l with
                | Some d => if 55 <=? d then Pass else Fail
                | None => Undecided end) (split_lines ex_log).
Proof. vm_compute. split; reflexivity. Qed.

(* ONE MATCHER holds for the example (proved, for every line) ... *)
Example E2E_example_one_matcher_holds :
  one_matcher 2 ex_tsw tline ex_classify ex_tsl ex_log.
Proof.
  intros i l Hl.
  assert (E : split_lines ex_log =
              [[117; 115; 10]; [100; 53; 97; 10]; [100; 53; 115; 10]; [10];
               [120; 100; 57; 98; 10]; [100; 55; 97; 98; 10]; [117; 101]])
    by (vm_compute; reflexivity).
  rewrite E in Hl.
  do 7 (destruct i as [|i];
        [inversion Hl; subst l; vm_compute; reflexivity
        |cbn [nth_error] in Hl]).
  destruct i; discriminate.
Qed.

(* ... so E2E_window_exact_on_lines applies: with since = 54 the only
   searched timestamped line has date 55, the skipped ones 53 *)
Example E2E_example_window :
  (forall s,
     Forall (fun x => forall d, ex_tsl x = Some d -> s <= d)
            (searched 2 ex_tsw tline ex_classify (Some s) [] [1; 2; 1]
                      ex_log)) /\
  map ex_tsl (searched 2 ex_tsw tline ex_classify (Some 54) [] [1; 2; 1]
                       ex_log) = [Some 55; None] /\
  map ex_tsl (firstn 5 (file_lines tline ex_classify ex_log)) =
    [None; Some 53; Some 53; None; None].
Proof.
  split; [|vm_compute; split; reflexivity].
  intros s. destruct E2E_example_hypotheses as (_ & _ & _ & Hs & _ & _).
  exact (proj1 (E2E_window_exact_on_lines 4 3 3 2 ex_tsw tline ex_classify
                  ex_tsl ltac:(lia) ltac:(lia) ltac:(lia) ex_log s []
                  [1; 2; 1] eq_refl Hs E2E_example_one_matcher_holds)).
Qed.

(* sequence searches on the same log: start 's' (value = line length), body
   'b', end 'e'; one definition with an end and a body.  Whole file: the
   section opened by "us" is discarded by the restart at "d5s"; with
   since = 53 searching starts at "d5a" and the numbers shift by one. *)
Definition ex_qclass2 (_ : Z) (t : tline) : cline :=
  {| c_start := match t_omatch 3 t with Some _ => Some 30 | None => None end;
     c_end := match t_omatch 4 t with Some _ => Some 40 | None => None end;
     c_body := match t_omatch 2 t with Some _ => Some 20 | None => None end |}.
Definition ex_classify2 (l : list Z) : tline :=
  mkTline ((if has 98 l then [(2, [98])] else []) ++
           (if has 115 l then [(3, [115])] else []) ++
           (if has 101 l then [(4, [101])] else [])) [] [].
Definition ex_q := mkQdef 7 {| has_end := true; has_body := true;
                               end_empty := None |} [].

Example E2E_example_sequence :
  (forall since,
     exists coll,
       run_sequence 4 3 3 2 ex_tsw tline ex_classify2 t_ocon 2 3 ex_qclass2
                    ex_prev ex_plain since [] [ex_q] =
       RunOk coll (mkStats 1 [1]
                     (Stats.lenZ (searched 2 ex_tsw tline ex_classify2 since
                                           [] [7] ex_log)) 1 1
                     (Stats.lenZ coll)) /\
       seq_report 7 coll =
       spec_report (q_shape ex_q)
         (map (ex_qclass2 7)
              (searched 2 ex_tsw tline ex_classify2 since [] [7] ex_log))) /\
  match run_sequence 4 3 3 2 ex_tsw tline ex_classify2 t_ocon 2 3 ex_qclass2
                     ex_prev ex_plain None [] [ex_q] with
  | RunOk coll st => Some (seq_report 7 coll, st)
  | _ => None
  end = Some ([[(3, RStart, 30); (5, RBody, 20); (6, RBody, 20);
                (7, REnd, 40)]], mkStats 1 [1] 7 1 1 4) /\
  match run_sequence 4 3 3 2 ex_tsw tline ex_classify2 t_ocon 2 3 ex_qclass2
                     ex_prev ex_plain (Some 53) [] [ex_q] with
  | RunOk coll st => Some (seq_report 7 coll, st)
  | _ => None
  end = Some ([[(2, RStart, 30); (4, RBody, 20); (5, RBody, 20);
                (6, REnd, 40)]], mkStats 1 [1] 6 1 1 4).
Proof.
  split.
  { intros since.
    destruct E2E_example_hypotheses as (W1 & _ & _ & Hs & _ & _).
    destruct (E2E_sequence_search 4 3 3 2 ex_tsw tline ex_classify2 t_ocon 2 3
                ex_qclass2 ltac:(lia) ltac:(lia) ltac:(lia) ltac:(lia)
                ex_prev ex_plain since [] [ex_q] W1)
      as (coll & E & Hr).
    - intros a b [<-|[]] [<-|[]] _. reflexivity.
    - intros _. exact Hs.
    - exists coll. split; [exact E|].
      apply (Hr ex_q); [left; reflexivity|reflexivity]. }
  vm_compute. split; reflexivity.
Qed.

(* a sequence definition with constraint 1 of its own (timestamp >= 55),
   beside an unconstrained one of the same shape: start 'a', end 'b' or 'e'.
   Unconstrained: two sections (lines 2-5 and 6-7).  Constrained: active
   from "d7ab" (index 5, line 6), so only the second section, numbered as
   in the file. *)
Definition ex_qclass3 (_ : Z) (t : tline) : cline :=
  {| c_start := match t_omatch 3 t with Some _ => Some 30 | None => None end;
     c_end := match t_omatch 4 t with Some _ => Some 40 | None => None end;
     c_body := None |}.
Definition ex_classify3 (l : list Z) : tline :=
  mkTline ((if has 97 l then [(3, [97])] else []) ++
           (if has 98 l || has 101 l then [(4, [98])] else [])) []
          (match ex_tsw l with
           | Some d => [(1, if 55 <=? d then Pass else Fail)]
           | None => []
           end).
Definition ex_shape3 := {| has_end := true; has_body := false;
                           end_empty := None |}.
Definition ex_qu := mkQdef 8 ex_shape3 [].
Definition ex_qc := mkQdef 9 ex_shape3 [1].

Example E2E_example_sequence_constrained :
  (exists coll,
     run_sequence 4 3 3 2 ex_tsw tline ex_classify3 t_ocon 2 3 ex_qclass3
                  ex_prev ex_plain None [] [ex_qu; ex_qc] =
     RunOk coll (mkStats 2 [2] 7 1 1 (Stats.lenZ coll)) /\
     seq_report 9 coll =
     map (map (shift_item 5))
         (spec_report ex_shape3
            (map (ex_qclass3 9)
                 (skipn 5 (searched 2 ex_tsw tline ex_classify3 None []
                                    [8; 9] ex_log))))) /\
  active_from tline t_ocon [1]
              (searched 2 ex_tsw tline ex_classify3 None [] [8; 9] ex_log)
  = 5%nat /\
  match run_sequence 4 3 3 2 ex_tsw tline ex_classify3 t_ocon 2 3 ex_qclass3
                     ex_prev ex_plain None [] [ex_qu; ex_qc] with
  | RunOk coll st => Some (seq_report 8 coll, seq_report 9 coll, st)
  | _ => None
  end = Some ([[(2, RStart, 30); (5, REnd, 40)];
               [(6, RStart, 30); (7, REnd, 40)]],
              [[(6, RStart, 30); (7, REnd, 40)]],
              mkStats 2 [2] 7 1 1 6).
Proof.
  split.
  { destruct E2E_example_hypotheses as (W1 & _ & _ & Hs & _ & _).
    destruct (E2E_sequence_search_constrained 4 3 3 2 ex_tsw tline
                ex_classify3 t_ocon 2 3 ex_qclass3
                ltac:(lia) ltac:(lia) ltac:(lia) ltac:(lia)
                ex_prev ex_plain None [] [ex_qu; ex_qc] W1)
      as (coll & E & Hr).
    - intros a b [<-|[<-|[]]] [<-|[<-|[]]] E; try reflexivity;
        cbn in E; discriminate.
    - intros _. exact Hs.
    - exists coll. split; [exact E|].
      refine (Hr ex_qc (or_intror (or_introl eq_refl)) _).
      intros l Hl. vm_compute in Hl.
      repeat (destruct Hl as [<-|Hl]; [vm_compute; reflexivity|]).
      destruct Hl. }
  vm_compute. split; reflexivity.
Qed.

Print Assumptions E2E_single_file_run_exact.
Print Assumptions E2E_boundary_cuts_lines.
Print Assumptions E2E_seek_position_cuts_lines.
Print Assumptions E2E_byte_view_is_line_view.
Print Assumptions E2E_run_file_searches_spec_lines.
Print Assumptions E2E_searched_lines_are_file_lines.
Print Assumptions E2E_window_exact_on_lines.
Print Assumptions E2E_file_kind_irrelevant.
Print Assumptions E2E_sequence_search.
Print Assumptions E2E_sequence_search_constrained.
Print Assumptions E2E_sequence_numbering_shift.
Print Assumptions E2E_sequence_handler_is_seq_loop.
Print Assumptions E2E_real_single_file_run_exact.
Print Assumptions E2E_example_theorem_applies.
Print Assumptions E2E_example_run.
Print Assumptions E2E_example_sequence.
Print Assumptions E2E_example_window.
Print Assumptions E2E_example_sequence_constrained.
