(* C11 - Line lookup at any byte offset returns the line containing it.

   Model: Model/Seek.v (find_token, find_token_reverse, try_find_line,
   LogLine.start_offset/end_offset/date window), parametric in
   H = SEEK_HORIZON and A = MAX_SEEK_HORIZON_EXPAND.
   Spec : Spec/Lines.v (nearest line feeds, the line containing an offset,
   the exact search budget).
   All statements hold for ALL contents and ALL offsets 0 <= o <= |c|. *)
From Coq Require Import ZArith List Bool Lia.
From SK Require Import Model.Base Model.Seek Model.SinceSeek Spec.Lines
     Proofs.Seek Proofs.SeekSpec Proofs.SeekLegacy Proofs.SinceSeek Gen.Params
     Gen.Exprs.
Import ListNotations.
Open Scope Z_scope.

(* ---- the two scans -------------------------------------------------- *)
(* forwards: the least line feed >= o if it is nearer than A*H bytes;
   end-of-file if there is none and |c| - o < A*H; otherwise the exception
   (scan_fwd spells this out on next_lf) *)
Theorem C11_find_token_spec : forall H A c o,
  0 < H -> 0 < A -> 0 <= o <= lenZ c ->
  find_token H A c o = scan_fwd H A c o.
Proof. exact find_token_spec. Qed.

(* backwards: the greatest line feed < o if o - q <= A*H; start-of-file if
   there is none and o < A*H; otherwise the exception *)
Theorem C11_find_token_reverse_spec : forall H A c o,
  0 < H -> 0 < A -> 0 <= o <= lenZ c ->
  find_token_reverse H A c o = scan_bwd H A c o.
Proof. exact find_token_reverse_spec. Qed.

(* whatever the budget: a reported line feed IS the nearest one, and
   REACHED_EOF is only reported when there is none on that side *)
Theorem C11_find_token_sound : forall H A c o p,
  0 < H -> 0 < A -> 0 <= o <= lenZ c ->
  find_token H A c o = Found p -> is_next_lf c o p.
Proof. exact find_token_found. Qed.

Theorem C11_find_token_eof_sound : forall H A c o x,
  0 < H -> 0 < A -> 0 <= o <= lenZ c ->
  find_token H A c o = ReachedEof x -> x = lenZ c /\ no_lf_from c o.
Proof. exact find_token_eof. Qed.

Theorem C11_find_token_reverse_sound : forall H A c o q,
  0 < H -> 0 < A -> 0 <= o <= lenZ c ->
  find_token_reverse H A c o = Found q -> is_prev_lf c o q.
Proof. exact find_token_reverse_found. Qed.

Theorem C11_find_token_reverse_eof_sound : forall H A c o x,
  0 < H -> 0 < A -> 0 <= o <= lenZ c ->
  find_token_reverse H A c o = ReachedEof x -> x = 0 /\ no_lf_before c o.
Proof. exact find_token_reverse_eof. Qed.

(* the executable next_lf / prev_lf used above are THE least / greatest *)
Theorem C11_next_lf_is_least : forall c o p,
  0 <= o -> (next_lf c o = Some p <-> is_next_lf c o p).
Proof. exact next_lf_iff. Qed.

Theorem C11_prev_lf_is_greatest : forall c o q,
  prev_lf c o = Some q <-> is_prev_lf c o q.
Proof. exact prev_lf_iff. Qed.

(* ---- the line lookup -------------------------------------------------- *)
(* exact, both directions: inside the budget the LogLine is the line
   containing o; outside it MaxSearchableLineLengthReached is raised; the
   asserts of try_find_line never fail *)
Theorem C11_try_find_line_spec : forall H A c o,
  0 < H -> 0 < A -> 0 <= o <= lenZ c ->
  try_find_line H A c o None None =
  if within_budget H A c o then Line (exact_slf c o) (exact_elf c o)
  else LineErr.
Proof. exact try_find_line_spec. Qed.

(* start offset = first byte of the line, end line feed = the terminating
   line feed (or |c|), the date is read at the first byte of the line *)
Theorem C11_try_find_line_exact : forall H A c o,
  0 < H -> 0 < A -> 0 <= o <= lenZ c ->
  within_budget H A c o = true ->
  exists slf elf,
    try_find_line H A c o None None = Line slf elf /\
    start_offset slf = line_start c o /\
    tok_off elf = line_end c o /\
    (tok_found elf = true <-> line_end c o < lenZ c) /\
    end_offset elf = (if tok_found elf then line_end c o - 1 else lenZ c) /\
    forall W, logline_window W c slf = read c (line_start c o) W.
Proof. exact try_find_line_exact. Qed.

Theorem C11_try_find_line_error_iff : forall H A c o,
  0 < H -> 0 < A -> 0 <= o <= lenZ c ->
  (try_find_line H A c o None None = LineErr <-> within_budget H A c o = false).
Proof. exact try_find_line_error_iff. Qed.

(* in terms of the length of the line (terminator included, if any):
   every line of at most A*H - 1 bytes, wherever it lies, and every line of
   at most A*H bytes that ends with a line feed, is looked up exactly from
   each of its offsets ... *)
Theorem C11_short_line_within_budget : forall H A c o,
  0 < H -> 0 < A -> 0 <= o <= lenZ c ->
  line_len c o <= A * H - 1 -> within_budget H A c o = true.
Proof. exact short_line_within_budget. Qed.

Theorem C11_terminated_line_within_budget : forall H A c o p,
  0 < H -> 0 < A -> 0 <= o <= lenZ c ->
  next_lf c o = Some p ->
  line_len c o <= A * H -> within_budget H A c o = true.
Proof. exact terminated_line_within_budget. Qed.

(* ... and these bounds are exact: a longer line cannot be looked up from
   its first or its last byte *)
Theorem C11_long_terminated_line_raises : forall H A c o p,
  0 < H -> 0 < A -> 0 <= o <= lenZ c ->
  next_lf c o = Some p -> A * H < line_len c o ->
  try_find_line H A c (line_start c o) None None = LineErr \/
  try_find_line H A c p None None = LineErr.
Proof. exact long_terminated_line_raises. Qed.

Theorem C11_long_unterminated_line_raises : forall H A c o,
  0 < H -> 0 < A -> 0 <= o <= lenZ c ->
  next_lf c o = None -> A * H <= line_len c o ->
  try_find_line H A c (line_start c o) None None = LineErr.
Proof. exact long_unterminated_line_raises. Qed.

(* ---- regression corpus: the loops before commit 19d446e ------------------
   (Model/Seek.v legacy_find_token, legacy_find_token_reverse).  A first
   line (no line feed before it) looked up beyond (A-1)*H, or an
   unterminated last line looked up more than (A-1)*H before the end of the
   file, raised although the line was shorter than A*H; the current model
   returns the line. *)
Theorem C11_legacy_first_line_refuted : forall H A c o,
  0 < H -> 0 < A -> 0 <= o <= lenZ c ->
  prev_lf c o = None -> (A - 1) * H < o < A * H ->
  fwd_in_budget H A c o = true ->
  legacy_try_find_line H A c o = None /\
  try_find_line H A c o None None = Line (ReachedEof 0) (exact_elf c o).
Proof. exact legacy_first_line_refuted. Qed.

Theorem C11_legacy_last_line_refuted : forall H A c o,
  0 < H -> 0 < A -> 0 <= o <= lenZ c ->
  next_lf c o = None -> (A - 1) * H < lenZ c - o < A * H ->
  bwd_in_budget H A c o = true ->
  legacy_try_find_line H A c o = None /\
  try_find_line H A c o None None = Line (exact_slf c o) (ReachedEof (lenZ c)).
Proof. exact legacy_last_line_refuted. Qed.

(* ---- where a since constraint leaves the file ---------------------------
   Model/SinceSeek.v [apply_to_file] (binary seek + outcome -> position).
   For ALL contents, ALL timestamp oracles, since dates and limits (no
   ordering or length hypothesis): the position of a freshly opened file
   after apply_to_file is 0, the end of the file, or the first byte after a
   line feed (None = AssertionError, shown impossible in C04). *)
Theorem C11_position_is_line_boundary : forall H A L W tsw c,
  0 < H -> 0 < A -> forall since p,
  apply_to_file H A L W tsw c since 0 = Some p -> is_line_boundary c p.
Proof. exact position_is_line_boundary. Qed.

(* the same for apply_to_file(fd, destructive=False): a successful search
   puts the file back at 0, a search that gives up seeks to 0 / the end *)
Theorem C11_position_is_line_boundary_nd : forall H A L W tsw c since p,
  apply_to_file_nd H A L W tsw c since 0 = Some p -> is_line_boundary c p.
Proof. exact position_is_line_boundary_nd. Qed.

Theorem C11_real_position_is_line_boundary : forall tsw c since p,
  apply_to_file SEEK_HORIZON MAX_SEEK_HORIZON_EXPAND
    MAX_TRY_FIND_WITH_DATE_ATTEMPTS MAX_DATETIME_READ_BYTES tsw c since 0
    = Some p ->
  p = 0 \/ p = lenZ c \/ lf_at c (p - 1).
Proof.
  intros tsw c since p.
  apply position_is_line_boundary; vm_compute; reflexivity.
Qed.

(* ---- instantiation with the constants of the source (Gen/Params.v) ---- *)
Theorem C11_constants :
  0 < SEEK_HORIZON /\ 0 < MAX_SEEK_HORIZON_EXPAND /\
  0 < MAX_DATETIME_READ_BYTES /\
  MAX_SEEK_HORIZON_EXPAND * SEEK_HORIZON = 1048576 /\
  MAX_SEARCHABLE_LINE_LENGTH = 1048576 /\
  MAX_SEEK_HORIZON_EXPAND * SEEK_HORIZON - 1 = 1048575 /\
  (MAX_SEEK_HORIZON_EXPAND - 1) * SEEK_HORIZON = 1048320.
Proof. vm_compute. repeat split; reflexivity. Qed.

Theorem C11_real_lookup_exact : forall c o,
  0 <= o <= lenZ c ->
  within_budget SEEK_HORIZON MAX_SEEK_HORIZON_EXPAND c o = true ->
  exists slf elf,
    try_find_line SEEK_HORIZON MAX_SEEK_HORIZON_EXPAND c o None None
      = Line slf elf /\
    start_offset slf = line_start c o /\
    tok_off elf = line_end c o /\
    logline_window MAX_DATETIME_READ_BYTES c slf
      = read c (line_start c o) MAX_DATETIME_READ_BYTES.
Proof.
  intros c o Ho Hb.
  destruct (try_find_line_exact SEEK_HORIZON MAX_SEEK_HORIZON_EXPAND c o)
    as (slf & elf & H1 & H2 & H3 & _ & _ & H6);
    [vm_compute; reflexivity|vm_compute; reflexivity|exact Ho|exact Hb|].
  exists slf, elf. repeat split; try assumption. apply H6.
Qed.

(* every line shorter than 1 MiB (at most 1 048 575 bytes, terminator
   included if any) ... *)
Theorem C11_real_short_line : forall c o,
  0 <= o <= lenZ c -> line_len c o <= 1048575 ->
  within_budget SEEK_HORIZON MAX_SEEK_HORIZON_EXPAND c o = true.
Proof.
  intros c o Ho Hl. apply short_line_within_budget;
    [vm_compute; reflexivity|vm_compute; reflexivity|exact Ho|].
  replace (MAX_SEEK_HORIZON_EXPAND * SEEK_HORIZON - 1) with 1048575
    by (vm_compute; reflexivity). exact Hl.
Qed.

(* ... and every line of at most 1 MiB including its terminating line feed *)
Theorem C11_real_terminated_line : forall c o p,
  0 <= o <= lenZ c -> next_lf c o = Some p -> line_len c o <= 1048576 ->
  within_budget SEEK_HORIZON MAX_SEEK_HORIZON_EXPAND c o = true.
Proof.
  intros c o p Ho En Hl.
  apply (terminated_line_within_budget _ _ c o p);
    [vm_compute; reflexivity|vm_compute; reflexivity|exact Ho|exact En|].
  replace (MAX_SEEK_HORIZON_EXPAND * SEEK_HORIZON) with 1048576
    by (vm_compute; reflexivity). exact Hl.
Qed.

(* the two inputs on which the old code failed, with the real constants:
   a first line looked up at an offset in (1 048 320, 1 048 576) - e.g.
   b'x'*1048476 + b'\nyy\n' at offset 1048475 - and an unterminated last
   line with between 1 048 320 and 1 048 576 bytes left - e.g.
   b'yy\n' + b'x'*1048476 at offset 3 *)
Theorem C11_real_legacy_first_line_refuted : forall c o,
  0 <= o <= lenZ c -> prev_lf c o = None -> 1048320 < o < 1048576 ->
  fwd_in_budget SEEK_HORIZON MAX_SEEK_HORIZON_EXPAND c o = true ->
  legacy_try_find_line SEEK_HORIZON MAX_SEEK_HORIZON_EXPAND c o = None /\
  try_find_line SEEK_HORIZON MAX_SEEK_HORIZON_EXPAND c o None None
    = Line (ReachedEof 0) (exact_elf c o).
Proof.
  intros c o Ho Ep Hg Hf. apply legacy_first_line_refuted;
    try (vm_compute; reflexivity); assumption.
Qed.

Theorem C11_real_legacy_last_line_refuted : forall c o,
  0 <= o <= lenZ c -> next_lf c o = None ->
  1048320 < lenZ c - o < 1048576 ->
  bwd_in_budget SEEK_HORIZON MAX_SEEK_HORIZON_EXPAND c o = true ->
  legacy_try_find_line SEEK_HORIZON MAX_SEEK_HORIZON_EXPAND c o = None /\
  try_find_line SEEK_HORIZON MAX_SEEK_HORIZON_EXPAND c o None None
    = Line (exact_slf c o) (ReachedEof (lenZ c)).
Proof.
  intros c o Ho En Hg Hb. apply legacy_last_line_refuted;
    try (vm_compute; reflexivity); assumption.
Qed.

(* LogLine.start_offset / end_offset of the model are the bodies translated
   from the source *)
Theorem C11_start_offset_is_source : forall t,
  start_offset t = logline_start_offset (tok_found t) (tok_off t).
Proof. intros t. reflexivity. Qed.

Theorem C11_end_offset_is_source : forall t,
  end_offset t = logline_end_offset (tok_found t) (tok_off t).
Proof. intros t. reflexivity. Qed.

(* ---- non-vacuity --------------------------------------------------------
   content  "ab\n\ncdefghij\nk"  (LF at 2, 3, 12; |c| = 14), H = 4, A = 3:
   every offset is within the budget, and the lookups return the four
   lines [0,2] [3,3] [4,12] [13,14). *)
Definition ex_c : list Z := [97; 98; 10; 10; 99; 100; 101; 102; 103; 104; 105; 106; 10; 107].

Example C11_example_budget :
  forallb (within_budget 4 3 ex_c) [0;1;2;3;4;5;6;7;8;9;10;11;12;13;14] = true.
Proof. vm_compute. reflexivity. Qed.

Example C11_example_lines :
  map (fun o => (line_start ex_c o, line_end ex_c o)) [0; 2; 3; 4; 11; 12; 13; 14]
  = [(0, 2); (0, 2); (3, 3); (4, 12); (4, 12); (4, 12); (13, 14); (13, 14)] /\
  try_find_line 4 3 ex_c 11 None None = Line (Found 3) (Found 12) /\
  try_find_line 4 3 ex_c 3 None None = Line (Found 2) (Found 3) /\
  try_find_line 4 3 ex_c 1 None None = Line (ReachedEof 0) (Found 2) /\
  try_find_line 4 3 ex_c 14 None None = Line (Found 12) (ReachedEof 14).
Proof. vm_compute. repeat split; reflexivity. Qed.

(* the budget boundary on tiny files, H = 2, A = 2 (A*H = 4): "abc" is
   looked up from every offset (the old loops raised at offset 3, and at
   offset 0 too); "abcd" (A*H bytes, no terminator) raises at both ends;
   "abc\n" (A*H bytes with its terminator) is fine *)
Example C11_example_boundary :
  map (fun o => jv_line (try_find_line 2 2 [97; 98; 99] o None None)) [0; 1; 2; 3]
  = repeat (jv_line (Line (ReachedEof 0) (ReachedEof 3))) 4 /\
  map (legacy_try_find_line 2 2 [97; 98; 99]) [0; 1; 2; 3]
  = [None; Some (ReachedEof 0, ReachedEof 3);
     Some (ReachedEof 0, ReachedEof 3); None] /\
  map (fun o => jv_line (try_find_line 2 2 [97; 98; 99; 100] o None None)) [0; 2; 4]
  = [jv_line LineErr; jv_line (Line (ReachedEof 0) (ReachedEof 4)); jv_line LineErr] /\
  map (fun o => jv_line (try_find_line 2 2 [97; 98; 99; 10] o None None)) [0; 3; 4]
  = [jv_line (Line (ReachedEof 0) (Found 3)); jv_line (Line (ReachedEof 0) (Found 3));
     jv_line (Line (Found 3) (ReachedEof 4))].
Proof. vm_compute. repeat split; reflexivity. Qed.

Print Assumptions C11_find_token_spec.
Print Assumptions C11_find_token_reverse_spec.
Print Assumptions C11_try_find_line_spec.
Print Assumptions C11_try_find_line_exact.
Print Assumptions C11_try_find_line_error_iff.
Print Assumptions C11_long_terminated_line_raises.
Print Assumptions C11_legacy_first_line_refuted.
Print Assumptions C11_real_legacy_first_line_refuted.
Print Assumptions C11_real_lookup_exact.
Print Assumptions C11_position_is_line_boundary.
Print Assumptions C11_real_position_is_line_boundary.
Print Assumptions C11_position_is_line_boundary_nd.
