(* C11 - Line lookup at any byte offset returns the line containing it.

   Model: Model/Seek.v (find_token, find_token_reverse, try_find_line,
   LogLine.start_offset/end_offset/date window), parametric in
   H = SEEK_HORIZON and A = MAX_SEEK_HORIZON_EXPAND.
   Spec : Spec/Lines.v (nearest line feeds, the line containing an offset,
   the exact search budget).
   All statements hold for ALL contents and ALL offsets 0 <= o <= |c|. *)
From Coq Require Import ZArith List Bool Lia.
From SK Require Import Model.Base Model.Seek Model.SinceSeek Spec.Lines
     Proofs.Seek Proofs.SeekSpec Proofs.SinceSeek Gen.Params Gen.Exprs.
Import ListNotations.
Open Scope Z_scope.

(* ---- the two scans -------------------------------------------------- *)
(* forwards: the least line feed >= o if it is nearer than A*H bytes;
   end-of-file if there is none and |c| - o <= (A-1)*H; otherwise the
   exception (scan_fwd spells this out on next_lf) *)
Theorem C11_find_token_spec : forall H A c o,
  0 < H -> 0 < A -> 0 <= o <= lenZ c ->
  find_token H A c o = scan_fwd H A c o.
Proof. exact find_token_spec. Qed.

(* backwards: the greatest line feed < o if o - q <= A*H; start-of-file if
   there is none and o <= (A-1)*H; otherwise the exception *)
Theorem C11_find_token_reverse_spec : forall H A c o,
  0 < H -> 0 < A -> 0 <= o <= lenZ c ->
  find_token_reverse H A c o = scan_bwd H A c o.
Proof. exact find_token_reverse_spec. Qed.

(* whatever the budget: a reported line feed IS the nearest one, and
   REACHED_EOF is only reported when there is none on that side *)
Theorem C11_find_token_sound : forall H A c o p,
  0 < H -> 0 < A -> 0 <= o <= lenZ c ->
  find_token H A c o = Found p -> is_next_lf c o p.
Proof. exact find_token_found. Qed.

Theorem C11_find_token_eof_sound : forall H A c o x,
  0 < H -> 0 < A -> 0 <= o <= lenZ c ->
  find_token H A c o = ReachedEof x -> x = lenZ c /\ no_lf_from c o.
Proof. exact find_token_eof. Qed.

Theorem C11_find_token_reverse_sound : forall H A c o q,
  0 < H -> 0 < A -> 0 <= o <= lenZ c ->
  find_token_reverse H A c o = Found q -> is_prev_lf c o q.
Proof. exact find_token_reverse_found. Qed.

Theorem C11_find_token_reverse_eof_sound : forall H A c o x,
  0 < H -> 0 < A -> 0 <= o <= lenZ c ->
  find_token_reverse H A c o = ReachedEof x -> x = 0 /\ no_lf_before c o.
Proof. exact find_token_reverse_eof. Qed.

(* the executable next_lf / prev_lf used above are THE least / greatest *)
Theorem C11_next_lf_is_least : forall c o p,
  0 <= o -> (next_lf c o = Some p <-> is_next_lf c o p).
Proof. exact next_lf_iff. Qed.

Theorem C11_prev_lf_is_greatest : forall c o q,
  prev_lf c o = Some q <-> is_prev_lf c o q.
Proof. exact prev_lf_iff. Qed.

(* ---- the line lookup -------------------------------------------------- *)
(* exact, both directions: inside the budget the LogLine is the line
   containing o; outside it MaxSearchableLineLengthReached is raised; the
   asserts of try_find_line never fail *)
Theorem C11_try_find_line_spec : forall H A c o,
  0 < H -> 0 < A -> 0 <= o <= lenZ c ->
  try_find_line H A c o None None =
  if within_budget H A c o then Line (exact_slf c o) (exact_elf c o)
  else LineErr.
Proof. exact try_find_line_spec. Qed.

(* start offset = first byte of the line, end line feed = the terminating
   line feed (or |c|), the date is read at the first byte of the line *)
Theorem C11_try_find_line_exact : forall H A c o,
  0 < H -> 0 < A -> 0 <= o <= lenZ c ->
  within_budget H A c o = true ->
  exists slf elf,
    try_find_line H A c o None None = Line slf elf /\
    start_offset slf = line_start c o /\
    tok_off elf = line_end c o /\
    (tok_found elf = true <-> line_end c o < lenZ c) /\
    end_offset elf = (if tok_found elf then line_end c o - 1 else lenZ c) /\
    forall W, logline_window W c slf = read c (line_start c o) W.
Proof. exact try_find_line_exact. Qed.

Theorem C11_try_find_line_error_iff : forall H A c o,
  0 < H -> 0 < A -> 0 <= o <= lenZ c ->
  (try_find_line H A c o None None = LineErr <-> within_budget H A c o = false).
Proof. exact try_find_line_error_iff. Qed.

(* in terms of the length of the line (terminator included):
   any line up to (A-1)*H bytes, and any line with a line feed on both
   sides up to A*H bytes, is looked up exactly from each of its offsets *)
Theorem C11_short_line_within_budget : forall H A c o,
  0 < H -> 0 < A -> 0 <= o <= lenZ c ->
  line_len c o <= (A - 1) * H -> within_budget H A c o = true.
Proof. exact short_line_within_budget. Qed.

Theorem C11_interior_line_within_budget : forall H A c o q p,
  0 < H -> 0 < A -> 0 <= o <= lenZ c ->
  prev_lf c o = Some q -> next_lf c o = Some p ->
  p - q <= A * H -> within_budget H A c o = true.
Proof. exact interior_line_within_budget. Qed.

(* The statement "every line of at most A*H bytes is looked up exactly" is
   FALSE of the code: for a first line (no line feed before it) offsets
   beyond (A-1)*H raise, and for an unterminated last line offsets more than
   (A-1)*H before the end raise, although the line may be shorter than A*H.
   (find_token_reverse tests `attempts <= 0` before `read_offset == 0`;
   find_token needs one more attempt for the empty read.) *)
Theorem C11_first_line_gap : forall H A c o,
  0 < H -> 0 < A -> 0 <= o <= lenZ c ->
  prev_lf c o = None -> (A - 1) * H < o ->
  try_find_line H A c o None None = LineErr.
Proof. exact first_line_gap. Qed.

Theorem C11_last_line_gap : forall H A c o,
  0 < H -> 0 < A -> 0 <= o <= lenZ c ->
  next_lf c o = None -> (A - 1) * H < lenZ c - o ->
  try_find_line H A c o None None = LineErr.
Proof. exact last_line_gap. Qed.

Theorem C11_try_find_line_exact_AH_refuted : forall H A c,
  0 < H -> 0 < A -> (forall j, ~ lf_at c j) ->
  (A - 1) * H < lenZ c <= A * H ->
  line_len c (lenZ c) <= A * H /\
  try_find_line H A c (lenZ c) None None = LineErr.
Proof. exact try_find_line_exact_AH_refuted. Qed.

(* ---- where a since constraint leaves the file ---------------------------
   Model/SinceSeek.v [apply_to_file] (binary seek + outcome -> position).
   For ALL contents, ALL timestamp oracles, since dates and limits (no
   ordering or length hypothesis): the position of a freshly opened file
   after apply_to_file is 0, the end of the file, or the first byte after a
   line feed (None = AssertionError, shown impossible in C04). *)
Theorem C11_position_is_line_boundary : forall H A L W tsw c,
  0 < H -> 0 < A -> forall since p,
  apply_to_file H A L W tsw c since 0 = Some p -> is_line_boundary c p.
Proof. exact position_is_line_boundary. Qed.

Theorem C11_real_position_is_line_boundary : forall tsw c since p,
  apply_to_file SEEK_HORIZON MAX_SEEK_HORIZON_EXPAND
    MAX_TRY_FIND_WITH_DATE_ATTEMPTS MAX_DATETIME_READ_BYTES tsw c since 0
    = Some p ->
  p = 0 \/ p = lenZ c \/ lf_at c (p - 1).
Proof.
  intros tsw c since p.
  apply position_is_line_boundary; vm_compute; reflexivity.
Qed.

(* ---- instantiation with the constants of the source (Gen/Params.v) ---- *)
Theorem C11_constants :
  0 < SEEK_HORIZON /\ 0 < MAX_SEEK_HORIZON_EXPAND /\
  0 < MAX_DATETIME_READ_BYTES /\
  MAX_SEEK_HORIZON_EXPAND * SEEK_HORIZON = 1048576 /\
  MAX_SEARCHABLE_LINE_LENGTH = 1048576 /\
  (MAX_SEEK_HORIZON_EXPAND - 1) * SEEK_HORIZON = 1048320.
Proof. vm_compute. repeat split; reflexivity. Qed.

Theorem C11_real_lookup_exact : forall c o,
  0 <= o <= lenZ c ->
  within_budget SEEK_HORIZON MAX_SEEK_HORIZON_EXPAND c o = true ->
  exists slf elf,
    try_find_line SEEK_HORIZON MAX_SEEK_HORIZON_EXPAND c o None None
      = Line slf elf /\
    start_offset slf = line_start c o /\
    tok_off elf = line_end c o /\
    logline_window MAX_DATETIME_READ_BYTES c slf
      = read c (line_start c o) MAX_DATETIME_READ_BYTES.
Proof.
  intros c o Ho Hb.
  destruct (try_find_line_exact SEEK_HORIZON MAX_SEEK_HORIZON_EXPAND c o)
    as (slf & elf & H1 & H2 & H3 & _ & _ & H6);
    [vm_compute; reflexivity|vm_compute; reflexivity|exact Ho|exact Hb|].
  exists slf, elf. repeat split; try assumption. apply H6.
Qed.

(* every line of at most 1 048 320 bytes (1 MiB minus one horizon) ... *)
Theorem C11_real_short_line : forall c o,
  0 <= o <= lenZ c -> line_len c o <= 1048320 ->
  within_budget SEEK_HORIZON MAX_SEEK_HORIZON_EXPAND c o = true.
Proof.
  intros c o Ho Hl. apply short_line_within_budget;
    [vm_compute; reflexivity|vm_compute; reflexivity|exact Ho|].
  replace ((MAX_SEEK_HORIZON_EXPAND - 1) * SEEK_HORIZON) with 1048320
    by (vm_compute; reflexivity). exact Hl.
Qed.

(* ... and every line of at most 1 MiB between two line feeds *)
Theorem C11_real_interior_line : forall c o q p,
  0 <= o <= lenZ c -> prev_lf c o = Some q -> next_lf c o = Some p ->
  p - q <= 1048576 ->
  within_budget SEEK_HORIZON MAX_SEEK_HORIZON_EXPAND c o = true.
Proof.
  intros c o q p Ho Ep En Hl.
  apply (interior_line_within_budget _ _ c o q p);
    [vm_compute; reflexivity|vm_compute; reflexivity|exact Ho|exact Ep|
     exact En|].
  replace (MAX_SEEK_HORIZON_EXPAND * SEEK_HORIZON) with 1048576
    by (vm_compute; reflexivity). exact Hl.
Qed.

(* the gap, with the real constants: a first line longer than 1 048 320
   bytes cannot be looked up from its offsets beyond 1 048 320 *)
Theorem C11_real_first_line_gap : forall c o,
  0 <= o <= lenZ c -> prev_lf c o = None -> 1048320 < o ->
  try_find_line SEEK_HORIZON MAX_SEEK_HORIZON_EXPAND c o None None = LineErr.
Proof.
  intros c o Ho Ep Hg. apply first_line_gap;
    [vm_compute; reflexivity|vm_compute; reflexivity|exact Ho|exact Ep|].
  replace ((MAX_SEEK_HORIZON_EXPAND - 1) * SEEK_HORIZON) with 1048320
    by (vm_compute; reflexivity). exact Hg.
Qed.

(* LogLine.start_offset / end_offset of the model are the bodies translated
   from the source *)
Theorem C11_start_offset_is_source : forall t,
  start_offset t = logline_start_offset (tok_found t) (tok_off t).
Proof. intros t. reflexivity. Qed.

Theorem C11_end_offset_is_source : forall t,
  end_offset t = logline_end_offset (tok_found t) (tok_off t).
Proof. intros t. reflexivity. Qed.

(* ---- non-vacuity --------------------------------------------------------
   content  "ab\n\ncdefghij\nk"  (LF at 2, 3, 12; |c| = 14), H = 4, A = 3:
   every offset is within the budget, and the lookups return the four
   lines [0,2] [3,3] [4,12] [13,14). *)
Definition ex_c : list Z := [97; 98; 10; 10; 99; 100; 101; 102; 103; 104; 105; 106; 10; 107].

Example C11_example_budget :
  forallb (within_budget 4 3 ex_c) [0;1;2;3;4;5;6;7;8;9;10;11;12;13;14] = true.
Proof. vm_compute. reflexivity. Qed.

Example C11_example_lines :
  map (fun o => (line_start ex_c o, line_end ex_c o)) [0; 2; 3; 4; 11; 12; 13; 14]
  = [(0, 2); (0, 2); (3, 3); (4, 12); (4, 12); (4, 12); (13, 14); (13, 14)] /\
  try_find_line 4 3 ex_c 11 None None = Line (Found 3) (Found 12) /\
  try_find_line 4 3 ex_c 3 None None = Line (Found 2) (Found 3) /\
  try_find_line 4 3 ex_c 1 None None = Line (ReachedEof 0) (Found 2) /\
  try_find_line 4 3 ex_c 14 None None = Line (Found 12) (ReachedEof 14).
Proof. vm_compute. repeat split; reflexivity. Qed.

(* the budget boundary on a tiny file: H = 2, A = 2, "abc" has one line of
   3 <= A*H bytes; offsets 0..2 are fine, offset 3 raises *)
Example C11_example_gap :
  line_len [97; 98; 99] 3 = 3 /\
  map (fun o => jv_line (try_find_line 2 2 [97; 98; 99] o None None)) [2; 3]
  = [jv_line (Line (ReachedEof 0) (ReachedEof 3)); jv_line LineErr].
Proof. vm_compute. split; reflexivity. Qed.

Print Assumptions C11_find_token_spec.
Print Assumptions C11_find_token_reverse_spec.
Print Assumptions C11_try_find_line_spec.
Print Assumptions C11_try_find_line_exact.
Print Assumptions C11_try_find_line_error_iff.
Print Assumptions C11_try_find_line_exact_AH_refuted.
Print Assumptions C11_real_lookup_exact.
Print Assumptions C11_position_is_line_boundary.
Print Assumptions C11_real_position_is_line_boundary.
