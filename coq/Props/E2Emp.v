(* E2Emp - CAPSTONE 2: the MULTI-file FileSearcher.run(), end to end.

   Composed model : Model/RunMp.v  (per catalog entry Model/Run.v's task,
                    UNCHANGED; the hand-over pipeline Model/Pipeline.v; the
                    multi-file statistics Model/Stats.v run_mp; the dispatch)
   Specification  : Spec/RunMp.v   ([spec_run_mp]: per path Spec/Run.v
                    [spec_run] of that file; spec statistics)
   Proofs         : Proofs/RunMpOrder.v (completion order of a schedule),
                    Proofs/RunMp.v (the composition),
                    Proofs/RunBatches.v (Task's batches = Pipeline's
                    producer model).

   IMPORTED as they are:
     the single-file composition (Proofs/Run.v, Proofs/RunStream.v: C12, C04,
       C11, Lines, C01, C07, C17 task_counts_its_collection)
     C02 parallel_equals_sequential, sequential_spec, returned_complete,
         progress
     C17 stats_exact (multi-file branch, ANY completion order)
     C18 many_files_pool / single_file_no_pool (Gen.Exprs.run_uses_pool)
   BRIDGED (Model/RunMp.v M1-M3):
     M1 a result travels through Pipeline.v as its POSITION in its task's
        output ([number_from] / [decode]); the batches fed to the pipeline are
        the very batches Task.execute hands to put_result
     M2 the completion order C17 quantifies over IS the order of the
        effective Finish actions of the schedule ([finish_order]) - proved to
        be a permutation of the tasks for every schedule that returns
     M3 the dispatch test is Gen.Exprs.run_uses_pool.

   NOT INCLUDED: sequence searches in multi-file runs.  Composing them needs
   one more assumption that no model here can discharge: section ids drawn
   by uuid4() in DIFFERENT worker processes do not coincide (C03's counter
   models freshness inside one task only; C03_ids_distinct_across_definitions
   is per task).  The per-path statement would survive without it (sections
   are looked up per path), find_sequence_sections over all paths would
   not. *)
From Coq Require Import ZArith List Bool Lia Permutation.
From SK Require Import Model.Base Model.Seek Model.SinceSeek Model.Lines
     Model.Task Model.Stats Model.Gzip Model.Run Model.Pipeline Model.RunMp
     Spec.Lines Spec.C04 Spec.Task Spec.Stats Spec.Run Spec.Pipeline
     Spec.RunMp
     Proofs.TaskLoop Proofs.TaskSimple Proofs.SinceSeekExact Proofs.C18
     Proofs.RunMpOrder Proofs.RunMp Proofs.RunBatches
     Gen.Params Gen.Exprs Props.E2E.
Import ListNotations.
Open Scope Z_scope.

(* ==== THE THEOREM ==========================================================
   For every catalog of AT LEAST TWO files - each with its own bytes (plain
   or gzip), its own registered definitions, and the hypotheses of
   E2E_single_file_run_exact on ITS bytes (C04's h0-h3 when the file-level
   constraint is applied to it, C07's uniformity) -, every queue capacity Q,
   every MAX >= 1, every NBUF, every previous statistics, and EVERY schedule
   of producers / collector / manager / purge without give-ups that reaches
   the return of run():
   run() (which dispatches to _run_mp: C18) returns a collection that holds
   under each path exactly the results Spec/Run.v [spec_run] prescribes for
   THAT file - per definition, in order, numbered from that file's own first
   searched line -, nothing under any other path, and statistics equal to
   the specification's: all registrations, registrations per file, all lines
   searched, all results, jobs n of n; and what lies under the paths is as
   much as stats['results'] says.
   (Q >= 1 and NBUF >= 1 are not needed for this safety statement; Q >= 1 is
   what makes such schedules exist, E2E_multi_file_progress.)        [full] *)
Theorem E2E_multi_file_run_exact :
  forall (H A L W : Z) (tsw : list Z -> option Z) (line : Type)
         (classify : list Z -> line)
         (omatch : Z -> line -> option (list Z)) (ohint : Z -> line -> bool)
         (ocon : Z -> line -> Task.outcome) (MAX NBUF : Z),
    0 < H -> 0 < A -> 0 < L -> 1 <= MAX ->
    forall (Q : Z) (sched : list action) (prev : stats) (since : option Z)
           (restrictions : list Z) (files : list mfile),
    (2 <= length files)%nat ->
    Forall (fun mf =>
      wf (mf_file mf) /\ keys_ok s_key (mf_defs mf) /\
      (seeks since restrictions (map s_key (mf_defs mf)) = true ->
       seek_hyps H A L W tsw (stream (mf_file mf))) /\
      (forall d, In d (mf_defs mf) ->
         uniform line ocon (s_cons d)
                 (searched W tsw line classify since restrictions
                           (map s_key (mf_defs mf)) (stream (mf_file mf)))))
      files ->
    drop_free sched = true ->
    mp_returned H A L W tsw line classify omatch ohint ocon MAX NBUF Q sched
                since restrictions files = true ->
    exists coll st,
      run_files H A L W tsw line classify omatch ohint ocon MAX NBUF
                run_uses_pool Q sched prev since restrictions files
      = MpOk coll st /\
      (forall t mf, nth_error files t = Some mf ->
         simple_view (mf_defs mf) (mp_find t coll) =
         fst (spec_file W tsw line classify omatch ohint ocon since
                        restrictions mf)) /\
      (forall p, (length files <= p)%nat -> mp_find p coll = []) /\
      st = snd (spec_run_mp W tsw line classify omatch ohint ocon since
                            restrictions files) /\
      Stats.sumZ (map (fun t => Stats.lenZ (mp_find t coll))
                      (seq 0 (length files))) = st_results st.
Proof.
  intros H A L W tsw line classify omatch ohint ocon MAX NBUF HH HA HL HM
         Q sched prev since restrictions files.
  exact (multi_file_run_files_exact H A L W tsw line classify omatch ohint
           ocon MAX NBUF HH HA HL HM run_uses_pool Q sched prev since
           restrictions files many_files_pool).
Qed.

(* the same as ONE equation on what is observable of _run_mp *)
Theorem E2E_multi_file_observe :
  forall (H A L W : Z) (tsw : list Z -> option Z) (line : Type)
         (classify : list Z -> line) omatch ohint
         (ocon : Z -> line -> Task.outcome) (MAX NBUF : Z),
    0 < H -> 0 < A -> 0 < L -> 1 <= MAX ->
    forall Q sched prev since restrictions files,
    (2 <= length files)%nat ->
    Forall (file_ok H A L W tsw line classify ocon since restrictions) files ->
    drop_free sched = true ->
    mp_returned H A L W tsw line classify omatch ohint ocon MAX NBUF Q sched
                since restrictions files = true ->
    observe_mp files
      (run_mp_files H A L W tsw line classify omatch ohint ocon MAX NBUF Q
                    sched prev since restrictions files) =
    Some (spec_run_mp W tsw line classify omatch ohint ocon since
                      restrictions files).
Proof. exact multi_file_observe. Qed.

(* ==== the bridges, as statements of their own ============================ *)
(* (M2) for EVERY batch structure, capacity and schedule (give-ups or not):
   if the run returns, the futures completed in an order that is a
   permutation of all tasks - C17's "any completion order" is the
   schedule's                                                        [full] *)
Theorem E2E_completion_order_is_permutation : forall P Q sched,
  ph (Pipeline.run Q sched (init P)) = Returned ->
  Permutation (finish_order Q sched (init P)) (seq 0 (length P)).
Proof. exact finish_order_permutation. Qed.

(* (M1) what travels through the pipeline as positions, read back, is the
   task's output, whatever its batch structure                       [full] *)
Theorem E2E_payloads_roundtrip : forall (R : Type) (bs : list (list R)) (t : nat),
  decode (concat bs) (map snd (map (pair t) (concat (number_from 0 bs))))
  = concat bs /\
  map (@length Z) (number_from 0 bs) = map (@length R) bs.
Proof.
  intros R bs t. split; [exact (decode_numbered bs t)
                        |exact (number_from_shape bs 0)].
Qed.

(* Pipeline.v's producer model and Task.v's results buffer are two
   descriptions of the same thing: for MAX >= 1, NBUF >= 1, ANY handler
   (simple or sequence), definitions and lines, the batches Task.execute
   hands to put_result ARE task_batches MAX NBUF of the stream it emits.
   (E2E_multi_file_run_exact does not use this: C02 holds for every batch
   structure, only the concatenation matters.)                       [full] *)
Theorem E2E_task_batches_are_pipeline_batches :
  forall (line D St R : Type) (key : D -> Z) (cons : D -> list Z)
         (ocon : Z -> line -> Task.outcome) (init : D -> St)
         (step : D -> St -> Z -> line -> St * list R)
         (post : list (D * St) -> Z -> list R) (MAX NBUF : Z)
         (ds : list D) (lines : list line),
    1 <= MAX -> 1 <= NBUF ->
    Task.execute line D St R key cons ocon init step post MAX NBUF ds lines =
    TaskOk (task_batches (Z.to_nat MAX) (Z.to_nat NBUF)
              (emitted line D St R key cons ocon init step post ds lines)).
Proof. exact execute_batches_are_task_batches. Qed.

(* (M3) + C18: one file is searched in-process - run() IS the single-file
   run of E2E_single_file_run_exact, its results filed under path 0 *)
Theorem E2E_single_file_dispatch :
  forall H A L W tsw (line : Type) (classify : list Z -> line) omatch ohint
         (ocon : Z -> line -> Task.outcome) MAX NBUF Q sched prev since
         restrictions mf,
    run_files H A L W tsw line classify omatch ohint ocon MAX NBUF
              run_uses_pool Q sched prev since restrictions [mf] =
    match run_simple H A L W tsw line classify omatch ohint ocon MAX NBUF
                     prev (mf_file mf) since restrictions (mf_defs mf) with
    | RunOk coll st =>
        MpOk (match coll with [] => [] | _ => [(0%nat, coll)] end) st
    | RunHangs => MpHangs
    | RunRaises => MpRaises
    end.
Proof.
  intros. apply run_files_one. exact single_file_no_pool.
Qed.

(* schedules that return exist: as long as run() has not returned (and no
   batch was given up) some action other than a give-up is enabled (C02
   progress, for the composed run); with C02_step_decreases every fair
   schedule therefore returns                                        [full] *)
Theorem E2E_multi_file_progress :
  forall H A L W tsw (line : Type) (classify : list Z -> line) omatch ohint
         (ocon : Z -> line -> Task.outcome) MAX NBUF Q sched since
         restrictions files s,
    1 <= Q -> drop_free sched = true ->
    mp_final H A L W tsw line classify omatch ohint ocon MAX NBUF Q sched
             since restrictions files = Some s ->
    ph s <> Returned ->
    exists a s', is_drop a = false /\ step Q s a = Some s'.
Proof. exact multi_file_progress. Qed.

(* ==== instantiation with the constants of the current source ============= *)
Theorem E2Emp_constants :
  0 < SEEK_HORIZON /\ 0 < MAX_SEEK_HORIZON_EXPAND /\
  0 < MAX_TRY_FIND_WITH_DATE_ATTEMPTS /\ 1 <= TRANSIT_MAX /\
  1 <= NUM_BUFFERED_RESULTS /\ 1 <= RESULTS_QUEUE_SIZE.
Proof. vm_compute. repeat split; reflexivity || discriminate. Qed.

Theorem E2E_real_multi_file_observe :
  forall (tsw : list Z -> option Z) (line : Type) (classify : list Z -> line)
         omatch ohint (ocon : Z -> line -> Task.outcome)
         sched prev since restrictions files,
    (2 <= length files)%nat ->
    Forall (file_ok SEEK_HORIZON MAX_SEEK_HORIZON_EXPAND
                    MAX_TRY_FIND_WITH_DATE_ATTEMPTS MAX_DATETIME_READ_BYTES
                    tsw line classify ocon since restrictions) files ->
    drop_free sched = true ->
    mp_returned SEEK_HORIZON MAX_SEEK_HORIZON_EXPAND
                MAX_TRY_FIND_WITH_DATE_ATTEMPTS MAX_DATETIME_READ_BYTES
                tsw line classify omatch ohint ocon TRANSIT_MAX
                NUM_BUFFERED_RESULTS RESULTS_QUEUE_SIZE sched since
                restrictions files = true ->
    observe_mp files
      (run_mp_files SEEK_HORIZON MAX_SEEK_HORIZON_EXPAND
                    MAX_TRY_FIND_WITH_DATE_ATTEMPTS MAX_DATETIME_READ_BYTES
                    tsw line classify omatch ohint ocon TRANSIT_MAX
                    NUM_BUFFERED_RESULTS RESULTS_QUEUE_SIZE sched prev since
                    restrictions files) =
    Some (spec_run_mp MAX_DATETIME_READ_BYTES tsw line classify omatch ohint
                      ocon since restrictions files).
Proof.
  intros. destruct E2Emp_constants as (C1 & C2 & C3 & C4 & _).
  apply multi_file_observe; assumption.
Qed.

(* ==== non-vacuity ==========================================================
   Three files with the toy oracles of Props/E2E.v:
     file 0: the 7-line log of E2E.v, d1 registered twice and d2
     file 1: "d6a" "d8ab" (9 bytes), d2 (own constraint: date >= 55)
     file 2: a gzip of nothing, d1
   MAX = 2, NUM_BUFFERED_RESULTS = 3, queue capacity Q = 1.  Without a
   file-level constraint file 0 hands over the batches [r0; r1] [r2] (the
   buffer reaches 3 and is flushed in slices of 2), file 1 the batch [r0],
   file 2 nothing.  The schedule below has 13 actions of which 11 are
   effective: the first `Put 1` and the second `Put 0` meet the FULL queue
   and stutter; the futures complete in the order 1, 0, 2. *)
Definition mp_log1 : list Z := [100; 54; 97; 10; 100; 56; 97; 98; 10].
Definition mp_files : list mfile :=
  [mkMfile ex_plain ex_ds; mkMfile (mkFile 9 Plain mp_log1) [ex_d2];
   mkMfile (mkFile 20 Gz []) [ex_d1]].
Definition mp_sched : list action :=
  [Put 0; Put 1; Collect; Put 1; Put 0; Collect; Put 0; Finish 1; Collect;
   Finish 0; Finish 2; StartPurge; Return]%nat.
(* since = 54: file 0 and file 1 hand over one batch each; the last batch is
   taken by the purge *)
Definition mp_sched54 : list action :=
  [Put 1; Put 0; Finish 2; Collect; Put 0; Finish 0; Finish 1; StartPurge;
   PurgeStep; Return]%nat.
Definition mp_run since sched :=
  run_mp_files 4 3 3 2 ex_tsw tline ex_classify t_omatch t_ohint t_ocon 2 3
               1 sched ex_prev since [] mp_files.
Definition mp_spec since :=
  spec_run_mp 2 ex_tsw tline ex_classify t_omatch t_ohint t_ocon since []
              mp_files.

(* every hypothesis of the theorem holds for these files, for every since *)
Example E2Emp_example_hypotheses : forall since,
  Forall (file_ok 4 3 3 2 ex_tsw tline ex_classify t_ocon since []) mp_files.
Proof.
  intros since.
  destruct E2E_example_hypotheses as (W1 & _ & Hk & Hs & _ & Hu).
  assert (Hgen : forall c n, length c = n ->
            dates_sorted_from (ts_at 2 ex_tsw c) None (line_starts c) = true ->
            max_undated_run (ts_at 2 ex_tsw c) c <= 2 ->
            forallb (within_budget 4 3 c) (map Z.of_nat (seq 0 (S n))) = true ->
            seek_hyps 4 3 3 2 ex_tsw c).
  { intros c n Hn H2 H3 H1. split; [|split; [|split]].
    - exact (oracle_rejects_lf_gives_h0 ex_tsw 2 c ltac:(lia) eq_refl
               (fun _ => eq_refl)).
    - intros o Ho. apply (forall_offsets_check (within_budget 4 3 c) n H1).
      unfold Base.lenZ in Ho. rewrite Hn in Ho. exact Ho.
    - exact H2.
    - exact H3. }
  constructor; [|constructor; [|constructor; [|constructor]]];
    unfold file_ok; cbn [mf_file mf_defs stream];
    (split; [|split; [|split]]).
  - exact W1.
  - exact Hk.
  - intros _. exact Hs.
  - apply Hu.
  - reflexivity.
  - intros a b [<-|[]] [<-|[]] _. reflexivity.
  - intros _. apply (Hgen mp_log1 9%nat); vm_compute; congruence.
  - intros d [<-|[]]. apply uniform_single.
  - vm_compute. reflexivity.
  - intros a b [<-|[]] [<-|[]] _. reflexivity.
  - intros _. apply (Hgen [] 0%nat); vm_compute; congruence.
  - intros d [<-|[]]. apply uniform_nil.
Qed.

(* so the theorem applies to both schedules (application, not evaluation;
   only "this schedule returns" is computed) *)
Example E2Emp_example_theorem_applies :
  observe_mp mp_files (mp_run None mp_sched) = Some (mp_spec None) /\
  observe_mp mp_files (mp_run (Some 54) mp_sched54) = Some (mp_spec (Some 54)).
Proof.
  split; apply E2E_multi_file_observe; try lia;
    try apply E2Emp_example_hypotheses; try (cbn; lia);
    vm_compute; reflexivity.
Qed.

(* ... and this is what the composed MODEL computes *)
Example E2Emp_example_run :
  mp_run None mp_sched =
    MpOk [(0%nat, [mkResult 1 2 100 [(0, 97)]; mkResult 1 6 100 [(0, 97)];
                   mkResult 2 6 200 [(1, 5)]]);
          (1%nat, [mkResult 2 2 200 [(1, 5)]])]
         (mkStats 5 [3; 1; 1] 9 3 3 4) /\
  observe_mp mp_files (mp_run (Some 54) mp_sched54) =
    Some ([[(1, [(1, [(0, 97)])]); (2, [(1, [(1, 5)])]);
            (1, [(1, [(0, 97)])])];
           [(2, [(2, [(1, 5)])])]; [(1, [])]],
          mkStats 5 [3; 1; 1] 4 3 3 3) /\
  (* what the workers feed to the pipeline, the completion order, and the
     number of effective steps of the 13-action schedule: 2 stutters *)
  match file_tasks 4 3 3 2 ex_tsw tline ex_classify t_omatch t_ohint t_ocon
                   2 3 None [] mp_files with
  | GDone l => Some (payloads l, finish_order 1 mp_sched (init (payloads l)),
                     effective 1 mp_sched (init (payloads l)),
                     length mp_sched)
  | _ => None
  end = Some ([[[0; 1]; [2]]; [[0]]; []], [1; 0; 2]%nat, 11, 13%nat) /\
  (* a schedule that stops early has not returned: nothing is observable *)
  mp_run None (firstn 11 mp_sched) = MpNotReturned /\
  (* one file: in-process, the single-file run *)
  run_files 4 3 3 2 ex_tsw tline ex_classify t_omatch t_ohint t_ocon 2 3
            run_uses_pool 1 [] ex_prev None [] [mkMfile ex_plain ex_ds] =
    MpOk [(0%nat, [mkResult 1 2 100 [(0, 97)]; mkResult 1 6 100 [(0, 97)];
                   mkResult 2 6 200 [(1, 5)]])]
         (mkStats 3 [3] 7 1 1 3).
Proof. vm_compute. repeat split; reflexivity. Qed.

(* the batches of file 0 are Pipeline's task_batches 2 3 of its stream *)
Example E2Emp_example_batches :
  simple_execute tline t_omatch t_ohint t_ocon 2 3 ex_ds
                 (file_lines tline ex_classify ex_log) =
  TaskOk (task_batches 2 3
            [mkResult 1 2 100 [(0, 97)]; mkResult 1 6 100 [(0, 97)];
             mkResult 2 6 200 [(1, 5)]]).
Proof. vm_compute. reflexivity. Qed.

Print Assumptions E2E_multi_file_run_exact.
Print Assumptions E2E_multi_file_observe.
Print Assumptions E2E_completion_order_is_permutation.
Print Assumptions E2E_payloads_roundtrip.
Print Assumptions E2E_task_batches_are_pipeline_batches.
Print Assumptions E2E_single_file_dispatch.
Print Assumptions E2E_multi_file_progress.
Print Assumptions E2E_real_multi_file_observe.
Print Assumptions E2Emp_example_theorem_applies.
Print Assumptions E2Emp_example_run.
