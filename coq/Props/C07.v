(* C07 - A search's own since constraint gates only that search, from the
   first passing line.  Model: Model/Task.v (apply_single, the runnable map
   and the per-line loop of _run_search, apply_global); specification:
   Spec/Task.v (active_from, spec_constrained, visible_spec).

   How the code's rule relates to the property's wording.  The property
   speaks of "the first line whose timestamp satisfies all of its
   constraints" (index active_from).  The code keeps a definition with
   constraints inactive; on every line met while inactive it computes
   (line_is_valid, all_constraints_passed) = apply_single:
     some constraint fails                        -> line skipped
     none fails, none passes (all undecidable)    -> line skipped
     none fails, all pass                         -> line searched, ACTIVE
     none fails, some pass, some undecidable      -> line searched, stays
                                                     inactive       [#]
   - one constraint: [#] cannot occur; code = property
       (C07_single_constraint_exact);
   - several constraints for which undecidedness is a property of the line
     (every constraint reads the timestamp or none does - always so when they
     share one timestamp matcher class): [#] cannot occur; code = property
       (C07_own_constraint_exact, hypothesis [uniform]);
   - heterogeneous (Pass, Undecided) lines before the activation line ARE
     searched although the definition is not yet active:
       C07_heterogeneous_boundary (general), C07_code_rule (closed form of
       what the code reports in every case) and
       C07_heterogeneous_boundary_example (concrete divergence from the
       property's wording; outside the property's scope, see DESIGN 3). *)
From Coq Require Import String ZArith List Bool.
From SK Require Import Model.Skel Model.Stm Model.Task Model.TaskSk Spec.Task
     Proofs.TaskFlush Proofs.TaskLoop Proofs.TaskSimple Proofs.TaskGating
     Proofs.TaskSk Gen.Params Gen.Skeleton Gen.SkelTree Gen.XTask.
Import ListNotations.
Open Scope Z_scope.

(* simple searches: the results of a constrained d are exactly the matches
   from the first line on which all its constraints pass, numbering
   unchanged; earlier lines contribute nothing, every later line is
   searched, dated or not.                       [full, under uniform] *)
Theorem C07_own_constraint_exact :
  forall (line : Type) (omatch : Z -> line -> option (list Z))
         (ohint : Z -> line -> bool) (ocon : Z -> line -> outcome)
         (MAX NBUF : Z) (ds : list sdef) (lines : list line) (d : sdef),
    1 <= MAX -> keys_ok s_key ds -> In d ds ->
    uniform line ocon (s_cons d) lines ->
    exists bs,
      simple_execute line omatch ohint ocon MAX NBUF ds lines = TaskOk bs /\
      Forall (batch_ok MAX) bs /\
      map obs (results_for (s_key d) (concat bs)) =
      spec_constrained line omatch ohint ocon d lines.
Proof. exact simple_constrained_exact. Qed.

(* one constraint: no hypothesis on the outcomes                  [full] *)
Theorem C07_single_constraint_uniform :
  forall (line : Type) (ocon : Z -> line -> outcome) (c : Z)
         (lines : list line), uniform line ocon [c] lines.
Proof. exact @uniform_single. Qed.

(* any handler (simple or sequence): outputs and final handler state of d =
   the handler run over the lines from the activation line on   [full,
   under uniform] *)
Theorem C07_own_constraint_exact_any_handler :
  forall (line D St R : Type) (key : D -> Z) (cons : D -> list Z)
         (ocon : Z -> line -> outcome) (init : D -> St)
         (step : D -> St -> Z -> line -> St * list R) (rkey : R -> Z)
         (ds : list D) (lines : list line) (d : D),
    step_keyed line D St R key step rkey -> keys_ok key ds -> In d ds ->
    uniform line ocon (cons d) lines ->
    let seen := visible_spec line ocon (cons d) lines (enum 1 lines) in
    filter (keyb R rkey (key d))
           (emitted_lines line D St R key cons ocon init step ds lines) =
      snd (hrun line D St R step d (init d) seen) /\
    In (d, fst (hrun line D St R step d (init d) seen))
       (slot_states D St
          (final_slots line D St R key cons ocon init step ds lines)).
Proof. exact own_constraint_generic. Qed.

(* the code's exact rule, no hypothesis on the outcomes: k = active_from;
   before k the lines with pre_search (valid, not all passed) are searched,
   from k on every line is                                         [full] *)
Theorem C07_code_rule :
  forall (line D St R : Type) (key : D -> Z) (cons : D -> list Z)
         (ocon : Z -> line -> outcome) (init : D -> St)
         (step : D -> St -> Z -> line -> St * list R) (rkey : R -> Z)
         (ds : list D) (lines : list line) (d : D),
    step_keyed line D St R key step rkey -> keys_ok key ds -> In d ds ->
    has_constraints D cons d = true ->
    let k := active_from line ocon (cons d) lines in
    filter (keyb R rkey (key d))
           (emitted_lines line D St R key cons ocon init step ds lines) =
    snd (hrun line D St R step d (init d)
           (filter (fun il => pre_search line D cons ocon d (snd il))
                   (firstn k (enum 1 lines)) ++ skipn k (enum 1 lines))).
Proof. exact own_constraint_code_rule_generic. Qed.

(* (Pass, Undecided) without Fail: searched, not activated *)
Theorem C07_heterogeneous_boundary :
  forall (line D : Type) (cons : D -> list Z) (ocon : Z -> line -> outcome)
         (d : D) (l : line),
    (forall c, In c (cons d) -> ocon c l <> Fail) ->
    (exists c, In c (cons d) /\ ocon c l = Pass) ->
    (exists c, In c (cons d) /\ ocon c l = Undecided) ->
    pre_search line D cons ocon d l = true /\
    activates line D cons ocon d l = false.
Proof. exact @pre_search_heterogeneous. Qed.

(* under uniformity no line is pre-searched *)
Theorem C07_uniform_no_pre_search :
  forall (line D : Type) (cons : D -> list Z) (ocon : Z -> line -> outcome)
         (d : D) (l : line),
    uniform_line line ocon (cons d) l = true ->
    pre_search line D cons ocon d l = false.
Proof. exact pre_search_uniform. Qed.

(* once runnable, runnable for the rest of the file - one line ... *)
Theorem C07_sticky_step :
  forall (line D St R : Type) (cons : D -> list Z)
         (ocon : Z -> line -> outcome)
         (step : D -> St -> Z -> line -> St * list R)
         (ln : Z) (l : line) (s : slot D St),
    sl_run s = true ->
    sl_run (fst (slot_step line D St R cons ocon step ln l s)) = true.
Proof. exact sstep_sticky. Qed.

(* ... and any number of lines; every later line reaches the handler,
   whatever the constraints say about it *)
Theorem C07_sticky :
  forall (line D St R : Type) (cons : D -> list Z)
         (ocon : Z -> line -> outcome)
         (step : D -> St -> Z -> line -> St * list R)
         (lines : list line) (ln : Z) (s : slot D St),
    sl_run s = true ->
    sl_run (fst (slot_traj line D St R cons ocon step ln lines s)) = true.
Proof. exact slot_traj_sticky. Qed.

Theorem C07_active_sees_every_line :
  forall (line D St R : Type) (cons : D -> list Z)
         (ocon : Z -> line -> outcome)
         (step : D -> St -> Z -> line -> St * list R)
         (lines : list line) (ln : Z) (s : slot D St),
    sl_run s = true ->
    snd (slot_traj line D St R cons ocon step ln lines s) =
    snd (hrun line D St R step (sl_def s) (sl_st s) (enum (ln + 1) lines)).
Proof. exact slot_traj_runnable_sees_all. Qed.

(* the slots of the loop evolve as independent trajectories *)
Theorem C07_slots_independent :
  forall (line D St R : Type) (cons : D -> list Z)
         (ocon : Z -> line -> outcome)
         (step : D -> St -> Z -> line -> St * list R)
         (lines : list line) (ln : Z) (sls : list (slot D St)),
    fst (fst (lines_pure line D St R cons ocon step ln lines sls)) =
    map (fun s => fst (slot_traj line D St R cons ocon step ln lines s)) sls.
Proof. exact lines_pure_slots. Qed.

(* results of d' are the same for any two registrations that both contain
   d' - so they depend neither on d's constraints nor on d's presence *)
Theorem C07_neighbours_unaffected :
  forall (line D St R : Type) (key : D -> Z) (cons : D -> list Z)
         (ocon : Z -> line -> outcome) (init : D -> St)
         (step : D -> St -> Z -> line -> St * list R) (rkey : R -> Z)
         (ds1 ds2 : list D) (lines : list line) (d' : D),
    step_keyed line D St R key step rkey ->
    keys_ok key ds1 -> keys_ok key ds2 -> In d' ds1 -> In d' ds2 ->
    filter (keyb R rkey (key d'))
           (emitted_lines line D St R key cons ocon init step ds1 lines) =
    filter (keyb R rkey (key d'))
           (emitted_lines line D St R key cons ocon init step ds2 lines).
Proof. exact neighbours_unaffected_generic. Qed.

(* an unconstrained neighbour sees every line of the file *)
Theorem C07_unconstrained_neighbour_sees_all :
  forall (line D St R : Type) (key : D -> Z) (cons : D -> list Z)
         (ocon : Z -> line -> outcome) (init : D -> St)
         (step : D -> St -> Z -> line -> St * list R) (rkey : R -> Z)
         (ds : list D) (lines : list line) (d' : D),
    step_keyed line D St R key step rkey -> keys_ok key ds -> In d' ds ->
    has_constraints D cons d' = false ->
    filter (keyb R rkey (key d'))
           (emitted_lines line D St R key cons ocon init step ds lines) =
    snd (hrun line D St R step d' (init d') (enum 1 lines)).
Proof. exact unconstrained_sees_all. Qed.

(* a definition registered with allow_global_constraints=False on the file:
   apply_global returns 0 without applying any file-level constraint, and
   the whole file is searched *)
Theorem C07_restricted_file_not_seeked :
  forall (line D St R : Type) (key : D -> Z) (cons : D -> list Z)
         (ocon : Z -> line -> outcome) (init : D -> St)
         (step : D -> St -> Z -> line -> St * list R)
         (post : list (D * St) -> Z -> list R) (MAX NBUF : Z) (G : Type)
         (atf : G -> nat -> option Z * nat) (globals : list G)
         (restrictions : list Z) (ds : list D) (d : D)
         (file_lines : list line),
    In d ds -> In (key d) restrictions ->
    apply_global atf globals restrictions
                 (map (fun s => key (sl_def s))
                      (search_defs D St key cons init ds)) = (0, 0%nat, []) /\
    run_file line D St R key cons ocon init step post MAX NBUF atf globals
             restrictions ds file_lines =
    execute line D St R key cons ocon init step post MAX NBUF ds file_lines.
Proof. exact restricted_file_whole. Qed.

Theorem C07_add_records_restriction :
  forall restrictions id, In id (add_restriction restrictions id false).
Proof. exact add_restriction_in. Qed.

(* instantiation: the constants of the current source meet 1 <= MAX *)
Theorem C07_own_constraint_exact_current_constants :
  forall (line : Type) omatch ohint ocon (ds : list sdef)
         (lines : list line) (d : sdef),
    keys_ok s_key ds -> In d ds -> uniform line ocon (s_cons d) lines ->
    exists bs,
      simple_execute line omatch ohint ocon TRANSIT_MAX NUM_BUFFERED_RESULTS
                     ds lines = TaskOk bs /\
      Forall (batch_ok TRANSIT_MAX) bs /\
      map obs (results_for (s_key d) (concat bs)) =
      spec_constrained line omatch ohint ocon d lines.
Proof.
  intros line omatch ohint ocon ds lines d.
  apply simple_constrained_exact. vm_compute. discriminate.
Qed.

(* ---- T1: the model mirrors the CURRENT source (see Model/TaskSk.v) ---- *)
(* control skeletons regenerated from the source = the shapes the model's
   branches are written against (exit kinds included: a `continue` turned
   into a `break` or a lost early `return` breaks these) *)
Theorem C07_apply_single_shape :
  xshape tk_apply_single sk_apply_single = Some x_apply_single.
Proof. vm_compute. reflexivity. Qed.

Theorem C07_apply_to_line_shape :
  xshape tk_apply_to_line sk_apply_to_line = Some x_apply_to_line.
Proof. vm_compute. reflexivity. Qed.

Theorem C07_apply_global_shape :
  xshape tk_apply_global sk_apply_global = Some x_apply_global.
Proof. vm_compute. reflexivity. Qed.

(* the per-line / per-definition loop with the apply_single gate *)
Theorem C07_run_search_shape :
  xshape_guarded tk_run_search_full sk_run_search_full
  = Some x_run_search_full.
Proof. vm_compute. reflexivity. Qed.

(* the flag updates and return values of apply_single (local variables, not
   events), as extracted from the source, are the model's *)
Theorem C07_apply_single_source_updates :
  mkAsSrc as_ret_empty as_init as_on_pass as_on_undecided as_ret_fail
          as_ret_end = as_src_model.
Proof. reflexivity. Qed.

(* apply_single: executing the extracted skeleton with those updates - Pass
   -> flag, continue; CouldNotApplyConstraint handler -> flag, continue;
   falling through (Fail) -> return (False, False) at once; after the loop
   return the flags - is the model's apply_single, for every list of
   constraint outcomes *)
Theorem C07_apply_single_is_model :
  forall outs : list outcome,
    on_shape (xshape tk_apply_single sk_apply_single)
             (run_apply_single_tree
                (mkAsSrc as_ret_empty as_init as_on_pass as_on_undecided
                         as_ret_fail as_ret_end) outs) =
    Some (apply_single outs).
Proof.
  exact (apply_single_on_shape _ _ C07_apply_single_shape
                               C07_apply_single_source_updates).
Qed.

(* SearchDefBase: the constraints argument is kept as given, the id is
   generated once per object (cached_property over uuid4), and the
   `constraints` property is the dict {c.id: c}: its keys, in insertion
   order, are the model's constraints_of (duplicates collapse) *)
Theorem C07_searchdefbase_init_flows :
  tables_same (writes_table ["constraints_attr"] tk_searchdefbase_init)
              w_searchdefbase_init = true /\
  tk_searchdefbase_id = [SEv (Call "uuid4"); SExit] /\
  searchdef_id_cached = true.
Proof. vm_compute. repeat split. Qed.

Theorem C07_constraints_property_shape :
  tk_searchdefbase_constraints
  = [SEv (Rd "constraint_id"); SEv (Rd "constraints_attr"); SExit].
Proof. vm_compute. reflexivity. Qed.

Theorem C07_constraints_dict_is_constraints_of :
  forall cs : list Z,
    dict_keys (searchdef_constraints_items (fun c => c) cs)
    = constraints_of cs.
Proof.
  exact (constraints_dict_keys (@searchdef_constraints_items Z)
                               (fun _ _ => eq_refl)).
Qed.

(* ---- non-vacuity ---- *)
(* pattern 1 matches every line (group 0 = value 10+i).  d1 carries
   constraint 1, d2 none.  Lines: undated, too old, in window, undated,
   too old again (timestamps out of order). *)
Definition ex7_d1 := mkSdef 1 [1] None true 100 [1].
Definition ex7_d2 := mkSdef 2 [1] None true 200 [].
Definition ex7_lines : list tline :=
  [ mkTline [(1, [11])] [] [];
    mkTline [(1, [12])] [] [(1, Fail)];
    mkTline [(1, [13])] [] [(1, Pass)];
    mkTline [(1, [14])] [] [];
    mkTline [(1, [15])] [] [(1, Fail)] ].

Example C07_example_keys : keys_ok s_key [ex7_d1; ex7_d2].
Proof.
  intros a b Ha Hb. simpl in Ha, Hb.
  destruct Ha as [<-|[<-|[]]]; destruct Hb as [<-|[<-|[]]];
    simpl; intros H; try reflexivity; discriminate.
Qed.

Example C07_example_uniform : uniform tline t_ocon (s_cons ex7_d1) ex7_lines.
Proof. apply uniform_single. Qed.

Example C07_example_run :
  map obs (results_for 1 (collected
     (simple_execute tline t_omatch t_ohint t_ocon 10 10000
                     [ex7_d1; ex7_d2] ex7_lines))) =
    [(3, [(0, 13)]); (4, [(0, 14)]); (5, [(0, 15)])] /\
  spec_constrained tline t_omatch t_ohint t_ocon ex7_d1 ex7_lines =
    [(3, [(0, 13)]); (4, [(0, 14)]); (5, [(0, 15)])] /\
  map obs (results_for 2 (collected
     (simple_execute tline t_omatch t_ohint t_ocon 10 10000
                     [ex7_d1; ex7_d2] ex7_lines))) =
    [(1, [(0, 11)]); (2, [(0, 12)]); (3, [(0, 13)]); (4, [(0, 14)]);
     (5, [(0, 15)])] /\
  active_from tline t_ocon [1] ex7_lines = 2%nat.
Proof. vm_compute. repeat split. Qed.

(* two constraints with different matchers: line 1 passes constraint 1 and
   cannot be decided by constraint 2 -> it IS searched by the code although
   the first line satisfying both constraints is line 2 *)
Definition ex7h_d := mkSdef 1 [1] None true 100 [1; 2].
Definition ex7h_lines : list tline :=
  [ mkTline [(1, [11])] [] [(1, Pass)];
    mkTline [(1, [12])] [] [(1, Pass); (2, Pass)] ].

Example C07_heterogeneous_boundary_example :
  map obs (results_for 1 (collected
     (simple_execute tline t_omatch t_ohint t_ocon 10 10000 [ex7h_d]
                     ex7h_lines))) = [(1, [(0, 11)]); (2, [(0, 12)])] /\
  spec_constrained tline t_omatch t_ohint t_ocon ex7h_d ex7h_lines =
    [(2, [(0, 12)])] /\
  uniform_line tline t_ocon [1; 2]
               (mkTline [(1, [11])] [] [(1, Pass)]) = false.
Proof. vm_compute. repeat split. Qed.

(* restriction: file-level constraint g would skip 3 lines; d2 registered
   with allow_global_constraints=False -> nothing applied *)
Example C07_example_restricted :
  apply_global (fun (_ : unit) (_ : nat) => (Some 99, 3%nat)) [tt]
               (add_restriction [] 2 false) [1; 2] = (0, 0%nat, []) /\
  apply_global (fun (_ : unit) (_ : nat) => (Some 99, 3%nat)) [tt]
               (add_restriction [] 2 true) [1; 2] = (99, 3%nat, [tt]).
Proof. vm_compute. split; reflexivity. Qed.

Print Assumptions C07_own_constraint_exact.
Print Assumptions C07_own_constraint_exact_any_handler.
Print Assumptions C07_code_rule.
Print Assumptions C07_heterogeneous_boundary.
Print Assumptions C07_sticky.
Print Assumptions C07_active_sees_every_line.
Print Assumptions C07_neighbours_unaffected.
Print Assumptions C07_restricted_file_not_seeked.
Print Assumptions C07_own_constraint_exact_current_constants.
Print Assumptions C07_apply_single_is_model.
Print Assumptions C07_constraints_dict_is_constraints_of.
Print Assumptions C07_searchdefbase_init_flows.
