(* C13 - Content alone cannot make a search fail or hang; decode policy
   honoured.

   What is proved here:
   (1) an exception-flow semantics of structured function skeletons
       (Model/Stm.v) with a sound escape analysis (Proofs/Stm.v), composed
       along searchkit's call graph below SearchTask.execute
       (Model/ExnFlow.v) and INSTANTIATED WITH THE FUNCTION BODIES
       REGENERATED FROM THE SOURCE (Gen/SkelTree.v): whatever path the code
       takes, the only exception class that content can make leave
       _run_search / execute is UnicodeDecodeError, and with a lenient decode
       policy none at all;
   (2) every counter-controlled loop of the seek code and of put_result
       performs a bounded number of iterations (loop tests and decrements
       translated from the source, Gen/Exprs.v);
   (3) the outcome specification.
   PARTIAL: real termination can only be observed (hard timeouts in T2);
   file iteration, bisect and regex matching terminating are trusted. *)
From Coq Require Import String ZArith List Bool.
From SK Require Import Model.Skel Model.Stm Model.ExnFlow Proofs.Stm
     Proofs.Termination Spec.C13 Gen.SkelTree Gen.Exprs Gen.Params.
Import ListNotations.
Open Scope string_scope.

Definition B : bodies := {|
  b_extracted_datetime := tk_extracted_datetime;
  b_logline_date := tk_logline_date;
  b_find_token := tk_find_token;
  b_find_token_reverse := tk_find_token_reverse;
  b_try_find_line := tk_try_find_line;
  b_tfld := tk_tfld;
  b_getitem := tk_seeker_getitem;
  b_seeker_run := tk_seeker_run;
  b_apply_to_file := tk_apply_to_file;
  b_apply_global := tk_apply_global;
  b_apply_to_line := tk_apply_to_line;
  b_apply_single := tk_apply_single;
  b_run_search := tk_run_search;
  b_execute := tk_execute |}.

(* the analysis is sound for EVERY skeleton and origin map: an exception
   that some execution lets out of a function body is in the computed set *)
Theorem C13_escape_analysis_sound :
  forall (orig : ev -> list string) (body : list stm) (x : string),
  exec_list orig None body (RRaise x) -> In x (esc_list orig [] body).
Proof. exact escapes_sound. Qed.

(* -- instantiation on the current source -- *)
(* text that looks like a timestamp but is not a date never escapes the
   timestamp extraction (repair D6) *)
Theorem C13_timestamp_extraction_never_raises :
  e_extracted_datetime o_strict B = [].
Proof. vm_compute. reflexivity. Qed.

(* every exception the since-seeker can raise is handled by apply_to_file *)
Theorem C13_file_level_constraint_never_raises :
  e_seeker_run o_strict B <> [] /\ e_apply_to_file o_strict B = [] /\
  e_apply_global o_strict B = [].
Proof. vm_compute. repeat split. discriminate. Qed.

(* per-search constraints: CouldNotApplyConstraint stays inside apply_single *)
Theorem C13_per_search_constraint_never_raises :
  e_apply_to_line o_strict B <> [] /\ e_apply_single o_strict B = [].
Proof. vm_compute. split; [discriminate|reflexivity]. Qed.

(* strict decoding: UnicodeDecodeError is the only class content can make
   leave _run_search and execute (it is re-raised, not wrapped) *)
Theorem C13_strict_only_decode_error :
  subset (e_run_search o_strict B) ["UnicodeDecodeError"] = true /\
  subset (e_execute o_strict B) ["UnicodeDecodeError"] = true /\
  e_execute o_strict B <> [].
Proof. vm_compute. repeat split. discriminate. Qed.

(* lenient decoding: content cannot make execute raise at all *)
Theorem C13_lenient_never_raises :
  e_run_search o_lenient B = [] /\ e_execute o_lenient B = [].
Proof. vm_compute. split; reflexivity. Qed.

(* the semantic reading of the two theorems above *)
Theorem C13_execute_semantics_strict : forall x,
  exec_list (o_ex o_strict B) None tk_execute (RRaise x) ->
  x = "UnicodeDecodeError".
Proof.
  intros x H. apply escapes_sound in H.
  change (In x (e_execute o_strict B)) in H.
  assert (Hs : subset (e_execute o_strict B) ["UnicodeDecodeError"] = true)
    by (vm_compute; reflexivity).
  unfold subset in Hs. rewrite forallb_forall in Hs.
  specialize (Hs x H). cbn in Hs.
  destruct (String.eqb x "UnicodeDecodeError") eqn:E; [|discriminate].
  apply String.eqb_eq. exact E.
Qed.

Theorem C13_execute_semantics_lenient : forall x,
  ~ exec_list (o_ex o_lenient B) None tk_execute (RRaise x).
Proof.
  intros x H. apply escapes_sound in H.
  assert (Hs : e_execute o_lenient B = []) by (vm_compute; reflexivity).
  change (In x (e_execute o_lenient B)) in H. rewrite Hs in H. exact H.
Qed.

(* -- bounded loops (tests and decrements translated from the source) -- *)
Theorem C13_find_token_loop_bounded : forall v0 n,
  (0 <= v0)%Z -> (Z.of_nat n > v0)%Z ->
  counter loop_find_token_continues loop_find_token_next n v0 = None.
Proof.
  apply iterations_bounded. intros v H.
  unfold loop_find_token_continues, loop_find_token_next in *.
  apply Z.ltb_lt in H. split; auto with zarith.
Qed.

Theorem C13_find_token_reverse_loop_bounded : forall v0 n,
  (0 <= v0)%Z -> (Z.of_nat n > v0)%Z ->
  counter loop_find_token_reverse_continues loop_find_token_reverse_next n v0
  = None.
Proof.
  apply iterations_bounded. intros v H.
  unfold loop_find_token_reverse_continues, loop_find_token_reverse_next in *.
  apply negb_true_iff in H. apply Z.leb_gt in H. split; auto with zarith.
Qed.

Theorem C13_date_fallback_loop_bounded : forall v0 n,
  (0 <= v0)%Z -> (Z.of_nat n > v0)%Z ->
  counter loop_tfld_continues loop_tfld_next n v0 = None.
Proof.
  apply iterations_bounded. intros v H.
  unfold loop_tfld_continues, loop_tfld_next in *.
  apply Z.ltb_lt in H. split; auto with zarith.
Qed.

Theorem C13_put_retry_loop_bounded : forall v0 n,
  (0 <= v0)%Z -> (Z.of_nat n > v0)%Z ->
  counter loop_put_result_continues loop_put_result_next n v0 = None.
Proof.
  apply iterations_bounded. intros v H.
  unfold loop_put_result_continues, loop_put_result_next in *.
  apply Z.ltb_lt in H. split; auto with zarith.
Qed.

(* every counter starts from the constant the models use (initialisation
   read off the source: `attempts = <CONST>` before the loop, or the argument
   of `range` when the loop is written `for _ in range(<CONST>)`) *)
Theorem C13_loop_counters_start_from_constants :
  loop_find_token_init tt = MAX_SEEK_HORIZON_EXPAND /\
  loop_find_token_reverse_init tt = MAX_SEEK_HORIZON_EXPAND /\
  loop_tfld_init tt = MAX_TRY_FIND_WITH_DATE_ATTEMPTS /\
  loop_put_result_init tt = MAX_QUEUE_RETRIES.
Proof. vm_compute. repeat split. Qed.

(* the counters start from positive constants *)
Theorem C13_loop_bounds_positive :
  (0 < MAX_SEEK_HORIZON_EXPAND)%Z /\ (0 < MAX_TRY_FIND_WITH_DATE_ATTEMPTS)%Z
  /\ (0 < MAX_QUEUE_RETRIES)%Z /\ (0 < SEEK_HORIZON)%Z.
Proof. vm_compute. repeat split. Qed.

(* -- the outcome specification and its two readings -- *)
Theorem C13_outcome_decode_iff :
  forall (L R : Type) strict (valid : L -> bool) (reading : list L -> R)
         searched,
  spec_outcome strict valid reading searched = RaisesDecode <->
  strict = true /\ exists l, In l searched /\ valid l = false.
Proof.
  intros L R strict valid reading searched. unfold spec_outcome.
  destruct strict; cbn [andb].
  - destruct (forallb valid searched) eqn:E; cbn [negb].
    + split; [discriminate|]. intros [_ [l [Hin Hv]]].
      rewrite forallb_forall in E. rewrite (E l Hin) in Hv. discriminate.
    + split; [|reflexivity]. intros _. split; [reflexivity|].
      assert (H : exists l, In l searched /\ valid l = false).
      { clear -E. induction searched as [|a r IH]; [discriminate|].
        cbn in E. destruct (valid a) eqn:Ea.
        - destruct (IH E) as [l [Hin Hv]]. exists l. split; [right|]; assumption.
        - exists a. split; [left; reflexivity|assumption]. }
      exact H.
  - split; [discriminate|]. intros [H _]. discriminate.
Qed.

(* non-vacuity: an execution of the generated execute skeleton that does
   raise UnicodeDecodeError exists *)
Example C13_example_can_raise_decode :
  In "UnicodeDecodeError" (e_execute o_strict B) /\
  spec_outcome true (fun b : bool => b) (@length bool) [true; false]
  = RaisesDecode /\
  spec_outcome false (fun b : bool => b) (@length bool) [true; false]
  = Returns 2%nat.
Proof. vm_compute. repeat split. left. reflexivity. Qed.

Print Assumptions C13_escape_analysis_sound.
Print Assumptions C13_execute_semantics_strict.
Print Assumptions C13_execute_semantics_lenient.
Print Assumptions C13_find_token_loop_bounded.
Print Assumptions C13_outcome_decode_iff.

Print Assumptions C13_loop_counters_start_from_constants.
