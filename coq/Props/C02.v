(* C02 - Parallel search equals per-file sequential search: no loss,
   duplication or misfiling; run() returns only after everything produced has
   been collected.

   Model: Model/Pipeline.v (N worker tasks, bounded FIFO, collector thread,
   manager, final purge; a schedule is an arbitrary [list action], disabled
   actions stutter).  Spec: Spec/Pipeline.v.  All statements below quantify
   over every number of tasks, every per-task batch list [P], every capacity
   [Q] and EVERY schedule.  Constants and skeletons come from Gen/*, i.e.
   from the repository's current source. *)
From Coq Require Import String ZArith List Bool Arith.
From SK Require Import Model.Base Model.Skel Model.Pipeline Spec.Pipeline
     Proofs.Pipeline Proofs.PipelineSkel Proofs.PipelineEx
     Gen.Params Gen.Skeleton.
Import ListNotations.
Open Scope string_scope.
Open Scope list_scope.
Open Scope Z_scope.

(* (a) the invariant: for each task t, what was delivered under path t, then
   t's results still in the queue (in FIFO order), then what t has still to
   put, is exactly t's result list; and everything filed under t came from t.
   [full] *)
Theorem C02_invariant : forall P Q sched t,
  drop_free sched = true ->
  let s := run Q sched (init P) in
  find_by_path t (collected s) ++ filt t (concat (queue s))
    ++ concat (todo_of s t) = results P t
  /\ Forall (fun r => src r = t) (find_by_path t (collected s)).
Proof. exact pipeline_invariant. Qed.

(* results are filed under their own source on every run, give-ups or not
   [full] *)
Theorem C02_never_misfiled : forall P Q sched,
  well_filed (collected (run Q sched (init P))).
Proof.
  intros P Q sched. apply run_well_filed. exact well_filed_nil.
Qed.

(* (b) THE property: a run that returns (no give-up) has, under every path,
   exactly the list the sequential search of that file returns.  [full] *)
Theorem C02_parallel_equals_sequential : forall P Q sched,
  drop_free sched = true ->
  ph (run Q sched (init P)) = Returned ->
  same_as_sequential P (collected (run Q sched (init P))).
Proof. exact parallel_equals_sequential. Qed.

(* what the sequential search of file t returns: its results under its own
   path, nothing elsewhere *)
Theorem C02_sequential_is_results : forall P t,
  find_by_path t (sequential P t) = results P t /\
  forall p, p <> t -> find_by_path p (sequential P t) = [].
Proof.
  intros P t. split; [exact (sequential_spec P t)|].
  intros p. exact (sequential_other P t p).
Qed.

(* the same, starting from each file's flat result list [R] and letting the
   task cut it at the flush threshold NBUF and the transfer size MAX: the
   outcome does not depend on either threshold.  [full] *)
Theorem C02_parallel_equals_sequential_any_thresholds :
  forall MAX NBUF R Q sched t,
  (1 <= MAX)%nat -> (1 <= NBUF)%nat ->
  drop_free sched = true ->
  ph (run Q sched (init_flat MAX NBUF R)) = Returned ->
  find_by_path t (collected (run Q sched (init_flat MAX NBUF R)))
  = map (pair t) (nth t R []).
Proof.
  intros MAX NBUF R Q sched t HM HN Hd Hr. unfold init_flat in *.
  rewrite (parallel_equals_sequential _ Q sched Hd Hr t), sequential_spec.
  exact (results_flat MAX NBUF R t HM HN).
Qed.

Theorem C02_batching_preserves_results : forall MAX NBUF (rs : list Z),
  (1 <= MAX)%nat -> (1 <= NBUF)%nat ->
  concat (task_batches MAX NBUF rs) = rs /\
  Forall (fun b => (1 <= length b <= MAX)%nat) (task_batches MAX NBUF rs).
Proof.
  intros MAX NBUF rs HM HN. split.
  - exact (concat_task_batches MAX NBUF rs HM HN).
  - exact (task_batches_bounds MAX NBUF rs HM).
Qed.

(* (c) no early return, with or without give-ups: whenever Return is enabled
   every task has finished and put everything, the queue is empty, nothing
   was lost and |collected| = expected = all results.  [full] *)
Theorem C02_no_early_return : forall P Q sched s',
  let s := run Q sched (init P) in
  step Q s Return = Some s' ->
  all_finished s = true /\ (forall t, todo_of s t = []) /\ queue s = [] /\
  lost s = 0 /\ coll_len (collected s) = expected s /\
  expected s = total_results P.
Proof. exact return_only_when_complete. Qed.

Theorem C02_returned_means_complete : forall P Q sched,
  let s := run Q sched (init P) in
  ph s = Returned ->
  all_finished s = true /\ queue s = [] /\ lost s = 0 /\
  coll_len (collected s) = total_results P /\
  expected s = total_results P.
Proof. exact returned_complete. Qed.

(* a give-up of a non-empty batch makes [lost] positive ... *)
Theorem C02_drop_loses : forall Q s t s',
  step Q s (Drop t) = Some s' ->
  lost s' = lost s + lenZ (hd [] (todo_of s t)) /\ todo_of s t <> [].
Proof. exact drop_loses. Qed.

(* ... and from then on the run never returns, whatever happens next: the
   code hangs in the purge loop rather than returning partial results.
   LIVENESS CAVEAT: after MAX_QUEUE_RETRIES failed puts run() does not
   terminate.  [full] *)
Theorem C02_never_returns_after_loss : forall P Q sched1 sched2,
  0 < lost (run Q sched1 (init P)) ->
  ph (run Q (sched1 ++ sched2) (init P)) <> Returned.
Proof. exact never_returns_after_loss. Qed.

(* (d) no deadlock without give-ups: from every reachable state that has not
   returned, some action other than Drop/Tick is enabled.  [full] *)
Theorem C02_progress : forall P Q sched,
  1 <= Q -> drop_free sched = true ->
  let s := run Q sched (init P) in
  ph s <> Returned ->
  exists a s', is_drop a = false /\ step Q s a = Some s'.
Proof. exact progress. Qed.

(* (e) termination: every enabled action strictly decreases [measure] >= 0,
   so a schedule has at most [measure (init P)] non-stutter steps, and every
   fair infinite schedule returns.  Fairness is a hypothesis about the OS
   scheduler ([fair], Spec/Pipeline.v); (d) shows it is satisfiable as long
   as no batch is given up.  [full, relative to the fairness hypothesis] *)
Theorem C02_step_decreases : forall Q s a s',
  step Q s a = Some s' -> measure s' + 1 <= measure s /\ 0 <= measure s'.
Proof.
  intros Q s a s' H. split; [exact (step_decreases Q s a s' H)|].
  exact (measure_nonneg s').
Qed.

Theorem C02_effective_steps_bounded : forall Q sched s,
  effective Q sched s <= measure s.
Proof. exact effective_bounded. Qed.

Theorem C02_fair_schedule_returns : forall Q sigma s0,
  fair Q sigma s0 -> exists n, ph (run_n Q sigma n s0) = Returned.
Proof. exact fair_returns. Qed.

(* ------------------------------------------------------------------------
   Instantiation with the constants of the source (Gen/Params.v) *)
Theorem C02_source_constants_ok :
  1 <= RESULTS_QUEUE_SIZE /\ 1 <= TRANSIT_MAX /\ 1 <= NUM_BUFFERED_RESULTS /\
  1 <= MAX_QUEUE_RETRIES /\ NUM_BUFFERED_RESULTS <= RESULTS_QUEUE_SIZE.
Proof. vm_compute. repeat split; discriminate. Qed.

Theorem C02_progress_at_source_capacity : forall P sched,
  drop_free sched = true ->
  let s := run RESULTS_QUEUE_SIZE sched (init P) in
  ph s <> Returned ->
  exists a s', is_drop a = false /\ step RESULTS_QUEUE_SIZE s a = Some s'.
Proof.
  intros P sched. apply progress. vm_compute. discriminate.
Qed.

Theorem C02_source_thresholds : forall R sched t,
  let s := run RESULTS_QUEUE_SIZE sched
               (init_flat (Z.to_nat TRANSIT_MAX)
                          (Z.to_nat NUM_BUFFERED_RESULTS) R) in
  drop_free sched = true -> ph s = Returned ->
  find_by_path t (collected s) = map (pair t) (nth t R []).
Proof.
  intros R sched t s Hd Hr.
  apply C02_parallel_equals_sequential_any_thresholds; auto.
  - vm_compute. apply Nat.leb_le. reflexivity.
  - apply Nat.leb_le. vm_compute. reflexivity.
Qed.

(* ------------------------------------------------------------------------
   Instantiation with the skeletons extracted from the source
   (Gen/Skeleton.v) *)

(* collector thread: every q_get is immediately followed by coll_add, both
   while RESULTS_COLLECTION_LOCK is held *)
Theorem C02_collector_get_add_locked :
  get_then_add sk_get_results = true /\
  all_under "collection" is_get_or_add [] sk_get_results = true.
Proof. vm_compute. split; reflexivity. Qed.

(* purge: the same, and the whole loop body is ONE critical section *)
Theorem C02_purge_get_add_locked :
  get_then_add sk_purge_results = true /\
  one_section "collection" is_get_or_add sk_purge_results = true.
Proof. vm_compute. split; reflexivity. Qed.

(* what these booleans mean *)
Theorem C02_get_add_meaning : forall sk,
  get_then_add sk = true ->
  forall pre post, sk = (pre ++ Call "q_get" :: post)%list ->
  exists post', post = Call "coll_add" :: post'.
Proof. exact get_then_add_sound. Qed.

Theorem C02_locked_meaning : forall l p pre held sk f post,
  all_under l p held sk = true ->
  sk = (pre ++ Call f :: post)%list -> p (Call f) = true ->
  In l (held_after held pre).
Proof. exact all_under_sound. Qed.

(* the purge loop is left by exactly one Break, in the else-branch of the
   `expected > len(results)` test, itself in the else-branch of the q_empty
   test (i.e. only after seeing the queue empty AND comparing the count) *)
Theorem C02_purge_exit_guarded :
  only_break_in purge_break_ctx sk_purge_results = true.
Proof. vm_compute. reflexivity. Qed.

Theorem C02_purge_exit_meaning : forall pre post,
  sk_purge_results = (pre ++ Break :: post)%list ->
  ctx_after pre = purge_break_ctx /\ ~ In Break pre /\ ~ In Break post.
Proof.
  exact (only_break_in_sound purge_break_ctx sk_purge_results
                             C02_purge_exit_guarded).
Qed.

(* (no condition is imposed on how the collector thread leaves its loop: the
   model lets StartPurge happen with a non-empty queue and the purge drains
   whatever is left) *)

(* _run_mp: submit* ; start collector ; as_completed ; merge future results ;
   stop collector ; ONE purge ; nothing merged or submitted afterwards *)
Theorem C02_run_mp_ordered : run_mp_ordered sk_run_mp = true.
Proof. vm_compute. reflexivity. Qed.

Theorem C02_run_mp_order_meaning : forall sk,
  run_mp_ordered sk = true ->
  exists a b c d,
    sk = (((a ++ Call "as_completed" :: b) ++ Call "results_stop" :: c)
           ++ Call "purge" :: d)%list
    /\ In (Call "submit") a /\ In (Call "results_start") a
    /\ In (Call "future_result") b
    /\ ~ In (Call "as_completed") a
    /\ ~ In (Call "results_stop") (a ++ Call "as_completed" :: b)
    /\ ~ In (Call "purge") ((a ++ Call "as_completed" :: b)
                              ++ Call "results_stop" :: c)
    /\ ~ In (Call "purge") d /\ ~ In (Call "future_result") d
    /\ ~ In (Call "submit") d.
Proof. exact run_mp_ordered_sound. Qed.

(* put_result counts the batch exactly once, before (outside) the retry loop *)
Theorem C02_put_result_counts_once : counted_once sk_put_result = true.
Proof. vm_compute. reflexivity. Qed.

(* ------------------------------------------------------------------------
   Non-vacuity *)

(* a 2-file run with capacity 1 (two Puts meet a full queue) that returns;
   the collection is the sequential one *)
Example C02_example_q1 :
  drop_free ex_sched_q1 = true /\
  ph (run 1 ex_sched_q1 (init exP)) = Returned /\
  find_by_path 0 (collected (run 1 ex_sched_q1 (init exP)))
    = [(0%nat, 1); (0%nat, 2); (0%nat, 3)] /\
  find_by_path 1 (collected (run 1 ex_sched_q1 (init exP)))
    = [(1%nat, 10); (1%nat, 11); (1%nat, 12)] /\
  effective 1 ex_sched_q1 (init exP) = 12 /\ measure (init exP) = 12.
Proof. vm_compute. repeat split; reflexivity. Qed.

(* capacity 2, the purge takes the last two batches; Return is refused while
   a batch is still queued *)
Example C02_example_q2 :
  ph (run 2 ex_sched_q2 (init exP)) = Returned /\
  step 2 (run 2 (firstn 10 ex_sched_q2) (init exP)) Return = None /\
  queue (run 2 (firstn 10 ex_sched_q2) (init exP)) = [[(0%nat, 3)]] /\
  same_as_sequential exP (collected (run 2 ex_sched_q2 (init exP))).
Proof.
  split; [vm_compute; reflexivity|].
  split; [vm_compute; reflexivity|].
  split; [vm_compute; reflexivity|].
  apply parallel_equals_sequential; vm_compute; reflexivity.
Qed.

(* a give-up: one result lost, Return stays disabled although every task
   finished and the queue is empty *)
Example C02_example_drop :
  let s := run 2 ex_sched_drop (init exP) in
  lost s = 1 /\ ph s = Purging /\ queue s = [] /\ all_finished s = true /\
  expected s = 6 /\ coll_len (collected s) = 5 /\ step 2 s Return = None.
Proof. vm_compute. repeat split; reflexivity. Qed.

(* the fairness hypothesis is satisfiable *)
Example C02_example_fair :
  fair 2 ex_sigma (init exP) /\
  exists n, ph (run_n 2 ex_sigma n (init exP)) = Returned.
Proof.
  split; [exact ex_sigma_fair|]. exact (fair_returns 2 ex_sigma (init exP)
                                                     ex_sigma_fair).
Qed.

Print Assumptions C02_invariant.
Print Assumptions C02_never_misfiled.
Print Assumptions C02_parallel_equals_sequential.
Print Assumptions C02_parallel_equals_sequential_any_thresholds.
Print Assumptions C02_no_early_return.
Print Assumptions C02_never_returns_after_loss.
Print Assumptions C02_progress.
Print Assumptions C02_fair_schedule_returns.
Print Assumptions C02_source_thresholds.
Print Assumptions C02_purge_exit_meaning.
Print Assumptions C02_run_mp_order_meaning.
