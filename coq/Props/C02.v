(* C02 - Parallel search equals per-file sequential search: no loss,
   duplication or misfiling; run() returns only after everything produced has
   been collected.

   Model: Model/Pipeline.v (N worker tasks, bounded FIFO, collector thread,
   manager, final purge; a schedule is an arbitrary [list action], disabled
   actions stutter).  Spec: Spec/Pipeline.v.  All statements below quantify
   over every number of tasks, every per-task batch list [P], every capacity
   [Q] and EVERY schedule.  Constants and skeletons come from Gen/*, i.e.
   from the repository's current source. *)
From Coq Require Import String ZArith List Bool Arith.
From SK Require Import Model.Base Model.Skel Model.Stm Model.Pipeline
     Model.PipelineSk Model.SequenceSk Model.CallCount Spec.Pipeline
     Proofs.Pipeline Proofs.PipelineSkel Proofs.PipelineEx Proofs.PipelineSk
     Proofs.CallCount
     Gen.Params Gen.Skeleton Gen.SkelTree Gen.XPipeline.
Import ListNotations.
Open Scope string_scope.
Open Scope list_scope.
Open Scope Z_scope.

(* (a) the invariant: for each task t, what was delivered under path t, then
   t's results still in the queue (in FIFO order), then what t has still to
   put, is exactly t's result list; and everything filed under t came from t.
   [full] *)
Theorem C02_invariant : forall P Q sched t,
  drop_free sched = true ->
  let s := run Q sched (init P) in
  find_by_path t (collected s) ++ filt t (concat (queue s))
    ++ concat (todo_of s t) = results P t
  /\ Forall (fun r => src r = t) (find_by_path t (collected s)).
Proof. exact pipeline_invariant. Qed.

(* results are filed under their own source on every run, give-ups or not
   [full] *)
Theorem C02_never_misfiled : forall P Q sched,
  well_filed (collected (run Q sched (init P))).
Proof.
  intros P Q sched. apply run_well_filed. exact well_filed_nil.
Qed.

(* (b) THE property: a run that returns (no give-up) has, under every path,
   exactly the list the sequential search of that file returns.  [full] *)
Theorem C02_parallel_equals_sequential : forall P Q sched,
  drop_free sched = true ->
  ph (run Q sched (init P)) = Returned ->
  same_as_sequential P (collected (run Q sched (init P))).
Proof. exact parallel_equals_sequential. Qed.

(* what the sequential search of file t returns: its results under its own
   path, nothing elsewhere *)
Theorem C02_sequential_is_results : forall P t,
  find_by_path t (sequential P t) = results P t /\
  forall p, p <> t -> find_by_path p (sequential P t) = [].
Proof.
  intros P t. split; [exact (sequential_spec P t)|].
  intros p. exact (sequential_other P t p).
Qed.

(* the same, starting from each file's flat result list [R] and letting the
   task cut it at the flush threshold NBUF and the transfer size MAX: the
   outcome does not depend on either threshold.  [full] *)
Theorem C02_parallel_equals_sequential_any_thresholds :
  forall MAX NBUF R Q sched t,
  (1 <= MAX)%nat -> (1 <= NBUF)%nat ->
  drop_free sched = true ->
  ph (run Q sched (init_flat MAX NBUF R)) = Returned ->
  find_by_path t (collected (run Q sched (init_flat MAX NBUF R)))
  = map (pair t) (nth t R []).
Proof.
  intros MAX NBUF R Q sched t HM HN Hd Hr. unfold init_flat in *.
  rewrite (parallel_equals_sequential _ Q sched Hd Hr t), sequential_spec.
  exact (results_flat MAX NBUF R t HM HN).
Qed.

Theorem C02_batching_preserves_results : forall MAX NBUF (rs : list Z),
  (1 <= MAX)%nat -> (1 <= NBUF)%nat ->
  concat (task_batches MAX NBUF rs) = rs /\
  Forall (fun b => (1 <= length b <= MAX)%nat) (task_batches MAX NBUF rs).
Proof.
  intros MAX NBUF rs HM HN. split.
  - exact (concat_task_batches MAX NBUF rs HM HN).
  - exact (task_batches_bounds MAX NBUF rs HM).
Qed.

(* (c) no early return, with or without give-ups: whenever Return is enabled
   every task has finished and put everything, the queue is empty, nothing
   was lost and |collected| = expected = all results.  [full] *)
Theorem C02_no_early_return : forall P Q sched s',
  let s := run Q sched (init P) in
  step Q s Return = Some s' ->
  all_finished s = true /\ (forall t, todo_of s t = []) /\ queue s = [] /\
  lost s = 0 /\ coll_len (collected s) = expected s /\
  expected s = total_results P.
Proof. exact return_only_when_complete. Qed.

Theorem C02_returned_means_complete : forall P Q sched,
  let s := run Q sched (init P) in
  ph s = Returned ->
  all_finished s = true /\ queue s = [] /\ lost s = 0 /\
  coll_len (collected s) = total_results P /\
  expected s = total_results P.
Proof. exact returned_complete. Qed.

(* a give-up of a non-empty batch makes [lost] positive ... *)
Theorem C02_drop_loses : forall Q s t s',
  step Q s (Drop t) = Some s' ->
  lost s' = lost s + lenZ (hd [] (todo_of s t)) /\ todo_of s t <> [].
Proof. exact drop_loses. Qed.

(* ... and from then on the run never returns, whatever happens next: the
   code hangs in the purge loop rather than returning partial results.
   LIVENESS CAVEAT: after MAX_QUEUE_RETRIES failed puts run() does not
   terminate.  [full] *)
Theorem C02_never_returns_after_loss : forall P Q sched1 sched2,
  0 < lost (run Q sched1 (init P)) ->
  ph (run Q (sched1 ++ sched2) (init P)) <> Returned.
Proof. exact never_returns_after_loss. Qed.

(* (d) no deadlock without give-ups: from every reachable state that has not
   returned, some action other than Drop/Tick is enabled.  [full] *)
Theorem C02_progress : forall P Q sched,
  1 <= Q -> drop_free sched = true ->
  let s := run Q sched (init P) in
  ph s <> Returned ->
  exists a s', is_drop a = false /\ step Q s a = Some s'.
Proof. exact progress. Qed.

(* (e) termination: every enabled action strictly decreases [measure] >= 0,
   so a schedule has at most [measure (init P)] non-stutter steps, and every
   fair infinite schedule returns.  Fairness is a hypothesis about the OS
   scheduler ([fair], Spec/Pipeline.v); (d) shows it is satisfiable as long
   as no batch is given up.  [full, relative to the fairness hypothesis] *)
Theorem C02_step_decreases : forall Q s a s',
  step Q s a = Some s' -> measure s' + 1 <= measure s /\ 0 <= measure s'.
Proof.
  intros Q s a s' H. split; [exact (step_decreases Q s a s' H)|].
  exact (measure_nonneg s').
Qed.

Theorem C02_effective_steps_bounded : forall Q sched s,
  effective Q sched s <= measure s.
Proof. exact effective_bounded. Qed.

Theorem C02_fair_schedule_returns : forall Q sigma s0,
  fair Q sigma s0 -> exists n, ph (run_n Q sigma n s0) = Returned.
Proof. exact fair_returns. Qed.

(* ------------------------------------------------------------------------
   Instantiation with the constants of the source (Gen/Params.v) *)
Theorem C02_source_constants_ok :
  1 <= RESULTS_QUEUE_SIZE /\ 1 <= TRANSIT_MAX /\ 1 <= NUM_BUFFERED_RESULTS /\
  1 <= MAX_QUEUE_RETRIES /\ NUM_BUFFERED_RESULTS <= RESULTS_QUEUE_SIZE.
Proof. vm_compute. repeat split; discriminate. Qed.

Theorem C02_progress_at_source_capacity : forall P sched,
  drop_free sched = true ->
  let s := run RESULTS_QUEUE_SIZE sched (init P) in
  ph s <> Returned ->
  exists a s', is_drop a = false /\ step RESULTS_QUEUE_SIZE s a = Some s'.
Proof.
  intros P sched. apply progress. vm_compute. discriminate.
Qed.

Theorem C02_source_thresholds : forall R sched t,
  let s := run RESULTS_QUEUE_SIZE sched
               (init_flat (Z.to_nat TRANSIT_MAX)
                          (Z.to_nat NUM_BUFFERED_RESULTS) R) in
  drop_free sched = true -> ph s = Returned ->
  find_by_path t (collected s) = map (pair t) (nth t R []).
Proof.
  intros R sched t s Hd Hr.
  apply C02_parallel_equals_sequential_any_thresholds; auto.
  - vm_compute. apply Nat.leb_le. reflexivity.
  - apply Nat.leb_le. vm_compute. reflexivity.
Qed.

(* ------------------------------------------------------------------------
   Instantiation with the skeletons extracted from the source
   (Gen/Skeleton.v) *)

(* collector thread: every q_get is immediately followed by coll_add, both
   while RESULTS_COLLECTION_LOCK is held *)
Theorem C02_collector_get_add_locked :
  get_then_add sk_get_results = true /\
  all_under "collection" is_get_or_add [] sk_get_results = true.
Proof. vm_compute. split; reflexivity. Qed.

(* purge: the same, and the whole loop body is ONE critical section *)
Theorem C02_purge_get_add_locked :
  get_then_add sk_purge_results = true /\
  one_section "collection" is_get_or_add sk_purge_results = true.
Proof. vm_compute. split; reflexivity. Qed.

(* what these booleans mean *)
Theorem C02_get_add_meaning : forall sk,
  get_then_add sk = true ->
  forall pre post, sk = (pre ++ Call "q_get" :: post)%list ->
  exists post', post = Call "coll_add" :: post'.
Proof. exact get_then_add_sound. Qed.

Theorem C02_locked_meaning : forall l p pre held sk f post,
  all_under l p held sk = true ->
  sk = (pre ++ Call f :: post)%list -> p (Call f) = true ->
  In l (held_after held pre).
Proof. exact all_under_sound. Qed.

(* the purge loop is left by exactly one Break, in the else-branch of the
   `expected > len(results)` test, itself in the else-branch of the q_empty
   test (i.e. only after seeing the queue empty AND comparing the count) *)
Theorem C02_purge_exit_guarded :
  only_break_in purge_break_ctx sk_purge_results = true.
Proof. vm_compute. reflexivity. Qed.

Theorem C02_purge_exit_meaning : forall pre post,
  sk_purge_results = (pre ++ Break :: post)%list ->
  ctx_after pre = purge_break_ctx /\ ~ In Break pre /\ ~ In Break post.
Proof.
  exact (only_break_in_sound purge_break_ctx sk_purge_results
                             C02_purge_exit_guarded).
Qed.

(* (no condition is imposed on how the collector thread leaves its loop: the
   model lets StartPurge happen with a non-empty queue and the purge drains
   whatever is left) *)

(* _run_mp: submit* ; start collector ; as_completed ; merge future results ;
   stop collector ; ONE purge ; nothing merged or submitted afterwards *)
Theorem C02_run_mp_ordered : run_mp_ordered sk_run_mp = true.
Proof. vm_compute. reflexivity. Qed.

Theorem C02_run_mp_order_meaning : forall sk,
  run_mp_ordered sk = true ->
  exists a b c d,
    sk = (((a ++ Call "as_completed" :: b) ++ Call "results_stop" :: c)
           ++ Call "purge" :: d)%list
    /\ In (Call "submit") a /\ In (Call "results_start") a
    /\ In (Call "future_result") b
    /\ ~ In (Call "as_completed") a
    /\ ~ In (Call "results_stop") (a ++ Call "as_completed" :: b)
    /\ ~ In (Call "purge") ((a ++ Call "as_completed" :: b)
                              ++ Call "results_stop" :: c)
    /\ ~ In (Call "purge") d /\ ~ In (Call "future_result") d
    /\ ~ In (Call "submit") d.
Proof. exact run_mp_ordered_sound. Qed.

(* put_result counts the batch exactly once, before (outside) the retry loop *)
Theorem C02_put_result_counts_once : counted_once sk_put_result = true.
Proof. vm_compute. reflexivity. Qed.

(* ------------------------------------------------------------------------
   T1, tree skeletons (Gen/SkelTree.v) and source expressions
   (Gen/XPipeline.v, translator/plugins/pipeline.py)

   (a) calls, locks and if / loop / try structure of the extracted trees
   (reads and writes erased) are the annotated shapes of
   Model/PipelineSk.v *)
Theorem C02_get_results_shape :
  calls_only_list tk_get_results = expected_get_results.
Proof. vm_compute. reflexivity. Qed.

Theorem C02_purge_results_shape :
  calls_only_list tk_purge_results = expected_purge_results.
Proof. vm_compute. reflexivity. Qed.

Theorem C02_put_result_shape :
  calls_only_list tk_put_result = expected_put_result.
Proof. vm_compute. reflexivity. Qed.

Theorem C02_flush_results_buffer_shape :
  calls_only_list tk_flush_results_buffer = expected_flush_results_buffer.
Proof. vm_compute. reflexivity. Qed.

Theorem C02_run_mp_shape :
  calls_only_list tk_run_mp = expected_run_mp.
Proof. vm_compute. reflexivity. Qed.

(* what the interpreters run: the loop bodies of the two consumers and the
   whole of put_result, with the reads of expected / collection /
   stats_results kept *)
Theorem C02_purge_body_core :
  first_loop (core_list tk_purge_results) = Some purge_body_core.
Proof. vm_compute. reflexivity. Qed.

Theorem C02_collector_body_core :
  first_loop (core_list tk_get_results) = Some collector_body_core.
Proof. vm_compute. reflexivity. Qed.

Theorem C02_put_result_core :
  core_list tk_put_result = put_result_core.
Proof. vm_compute. reflexivity. Qed.

(* the source's tests and counter updates are the model's guards *)
Theorem C02_source_tests :
  (forall e, purge_take_test e = negb e) /\
  (forall e l, purge_wait_test e l = (l <? e)) /\
  (forall e, collector_take_test e = negb e) /\
  (forall e, collector_stop_test e = e) /\
  (forall x, run_mp_purge_expected x = x).
Proof. repeat split; intros; reflexivity. Qed.

(* ... in particular the purge loop is left exactly when the model's Return
   guard holds: not (expected > len(results))  <->  expected <= |collected| *)
Theorem C02_purge_wait_is_return_guard : forall e l,
  negb (purge_wait_test e l) = (e <=? l).
Proof.
  intros e l. unfold purge_wait_test. rewrite Z.ltb_antisym.
  apply negb_involutive.
Qed.

Definition source_put_params : put_params :=
  mkPP put_count_update put_direct_test put_tries_init put_loop_test
       put_first_try_test put_on_full put_gave_up_test.

Theorem C02_source_put_params_ok : put_params_ok source_put_params.
Proof. constructor; intros; reflexivity. Qed.

(* (b) ONE ITERATION OF THE PURGE LOOP of the extracted tree - q_empty, q_get,
   coll_add bound to the model's queue and collection, the two tests being
   the source's own expressions - IS the model: PurgeStep when a batch is
   queued; otherwise Return (loop left, run() returns) exactly when Return
   is enabled; otherwise a Tick (the get timed out).  The lock is held
   around get+add and released on every path, and no batch taken from the
   queue is left unadded (else the interpretation is None). *)
Theorem C02_purge_iteration_is_model : forall Q s,
  ph s = Purging ->
  run_purge_iter purge_take_test purge_wait_test tk_purge_results s
  = Some (model_purge_iter Q s).
Proof.
  intros Q s. apply purge_iter_sound.
  - exact C02_purge_body_core.
  - intros; reflexivity.
  - intros; reflexivity.
Qed.

(* one iteration of the collector thread's loop IS the model: Collect when a
   batch is queued; otherwise the thread ends iff its stop was requested *)
Theorem C02_collector_iteration_is_model : forall Q stop s,
  ph s = Collecting ->
  run_collector_iter collector_take_test collector_stop_test stop
                     tk_get_results s
  = Some (model_collector_iter Q stop s).
Proof.
  intros Q stop s. apply collector_iter_sound.
  - exact C02_collector_body_core.
  - intros; reflexivity.
  - intros; reflexivity.
Qed.

(* put_result on the head batch of task t (then the pop of
   _flush_results_buffer), worker mode: the count comes first; if the queue
   has room the first attempt (put_nowait) succeeds and the result IS
   Put t ... *)
Theorem C02_put_result_is_Put : forall Q maxr t s tk b rest,
  nth_error (tasks s) t = Some tk -> todo tk = b :: rest ->
  1 <= maxr -> lenZ (queue s) < Q ->
  exists s', step Q s (Put t) = Some s' /\
  run_put source_put_params Q maxr false tk_put_result t s
  = Some (mkPR s' true 1 0 maxr).
Proof.
  intros Q maxr t s tk b rest.
  exact (put_fits_sound source_put_params Q maxr tk_put_result t s tk b rest
                        C02_source_put_params_ok C02_put_result_core).
Qed.

(* ... if the queue stays full, exactly one put_nowait and maxr - 1 blocking
   puts are attempted, the retry counter reaches 0 and the result IS Drop t
   (the batch is counted in sent(t) but lost) *)
Theorem C02_put_result_is_Drop : forall Q maxr t s tk b rest,
  nth_error (tasks s) t = Some tk -> todo tk = b :: rest ->
  1 <= maxr -> Q <= lenZ (queue s) ->
  exists s', step Q s (Drop t) = Some s' /\
  run_put source_put_params Q maxr false tk_put_result t s
  = Some (mkPR s' false 1 (maxr - 1) 0).
Proof.
  intros Q maxr t s tk b rest.
  exact (put_full_sound source_put_params Q maxr tk_put_result t s tk b rest
                        C02_source_put_params_ok C02_put_result_core).
Qed.

Theorem C02_give_up_is_logged : put_gave_up_test 0 = true /\
  1 <= MAX_QUEUE_RETRIES.
Proof. vm_compute. split; [reflexivity|discriminate]. Qed.

(* single-process mode (one file): the batch is counted and added to the
   collection directly - the sequential search of Spec/Pipeline.v *)
Theorem C02_put_result_direct : forall Q maxr t s tk b rest,
  nth_error (tasks s) t = Some tk -> todo tk = b :: rest ->
  run_put source_put_params Q maxr true tk_put_result t s
  = Some (mkPR (mkState (set_nth t (mkTask rest (sent tk + lenZ b)
                                           (finished tk)) (tasks s))
                        (queue s) (add_batch b (collected s)) (expected s)
                        (ph s) (lost s))
               true 0 0 maxr).
Proof.
  intros Q maxr t s tk b rest.
  exact (put_direct_sound source_put_params Q maxr tk_put_result t s tk b
                          rest C02_source_put_params_ok C02_put_result_core).
Qed.

(* ------------------------------------------------------------------------
   The task a worker runs is a function of ITS file only.  The model's task t
   is given by P[t] alone; in the code the SearchTask (with the definition
   objects) is pickled in whatever state the parent left them, so this needs:
   _run_search resets the sequence definitions itself, before reading the
   first line *)
Theorem C02_worker_search_resets_definitions :
  search_resets_defs_first sk_run_search = true.
Proof. vm_compute. reflexivity. Qed.

Theorem C02_worker_search_resets_meaning : forall sk,
  search_resets_defs_first sk = true ->
  exists pre post,
    sk = (pre ++ Call "enumerate_lines" :: post)%list /\
    In (Call "seq_reset") pre /\ ~ In (Call "sequence_search") pre /\
    ~ In (Call "simple_search") pre /\ ~ In (Call "enumerate_lines") pre.
Proof. exact search_resets_defs_first_sound. Qed.

(* ------------------------------------------------------------------------
   ThreadManager (collector / info threads) and SearchTaskResultsManager *)

(* the three methods, interpreted on the extracted trees with the source's
   own constants and test, ARE the model: __init__ leaves a cleared event and
   an unstarted thread, start() starts it once, stop() of a running manager
   sets the event and THEN joins (a join before the set would never return),
   stop() of a stopped one does nothing *)
Theorem C02_thread_manager_init : forall st,
  run_tm tm_init_running [] tk_tm_init st
  = Some (mkTM false false true false (tm_sets st) (tm_joins st) []).
Proof. intros [r e c a s j rd]. reflexivity. Qed.

Theorem C02_thread_manager_start : forall st,
  run_tm tm_start_running [] tk_tm_start st = tm_model_start st.
Proof. intros [r e c a s j rd]. destruct c, a; reflexivity. Qed.

(* proved by evaluating the interpreter on the extracted tree, for every
   state: the statement does not depend on how stop() lays out its test
   (`if running: ..` or `if not running: return`) *)
Theorem C02_thread_manager_stop : forall st,
  run_tm tm_stop_running (tm_stop_guards tm_stop_test) tk_tm_stop st
  = tm_model_stop st.
Proof. intros [r e c a s j rd]. destruct r, a; reflexivity. Qed.

(* _run_mp calls results_thread.stop() before the purge and again in its
   `finally`: the second call is a no-op; over a manager's life there is one
   set and one join *)
Theorem C02_thread_manager_stop_idempotent : forall st st1,
  tm_model_stop st = Some st1 -> tm_model_stop st1 = Some st1.
Proof. exact tm_stop_twice. Qed.

Theorem C02_thread_manager_lifecycle : forall st1 st2,
  tm_model_start tm_new = Some st1 -> tm_model_stop st1 = Some st2 ->
  st2 = mkTM false true true false 1 1 [].
Proof. exact tm_lifecycle. Qed.

(* on EVERY path through stop(), exceptions included: at most one set and
   one join *)
Theorem C02_thread_manager_stop_once : forall t,
  trl tk_tm_stop t ->
  (count (is_call "event_set") t <= 1)%nat /\
  (count (is_call "thread_join") t <= 1)%nat.
Proof.
  intros t H. split; apply (count_bounded_list _ _ _ _ H);
    vm_compute; reflexivity.
Qed.

(* the thread runs its function with the manager's own event as first
   argument; _run_mp's results thread runs _get_results(event, results,
   results_queue) on the run's collection and on the queue created with
   RESULTS_QUEUE_SIZE, and the purge works on the same two objects: the
   [stop] flag, collection and queue of C02_collector_iteration_is_model are
   those of StartPurge / PurgeStep *)
Theorem C02_collector_thread_wiring :
  tm_thread_runs_func_with_own_event = true /\ run_mp_collector_wired = true.
Proof. split; reflexivity. Qed.

(* SearchTaskResultsManager hands back what it was given and refuses a queue
   AND a collection; worker tasks get the queue only (put_result's direct
   test is false: C02_put_result_is_Put / _is_Drop apply), in-process tasks
   the collection only (C02_put_result_direct applies) *)
Theorem C02_results_manager_modes :
  rm_properties_are_arguments = true /\
  (forall q c, rm_conflict_test q c = q && c) /\
  run_mp_manager_mode = (true, false) /\
  run_single_manager_mode = (false, true) /\
  rm_conflict_test (fst run_mp_manager_mode) (snd run_mp_manager_mode)
    = false /\
  rm_conflict_test (fst run_single_manager_mode)
                   (snd run_single_manager_mode) = false /\
  put_direct_test (snd run_mp_manager_mode) = false /\
  put_direct_test (snd run_single_manager_mode) = true.
Proof. repeat split; intros; reflexivity. Qed.

(* ------------------------------------------------------------------------
   The model identifies task = path = source id, and lets the values of a
   task be those of its own file.  In the code: *)

(* (i) get_source_id reuses an id only for the very same path string,
   starts at [source_id_first] and otherwise takes a number above every id in
   use; hence any two catalog paths that got the same id ARE the same path -
   two spellings / a symlink alias of one file are two sources, each with
   its own results (strings as lists of code points) *)
Theorem C02_source_ids_injective : forall (ps : list (list Z)) p q i,
  source_id_reused_iff_same_path_string = true ->
  let same := fun a b : list Z =>
                if list_eq_dec Z.eq_dec a b then true else false in
  let tbl := register_all (list Z) same source_id_first source_id_fresh ps in
  lookup_id (list Z) same p tbl = Some i ->
  lookup_id (list Z) same q tbl = Some i -> p = q.
Proof.
  intros ps p q i _ same.
  apply (source_ids_injective (list Z) same source_id_first source_id_fresh).
  - intros a b. unfold same. destruct (list_eq_dec Z.eq_dec a b);
      split; intros H; congruence.
  - intros m. unfold source_id_fresh. apply Z.lt_succ_diag_r.
Qed.

Theorem C02_source_id_source_shape :
  source_id_reused_iff_same_path_string = true /\ source_id_first = 0 /\
  forall m, m < source_id_fresh m.
Proof.
  split; [reflexivity|]. split; [reflexivity|].
  intros m. unfold source_id_fresh. apply Z.lt_succ_diag_r.
Qed.

(* (ii) a task's store object creates its own fresh local store and
   consults nothing outside itself: the values a task's results refer to
   are de-duplicated against that task's values only, never against those
   of another file the same worker searched *)
Theorem C02_worker_local_store_fresh_per_task :
  worker_local_store_fresh_per_task = true.
Proof. reflexivity. Qed.

(* (iii) every catalog entry is created with its own list of searches,
   inside the per-path loop of register(): a search added later to one path
   is not thereby run on the files registered together with it *)
Theorem C02_catalog_entries_do_not_share_searches :
  catalog_entry_searches_fresh_per_path = true.
Proof. reflexivity. Qed.

(* ------------------------------------------------------------------------
   Non-vacuity *)

(* a 2-file run with capacity 1 (two Puts meet a full queue) that returns;
   the collection is the sequential one *)
Example C02_example_q1 :
  drop_free ex_sched_q1 = true /\
  ph (run 1 ex_sched_q1 (init exP)) = Returned /\
  find_by_path 0 (collected (run 1 ex_sched_q1 (init exP)))
    = [(0%nat, 1); (0%nat, 2); (0%nat, 3)] /\
  find_by_path 1 (collected (run 1 ex_sched_q1 (init exP)))
    = [(1%nat, 10); (1%nat, 11); (1%nat, 12)] /\
  effective 1 ex_sched_q1 (init exP) = 12 /\ measure (init exP) = 12.
Proof. vm_compute. repeat split; reflexivity. Qed.

(* capacity 2, the purge takes the last two batches; Return is refused while
   a batch is still queued *)
Example C02_example_q2 :
  ph (run 2 ex_sched_q2 (init exP)) = Returned /\
  step 2 (run 2 (firstn 10 ex_sched_q2) (init exP)) Return = None /\
  queue (run 2 (firstn 10 ex_sched_q2) (init exP)) = [[(0%nat, 3)]] /\
  same_as_sequential exP (collected (run 2 ex_sched_q2 (init exP))).
Proof.
  split; [vm_compute; reflexivity|].
  split; [vm_compute; reflexivity|].
  split; [vm_compute; reflexivity|].
  apply parallel_equals_sequential; vm_compute; reflexivity.
Qed.

(* a give-up: one result lost, Return stays disabled although every task
   finished and the queue is empty *)
Example C02_example_drop :
  let s := run 2 ex_sched_drop (init exP) in
  lost s = 1 /\ ph s = Purging /\ queue s = [] /\ all_finished s = true /\
  expected s = 6 /\ coll_len (collected s) = 5 /\ step 2 s Return = None.
Proof. vm_compute. repeat split; reflexivity. Qed.

(* the fairness hypothesis is satisfiable *)
Example C02_example_fair :
  fair 2 ex_sigma (init exP) /\
  exists n, ph (run_n 2 ex_sigma n (init exP)) = Returned.
Proof.
  split; [exact ex_sigma_fair|]. exact (fair_returns 2 ex_sigma (init exP)
                                                     ex_sigma_fair).
Qed.

Print Assumptions C02_invariant.
Print Assumptions C02_never_misfiled.
Print Assumptions C02_parallel_equals_sequential.
Print Assumptions C02_parallel_equals_sequential_any_thresholds.
Print Assumptions C02_no_early_return.
Print Assumptions C02_never_returns_after_loss.
Print Assumptions C02_progress.
Print Assumptions C02_fair_schedule_returns.
Print Assumptions C02_source_thresholds.
Print Assumptions C02_purge_exit_meaning.
Print Assumptions C02_run_mp_order_meaning.
Print Assumptions C02_purge_iteration_is_model.
Print Assumptions C02_collector_iteration_is_model.
Print Assumptions C02_put_result_is_Put.
Print Assumptions C02_put_result_is_Drop.
Print Assumptions C02_worker_search_resets_definitions.
Print Assumptions C02_thread_manager_stop.
Print Assumptions C02_thread_manager_stop_once.
Print Assumptions C02_collector_thread_wiring.
Print Assumptions C02_results_manager_modes.
Print Assumptions C02_source_ids_injective.
Print Assumptions C02_worker_local_store_fresh_per_task.
Print Assumptions C02_catalog_entries_do_not_share_searches.
