(* C01 - Simple search reports exactly the matching lines, in order, captures
   intact.  Model: Model/Task.v (the per-file task of searchkit/task.py);
   specification: Spec/Task.v.  Oracles: re.match / re.search per (pattern,
   line) and (hint, line) - quantified over in every theorem. *)
From Coq Require Import String ZArith List Bool.
From SK Require Import Model.Skel Model.Stm Model.Task Model.TaskSk Spec.Task
     Proofs.TaskFlush Proofs.TaskLoop Proofs.TaskSimple Proofs.TaskGating
     Proofs.TaskSk Gen.Params Gen.Skeleton Gen.SkelTree Gen.XTask.
Import ListNotations.
Open Scope Z_scope.

(* For every oracle, every list of lines, every list of definitions
   registered on the file (distinct objects have distinct identities; the
   same object may be registered several times) and every unconstrained d
   among them: the task terminates, hands the collection batches of 1..MAX
   results, and the collection's results for d, in collection order, are
   exactly spec_simple d lines - none missing, none spurious, none twice,
   ascending, whatever the other definitions are.                  [full] *)
Theorem C01_simple_search_exact :
  forall (line : Type) (omatch : Z -> line -> option (list Z))
         (ohint : Z -> line -> bool) (ocon : Z -> line -> outcome)
         (MAX NBUF : Z) (ds : list sdef) (lines : list line) (d : sdef),
    1 <= MAX -> keys_ok s_key ds -> In d ds -> s_cons d = [] ->
    exists bs,
      simple_execute line omatch ohint ocon MAX NBUF ds lines = TaskOk bs /\
      Forall (batch_ok MAX) bs /\
      map obs (results_for (s_key d) (concat bs)) =
      spec_simple line omatch ohint d lines.
Proof. exact simple_search_exact. Qed.

(* nothing is reported for a definition that is not registered   [full] *)
Theorem C01_no_spurious_definition :
  forall (line : Type) (omatch : Z -> line -> option (list Z))
         (ohint : Z -> line -> bool) (ocon : Z -> line -> outcome)
         (MAX NBUF : Z) (ds : list sdef) (lines : list line) (k : Z),
    1 <= MAX -> ~ In k (map s_key ds) ->
    exists bs,
      simple_execute line omatch ohint ocon MAX NBUF ds lines = TaskOk bs /\
      results_for k (concat bs) = [].
Proof. exact simple_no_spurious. Qed.

(* _flush_results_buffer (slice / pop(0) x limit / IndexError -> limit-1):
   for every MAX >= 1 and every buffer the batches put concatenate to the
   buffer, each has 1..MAX elements, the buffer is empty afterwards and the
   loop terminates.                                                [full] *)
Theorem C01_flush_lossless :
  forall (R : Type) (MAX : Z) (st : tstate R),
    1 <= MAX -> t_div st = false ->
    exists bs,
      flush R MAX st = mkT [] (t_coll st ++ bs) false /\
      concat bs = t_buf st /\ Forall (batch_ok MAX) bs.
Proof. exact flush_spec. Qed.

(* ... and the hypothesis is needed: with MAX <= 0 the loop never ends *)
Theorem C01_flush_needs_positive_max :
  forall (R : Type) (fuel : nat) (limit : Z) (buf : list R) coll,
    limit <= 0 -> buf <> [] ->
    exists b c, flush_loop R fuel limit buf coll = (b, c, true).
Proof. exact flush_loop_spins. Qed.

(* what reaches the collection, for ANY per-definition handler (sequence
   searches included): exactly the handler outputs in production order,
   followed by the end-of-file pass                                [full] *)
Theorem C01_collection_is_emitted_stream :
  forall (line D St R : Type) (key : D -> Z) (cons : D -> list Z)
         (ocon : Z -> line -> outcome) (init : D -> St)
         (step : D -> St -> Z -> line -> St * list R)
         (post : list (D * St) -> Z -> list R) (MAX NBUF : Z)
         (ds : list D) (lines : list line),
    1 <= MAX ->
    exists bs,
      execute line D St R key cons ocon init step post MAX NBUF ds lines
      = TaskOk bs /\
      concat bs = emitted line D St R key cons ocon init step post ds lines /\
      Forall (batch_ok MAX) bs.
Proof. exact execute_exact. Qed.

(* line numbers count from the first line searched               [full] *)
Theorem C01_numbering_from_first_searched_line :
  forall (line G : Type) omatch ohint ocon (MAX NBUF : Z)
         (atf : G -> nat -> option Z * nat) globals restrictions ds
         (file_lines : list line),
    let pos := snd (fst (apply_global atf globals restrictions
                   (map (fun s => s_key (sl_def s))
                        (search_defs sdef unit s_key s_cons (fun _ => tt)
                                     ds)))) in
    simple_run_file line omatch ohint ocon MAX NBUF atf globals restrictions
                    ds file_lines =
    simple_execute line omatch ohint ocon MAX NBUF ds (skipn pos file_lines).
Proof. exact @simple_run_file_numbering. Qed.

(* ---- instantiation with the constants of the current source ---- *)
Theorem C01_transit_max_positive : 1 <= TRANSIT_MAX.
Proof. vm_compute. discriminate. Qed.

Theorem C01_num_buffered_positive : 1 <= NUM_BUFFERED_RESULTS.
Proof. vm_compute. discriminate. Qed.

Theorem C01_simple_search_exact_current_constants :
  forall (line : Type) omatch ohint ocon (ds : list sdef)
         (lines : list line) (d : sdef),
    keys_ok s_key ds -> In d ds -> s_cons d = [] ->
    exists bs,
      simple_execute line omatch ohint ocon TRANSIT_MAX NUM_BUFFERED_RESULTS
                     ds lines = TaskOk bs /\
      Forall (batch_ok TRANSIT_MAX) bs /\
      map obs (results_for (s_key d) (concat bs)) =
      spec_simple line omatch ohint d lines.
Proof.
  intros line omatch ohint ocon ds lines d.
  apply simple_search_exact. exact C01_transit_max_positive.
Qed.

(* ---- T1: the model mirrors the CURRENT source, function by function ----
   [xshape tk_f sk_f]: the control skeleton of f regenerated from the source
   (calls, raises, if / loop / try nesting, and whether each exit is a
   return, a break or a continue; reads, writes and logging erased).  The
   expected shapes are in Model/TaskSk.v, every node annotated with the
   branch of Model/Task.v it stands for.  A dropped / re-ordered / re-nested
   call, test, loop or handler, or a changed exit kind, breaks these. *)
Theorem C01_searchdef_run_shape :
  xshape_hoisted tk_searchdef_run sk_searchdef_run = Some x_searchdef_run.
Proof. vm_compute. reflexivity. Qed.

Theorem C01_flush_results_buffer_shape :
  xshape tk_flush_results_buffer sk_flush_results_buffer
  = Some x_flush_results_buffer.
Proof. vm_compute. reflexivity. Qed.

Theorem C01_simple_search_shape :
  xshape tk_simple_search sk_simple_search = Some x_simple_search.
Proof. vm_compute. reflexivity. Qed.

Theorem C01_run_search_shape :
  xshape tk_run_search sk_run_search = Some x_run_search.
Proof. vm_compute. reflexivity. Qed.

Theorem C01_execute_shape : xshape tk_execute sk_execute = Some x_execute.
Proof. vm_compute. reflexivity. Qed.

Theorem C01_put_result_shape :
  xshape tk_put_result sk_put_result = Some x_put_result.
Proof. vm_compute. reflexivity. Qed.

(* the two tests of SearchDef.run as the source writes them: the hint
   pre-check is performed whenever there is a hint (whatever the number of
   patterns) - guard 0 of the reading below - and the pattern loop is left
   as soon as a pattern matched - guard 1 *)
Theorem C01_searchdef_run_tests_are_model :
  (forall has_hint npatterns,
     searchdef_run_hint_gate has_hint npatterns = has_hint) /\
  (forall matched, searchdef_run_leaves_loop matched = matched).
Proof. split; reflexivity. Qed.

(* SearchDef.run: executing the extracted skeleton - hint_search /
   pattern_match being the oracles, the tests being the extracted hint gate
   (and "hint not found") and the extracted loop-exit test, the loop ranging over the pattern list and LEAVING at
   the first match - is sd_run, for every definition (any number of
   patterns), every oracle and every line *)
Theorem C01_searchdef_run_is_sd_run :
  forall (line : Type) omatch ohint (d : sdef) (l : line),
    on_shape (xshape_hoisted tk_searchdef_run sk_searchdef_run)
             (run_searchdef_tree line omatch ohint d l
                                 searchdef_run_hint_gate
                                 searchdef_run_leaves_loop) =
    Some (sd_run line omatch ohint d l).
Proof.
  exact (searchdef_on_shape _ _ _ C01_searchdef_run_shape
           (proj1 C01_searchdef_run_tests_are_model)
           (proj2 C01_searchdef_run_tests_are_model)).
Qed.

(* the local expressions of _flush_results_buffer that are not events:
   limit = MAX, buffer[:limit], range(limit), pop(0), limit -= 1 - as
   extracted from the source they are the ones flush_loop uses *)
Theorem C01_flush_source_expressions :
  mkFlSrc flush_limit_init flush_slice_upper flush_pop_count flush_pop_index
          flush_on_index_error = fl_src_model.
Proof. reflexivity. Qed.

(* _flush_results_buffer: executing the extracted skeleton with those
   expressions (while buffer: try [slice; put; pop x limit] except
   IndexError: limit - 1) is flush_loop, for every MAX (also <= 0: both
   spin), every buffer, every result type *)
Theorem C01_flush_results_buffer_is_flush_loop :
  forall (R : Type) (MAX : Z) (buf : list R) (coll : list (list R)),
    on_shape (xshape tk_flush_results_buffer sk_flush_results_buffer)
             (fun t => run_flush_tree R
                         (mkFlSrc flush_limit_init flush_slice_upper
                                  flush_pop_count flush_pop_index
                                  flush_on_index_error) t MAX buf coll) =
    Some (flush_loop R (S (length buf)) MAX buf coll).
Proof.
  exact (flush_on_shape _ _ C01_flush_results_buffer_shape
                        C01_flush_source_expressions).
Qed.

(* _simple_search flushes when `len(buffer) >= NUM_BUFFERED_RESULTS`: the
   extracted test is the one in [push] *)
Theorem C01_flush_threshold_is_source :
  forall buffer_len nbuf, simple_flush_test buffer_len nbuf
                          = (nbuf <=? buffer_len).
Proof. reflexivity. Qed.

(* enumerate(fd, start=1): lines_loop starts at 0 and numbers ln + 1 *)
Theorem C01_enumerate_start_is_source : enumerate_start = 0 + 1.
Proof. reflexivity. Qed.

(* store_result: parts 1 .. n from range(1, n + 1), part 0 for no groups *)
Theorem C01_store_result_indices :
  forall g0 gs,
    let n := Z.of_nat (length gs) in
    map fst (store_result (g0 :: gs)) =
    if n =? 0 then [store_whole_index n]
    else range_z (store_range_first n) (store_range_stop n).
Proof.
  exact (store_result_indices store_range_first store_range_stop
           store_whole_index (fun _ => eq_refl) (fun _ => eq_refl)
           (fun _ => eq_refl)).
Qed.

(* ---- T1: constructors and accessors (Model/TaskSk.v, "constructors") ----
   which argument feeds which attribute, under which condition, with which
   compilation - per attribute, so that re-ordering independent assignments
   or adding log lines / locals is harmless *)
Theorem C01_searchdef_init_flows :
  writes_table ["patterns"; "store_result_contents"; "tag"; "field_info";
                "hint"; "sequence_def"] tk_searchdef_init
  = w_searchdef_init.
Proof. vm_compute. reflexivity. Qed.

(* "do this last": the base-class constructor (constraints, id) runs after
   the attributes are set *)
Theorem C01_searchdef_init_super_last :
  last_call tk_searchdef_init = Some "super_init".
Proof. vm_compute. reflexivity. Qed.

(* the patterns attribute, as the source builds it (extracted function over
   an abstract re.compile), is the argument's patterns compiled IN ORDER - a
   single string counting as a one-element list: the model's s_pats *)
Theorem C01_searchdef_patterns_is_model :
  forall (P C : Type) (compile : P -> C) is_list single many,
    searchdef_patterns compile is_list single many =
    map compile (pattern_arg_list is_list single many).
Proof.
  intros P C. exact (patterns_as_model (@searchdef_patterns P C)
                                        (fun _ _ _ _ => eq_refl)).
Qed.

(* the hint is compiled (hence consulted by run) iff it is truthy: s_hint *)
Theorem C01_searchdef_hint_is_model :
  forall hint_truthy, searchdef_hint_compiled hint_truthy = hint_truthy.
Proof. reflexivity. Qed.

(* the model's definition record from the constructor's arguments *)
Theorem C01_sdef_of_args_fields :
  forall key is_list single many ht hint store tag cons,
    let d := sdef_of_args key is_list single many ht hint store tag cons in
    s_pats d = pattern_arg_list is_list single many /\
    s_hint d = (if searchdef_hint_compiled ht then Some hint else None) /\
    s_store d = store /\ s_tag d = tag /\ s_cons d = cons.
Proof. intros. repeat split. Qed.

Theorem C01_link_to_sequence_flows :
  writes_table ["sequence_def"; "tag"] tk_searchdef_link_to_sequence
  = w_link_to_sequence.
Proof. vm_compute. reflexivity. Qed.

(* SearchTask.__init__: info / managers as given, results_buffer = [] (the
   model's initial mkT [] [] false), decode policy passed on only if given *)
Theorem C01_searchtask_init_flows :
  writes_table ["proc"; "info"; "stats"; "constraints_manager";
                "results_manager"; "decode_kwargs"; "results_buffer"]
               tk_searchtask_init
  = w_searchtask_init.
Proof. vm_compute. reflexivity. Qed.

Theorem C01_searchtask_init_buffer_empty :
  task_initial_buffer_len
  = Z.of_nat (length (t_buf (@mkT result [] [] false))) /\
  (forall b, task_passes_decode_errors b = b).
Proof. split; reflexivity. Qed.

(* SearchTaskResultsManager: the three objects as given; both a queue and a
   collection is refused (the model uses the collection: single process);
   each property returns its own attribute *)
Theorem C01_resultsmanager_init_flows :
  writes_table ["results_store"; "results_queue"; "results_collection"]
               tk_resultsmanager_init
  = w_resultsmanager_init /\
  (forall q c, resultsmanager_rejects q c = q && c).
Proof. split; [vm_compute; reflexivity|reflexivity]. Qed.

Theorem C01_resultsmanager_properties :
  tk_resultsmanager_results_store = [SEv (Rd "results_store"); SExit] /\
  tk_resultsmanager_results_queue = [SEv (Rd "results_queue"); SExit] /\
  tk_resultsmanager_results_collection
  = [SEv (Rd "results_collection"); SExit].
Proof. vm_compute. repeat split. Qed.

(* which branch of store_result runs the group loop: the one taken when the
   match has groups, however the source phrases the test (if/else, negated
   and swapped, guard clause) *)
Theorem C01_store_result_loop_condition :
  forall n, store_loop_when n = negb (n =? 0).
Proof.
  intros n. unfold store_loop_when. destruct (n =? 0); reflexivity.
Qed.

(* ---- non-vacuity ---- *)
(* patterns 1,2,3; hint 7; values are ids.  d1 = [p1 (no groups); p2 (2
   groups)] with hint 7, d2 = [p3 (1 group)] without contents, d1 registered
   twice.  Lines: 1 p1+p2 match, hint present (first pattern wins);
   2 only p2; 3 p2 but no hint; 4 nothing; 5 p3 and p2. *)
Definition ex_d1 := mkSdef 1 [1; 2] (Some 7) true 100 [].
Definition ex_d2 := mkSdef 2 [3] None false 100 [].
Definition ex_lines : list tline :=
  [ mkTline [(1, [10]); (2, [10; 11; 12])] [7] [];
    mkTline [(2, [13; 14; 0])] [7] [];
    mkTline [(2, [13; 14; 0])] [] [];
    mkTline [] [7] [];
    mkTline [(3, [15; 16]); (2, [17; 18; 19])] [7] [] ].

Example C01_example_keys : keys_ok s_key [ex_d1; ex_d2; ex_d1].
Proof.
  intros a b Ha Hb. simpl in Ha, Hb.
  destruct Ha as [<-|[<-|[<-|[]]]]; destruct Hb as [<-|[<-|[<-|[]]]];
    simpl; intros H; try reflexivity; discriminate.
Qed.

(* MAX = 2 and NUM_BUFFERED_RESULTS = 3: the flush threshold is crossed *)
Example C01_example_run :
  simple_execute tline t_omatch t_ohint t_ocon 2 3 [ex_d1; ex_d2; ex_d1]
                 ex_lines =
  TaskOk [ [mkResult 1 1 100 [(0, 10)]; mkResult 1 2 100 [(1, 14); (2, 0)]];
           [mkResult 1 5 100 [(1, 18); (2, 19)]];
           [mkResult 2 5 100 []] ] /\
  spec_simple tline t_omatch t_ohint ex_d1 ex_lines =
    [(1, [(0, 10)]); (2, [(1, 14); (2, 0)]); (5, [(1, 18); (2, 19)])] /\
  spec_simple tline t_omatch t_ohint ex_d2 ex_lines = [(5, [])].
Proof. vm_compute. repeat split. Qed.

(* the pop loop when fewer than `limit` elements remain: 5 results, MAX = 3:
   batches of 3 and 2 (IndexError after two pops), nothing lost *)
Example C01_example_flush_remainder :
  flush Z 3 (mkT [1; 2; 3; 4; 5] [] false) = mkT [] [[1; 2; 3]; [4; 5]] false.
Proof. vm_compute. reflexivity. Qed.

Print Assumptions C01_simple_search_exact.
Print Assumptions C01_no_spurious_definition.
Print Assumptions C01_flush_lossless.
Print Assumptions C01_flush_needs_positive_max.
Print Assumptions C01_collection_is_emitted_stream.
Print Assumptions C01_numbering_from_first_searched_line.
Print Assumptions C01_simple_search_exact_current_constants.
Print Assumptions C01_searchdef_run_is_sd_run.
Print Assumptions C01_flush_results_buffer_is_flush_loop.
Print Assumptions C01_store_result_indices.
Print Assumptions C01_searchdef_init_flows.
Print Assumptions C01_searchdef_patterns_is_model.
Print Assumptions C01_searchtask_init_flows.
Print Assumptions C01_resultsmanager_init_flows.
