(* C14 - Result-collection lookups are consistent views of one multiset of
   results.  Model: Model/Collection.v (SearchResultsCollection over a
   catalog's source and tag tables).  All theorems hold for EVERY collection
   reachable by any sequence of add() calls and EVERY catalog. *)
From Coq Require Import String ZArith List Bool Permutation Lia.
From SK Require Import Model.Skel Model.Stm Model.SequenceSk Model.CallCount
     Proofs.CallCount Gen.SkelTree.
From SK Require Model.Result.
From SK Require Import Model.Collection Spec.Collection Proofs.CollectionDict
     Proofs.Collection Proofs.CollectionTop Proofs.CatalogTags Gen.XCatalog.
Import ListNotations.
Open Scope Z_scope.
Open Scope list_scope.

(* len() = sum of the per-path lists = number of results yielded by `all` *)
Theorem C14_len_is_sum : forall cat c,
  reachable cat c ->
  len c = sumZ (map (fun p => Z.of_nat (length (find_by_path c p))) (files c))
  /\ len c = Z.of_nat (length (all c)).
Proof. exact len_is_sum_top. Qed.

(* `all` and items() enumerate the same results in the same order; items()
   pairs every path of `files` with its find_by_path list *)
Theorem C14_all_eq_items : forall cat c,
  reachable cat c ->
  all c = concat (map snd (items c)) /\
  map fst (items c) = files c /\ keys c = files c /\
  (forall p l, In (p, l) (items c) -> l = find_by_path c p) /\
  (forall p, In p (files c) -> getitem c p = Some (find_by_path c p)).
Proof. exact all_eq_items_top. Qed.

(* find_by_tag(t, path) is exactly the sub-list with tag t of `all` (falsy
   path) or of find_by_path(path); the same for the sequence results *)
Theorem C14_by_tag_exact : forall cat c t p,
  reachable cat c ->
  find_by_tag c t p = filter (tag_is t) (base c p) /\
  all_sequence_results c p = filter is_seq (base c p).
Proof. exact by_tag_exact_top. Qed.

(* every lookup for a path that holds no result is empty (no reachability
   needed) *)
Theorem C14_unknown_path_empty : forall cat c p t d tg,
  ~ In p (files c) -> truthy p = true ->
  find_by_path c p = [] /\ find_by_tag c t p = [] /\
  all_sequence_results c p = [] /\ find_sequence_sections c d p = [] /\
  (forall ds, merge_sections c p ds = []) /\
  (find_sequence_by_tag cat c tg p = KeyError \/
   find_sequence_by_tag cat c tg p = Ok []).
Proof. exact unknown_path_views. Qed.

(* one definition: its sections have distinct ids, each is exactly the
   results of that definition with that id, together a permutation of the
   definition's results *)
Theorem C14_sections_of_one_definition : forall cat c d p,
  reachable cat c ->
  NoDup (map fst (find_sequence_sections c d p)) /\
  (forall k v, In (k, v) (find_sequence_sections c d p) ->
     v <> [] /\ v = filter (sec_is d k) (base c p)) /\
  Permutation (concat (map snd (find_sequence_sections c d p)))
              (filter (seq_is d) (base c p)).
Proof. exact sections_of_one_definition_top. Qed.

(* find_sequence_by_tag: for the definitions ds the tag resolves to,
   - section ids are distinct, each section is non-empty and holds exactly
     the results of ONE definition of ds with that id (unconditionally);
   - distinct sections share no result object (uids distinct);
   - if a section id belongs to one definition (uuid4 uniqueness) the
     sections partition the results of ds: every such result is in exactly
     one section;
   - under fresh_sections every section is also drawn from a single file. *)
Theorem C14_sections_partition : forall cat c t p ds,
  reachable cat c -> dget Z.eqb (tagtab cat) t = Some ds ->
  exists secs,
    find_sequence_by_tag cat c t p = Ok secs /\
    NoDup (map fst secs) /\
    (forall k v, In (k, v) secs ->
       v <> [] /\ exists d, In d ds /\ v = filter (sec_is d k) (base c p)) /\
    (NoDup (map uid (base c p)) ->
     NoDup (map uid (concat (map snd secs)))) /\
    (defs_sections_unique ds (base c p) ->
     Permutation (concat (map snd secs)) (filter (in_defs ds) (base c p))) /\
    (fresh_sections c ->
     Permutation (concat (map snd secs)) (filter (in_defs ds) (base c p)) /\
     (truthy p = false ->
      forall k v, In (k, v) secs ->
        exists q, forall r, In r v -> In r (find_by_path c q))).
Proof. exact sections_partition_top. Qed.

(* a tag that was never registered: KeyError (boundary, DESIGN section 3) *)
Theorem C14_unknown_tag_keyerror : forall cat c t p,
  dget Z.eqb (tagtab cat) t = None ->
  find_sequence_by_tag cat c t p = KeyError.
Proof. exact unknown_tag_top. Qed.

(* a lookup with path=p equals the lookup on the collection restricted to p *)
Theorem C14_path_filter_commutes : forall cat c p t d ds,
  reachable cat c -> truthy p = true ->
  find_by_tag c t p = find_by_tag (restrict c p) t 0 /\
  all_sequence_results c p = all_sequence_results (restrict c p) 0 /\
  find_sequence_sections c d p = find_sequence_sections (restrict c p) d 0 /\
  merge_sections c p ds = merge_sections (restrict c p) 0 ds.
Proof. exact path_filter_commutes_top. Qed.

(* the ONE multiset: the views of build(batches) are filters of the arrival
   sequence; nothing is lost or duplicated by add() *)
Theorem C14_views_of_population : forall cat bs,
  let c := build cat bs in
  let pop := arrivals cat bs in
  reachable cat c /\
  (forall p, find_by_path c p = on_path pop p) /\
  Permutation (all c) (map snd pop) /\
  len c = Z.of_nat (length pop).
Proof. exact views_of_population_top. Qed.

Theorem C14_add_preserves_population : forall cat c b,
  reachable cat c ->
  reachable cat (add cat c b) /\
  Permutation (all (add cat c b)) (all c ++ b) /\
  (forall p, find_by_path (add cat c b) p =
             find_by_path c p ++ filter (lands_on cat p) b).
Proof. exact add_preserves_population_top. Qed.

Theorem C14_fresh_sections_decidable : forall c,
  fresh_sections_b c = true -> fresh_sections c.
Proof. exact fresh_sections_b_sound. Qed.

(* ---- non-vacuity: 3 paths, tag 10 shared by the sequence definitions 100
   and 101, tag 11 shared by two simple searches (102, 103); part tags 20
   ('10-start') and 21 ('10-end'); mixed simple and sequence results; an
   unknown source id (9) lands on the None path *)
Definition ex_cat : catalog :=
  mkCat [(0, 1); (1, 2); (2, 3)] [(10, [100; 101]); (11, [102; 103])].
Definition ex_batches : list (list result) :=
  [ [ mkR 1 1 0 (Some 11) None None [(1, 0)];
      mkR 2 2 0 (Some 20) (Some 100) (Some 500) [];
      mkR 3 4 0 (Some 21) (Some 100) (Some 500) [(1, 3)] ];
    [ mkR 4 1 1 (Some 20) (Some 101) (Some 501) [];
      mkR 5 2 1 (Some 11) None None [(1, 0)];
      mkR 6 7 0 (Some 20) (Some 100) (Some 502) [];
      mkR 7 3 1 (Some 21) (Some 101) (Some 501) [];
      mkR 8 1 9 None None None [] ] ].
Definition ex_coll : coll := build ex_cat ex_batches.

Example C14_example :
  reachable ex_cat ex_coll /\ fresh_sections ex_coll /\
  NoDup (map uid (all ex_coll)) /\
  files ex_coll = [1; 2; 0] /\ len ex_coll = 8 /\
  map uid (find_by_tag ex_coll (Some 11) 0) = [1; 5] /\
  map uid (find_by_tag ex_coll (Some 20) 2) = [4] /\
  (exists secs, find_sequence_by_tag ex_cat ex_coll 10 0 = Ok secs /\
     map (fun e => (fst e, map uid (snd e))) secs =
     [(Some 500, [2; 3]); (Some 502, [6]); (Some 501, [4; 7])]).
Proof.
  split; [apply build_reachable|].
  split; [apply fresh_sections_b_sound; vm_compute; reflexivity|].
  split; [vm_compute; repeat constructor; simpl; intuition discriminate|].
  repeat split; try (vm_compute; reflexivity).
  eexists. split; vm_compute; reflexivity.
Qed.

(* ---- why uniqueness of section ids is a hypothesis: two definitions (100,
   101) of one tag reuse section id 500; dict.update() lets the later
   definition overwrite the earlier section and result 1 is in no section *)
Definition bad_cat : catalog := mkCat [(0, 1)] [(10, [100; 101])].
Definition bad_coll : coll :=
  build bad_cat [[ mkR 1 1 0 (Some 20) (Some 100) (Some 500) [];
                   mkR 2 2 0 (Some 20) (Some 101) (Some 500) [] ]].

Theorem C14_sections_partition_without_unique_ids_refuted :
  reachable bad_cat bad_coll /\
  exists secs, find_sequence_by_tag bad_cat bad_coll 10 0 = Ok secs /\
    map uid (concat (map snd secs)) = [2] /\
    map uid (filter (in_defs [100; 101]) (all bad_coll)) = [1; 2].
Proof.
  split; [apply build_reachable|].
  eexists. repeat split; vm_compute; reflexivity.
Qed.

(* ---- T1, structure: the tree skeleton of add() and the tests / filters /
   accumulations of the lookups, regenerated from the source on every run
   (translator/skeleton.py, translator/plugins/catalog.py) *)
Local Open Scope string_scope.
Definition expected_collection_add : list stm :=
  [ SLoop [ SEv (Call "register_store"); SEv (Call "resolve_source");
            SIf [] [] ] ].          (* path not in dict: new list | append *)
Theorem C14_collection_add_shape :
  calls_only_list tk_collection_add = expected_collection_add.
Proof. vm_compute. reflexivity. Qed.
Local Close Scope string_scope.

(* the model's lookups ARE the loop nests of the source filled with the
   extracted tests: `if path:` (truthiness), `result.tag != tag`,
   `result.sequence_id is None`, `s_id != sequence_obj.id`, and the
   accumulation of __len__ *)
Definition select_src (restrict : Z -> bool) (keep : result -> bool)
           (c : coll) (p : Z) : list result :=
  flat_map (fun q => filter keep (find_by_path c q))
           (if restrict p then [p] else files c).

Theorem C14_lookups_are_source_pieces : forall c t p d,
  select_src x_fbt_restrict (fun r => x_fbt_keeps (tag r) t) c p
    = find_by_tag c t p /\
  select_src x_seq_restrict (fun r => x_seq_keeps (seq r)) c p
    = all_sequence_results c p /\
  fold_left (fun acc r => if x_fss_keeps (seq r) d
                          then dappend oz_eqb acc (section r) r else acc)
            (all_sequence_results c p) []
    = find_sequence_sections c d p /\
  fold_left (fun n f => x_len_step n (Z.of_nat (length (find_by_path c f))))
            (files c) x_len_init = len c.
Proof. intros. repeat split; reflexivity. Qed.

Theorem C14_statement_shapes_from_source :
  x_fss_groups_by_section_id = true /\
  x_fsbt_updates_per_definition = true /\
  x_add_appends_by_resolved_path = true /\
  x_find_by_path_default_empty = true /\
  x_all_yields_every_value = true /\
  x_result_meta_none_iff_slot_none = true /\
  x_result_sequence_id_before_early_return = true.
Proof. repeat split; reflexivity. Qed.

(* the catalog side of find_sequence_by_tag: after ANY registration history
   (any order, definitions re-registered for further paths) a tag resolves
   to exactly the definitions ever registered with it, each once *)
Theorem C14_tag_table_complete : forall regs tg,
  NoDup (tag_defs (tag_table regs) tg) /\
  forall d, In d (tag_defs (tag_table regs) tg) <-> In (tg, d) regs.
Proof. exact tag_table_spec. Qed.

(* ... and register() updates the table with the NESTED tests the model's
   register_tag has (tag known? / id already listed? / else new list) *)
Local Open Scope string_scope.
Theorem C14_register_tag_table_shape :
  calls_only_list tk_register =
  [ SIf [SIf [SIf [] []] []] []; SIf [] []; SEv (Call "expand_path");
    SLoop [ SIf [] [SEv (Call "get_source_id")] ] ].
Proof. vm_compute. reflexivity. Qed.
Local Close Scope string_scope.

(* ---- round 3: __init__ / reset / files / `data`, and ResultFieldInfo *)
Local Open Scope string_scope.
Theorem C14_collection_init_reset_shape :
  tk_collection_init = [SEv (Call "reset")] /\
  tk_collection_reset = [SEv (Wr "by_path")] /\
  (forall t, trl tk_collection_init t ->
             (count (is_call "reset") t <= 1)%nat).
Proof.
  split; [vm_compute; reflexivity|]. split; [vm_compute; reflexivity|].
  intros t H. apply (count_bounded_list _ _ _ _ H). vm_compute. reflexivity.
Qed.
Local Close Scope string_scope.

(* reset() re-initialises EVERY attribute that add() / __init__ maintain
   (checked on the source by the plugin: a second, separately maintained
   piece of state such as a running total must be reset too), so a reset
   collection is the empty one: whatever is added afterwards, all views are
   those of a collection built from the later batches alone *)
Theorem C14_reset_then_add : forall cat bs,
  x_reset_reinitialises_all_state = true /\
  x_collection_init_resets = true /\ x_files_are_keys = true /\
  x_data_is_copy_of_by_path = true /\
  len reset = 0 /\ all reset = [] /\ files reset = [] /\
  fold_left (add cat) bs reset = build cat bs /\
  reachable cat (fold_left (add cat) bs reset).
Proof.
  intros cat bs. repeat split; try reflexivity. apply build_reachable.
Qed.

(* ResultFieldInfo (model: Model/Result.v of C05): a list of names carries
   no types, ensure_type casts iff the field declares a type, and
   index_to_name is the index-th name, failing exactly outside the range *)
Theorem C14_field_info_from_source : forall (fi : Model.Result.finfo) i,
  x_field_info_list_untyped = true /\
  x_ensure_type_casts_iff_typed = true /\ x_index_to_name_is_nth = true /\
  (Model.Result.index_to_name fi i = None <->
   i < 0 \/ Z.of_nat (length fi) <= i).
Proof.
  intros fi i. repeat split; try reflexivity.
  - unfold Model.Result.index_to_name. destruct (i <? 0) eqn:E.
    + intros _. left. now apply Z.ltb_lt.
    + apply Z.ltb_ge in E. intro H. right.
      destruct (nth_error fi (Z.to_nat i)) eqn:En; [discriminate|].
      apply nth_error_None in En. lia.
  - unfold Model.Result.index_to_name. intros [H|H].
    + apply Z.ltb_lt in H. now rewrite H.
    + destruct (i <? 0); [reflexivity|].
      assert (En : nth_error fi (Z.to_nat i) = None)
        by (apply nth_error_None; lia).
      now rewrite En.
Qed.

Print Assumptions C14_len_is_sum.
Print Assumptions C14_all_eq_items.
Print Assumptions C14_by_tag_exact.
Print Assumptions C14_unknown_path_empty.
Print Assumptions C14_sections_of_one_definition.
Print Assumptions C14_sections_partition.
Print Assumptions C14_path_filter_commutes.
Print Assumptions C14_views_of_population.
Print Assumptions C14_add_preserves_population.
Print Assumptions C14_tag_table_complete.
Print Assumptions C14_collection_init_reset_shape.
Print Assumptions C14_reset_then_add.
Print Assumptions C14_field_info_from_source.
