#!/bin/sh
# MANIFEST.setup_cmd: build the whole Coq development (full .vo build) from
# files on disk only.  Gen/*.v are regenerated from /repo first.
set -e
cd "$(dirname "$0")"
mkdir -p build replays evidence
/venv/bin/python - <<'PY'
import sys
sys.path.insert(0, 'lib')
import vlib
b = vlib.build(['all'], timeout=3000)
print(b['log'][-3000:])
print("gen_failed:", b['gen_failed'])
sys.exit(0 if b['ok'] else 1)
PY
