#!/bin/sh
# MANIFEST.setup_cmd: build the Coq development (full .vo build, never -vos)
# from files on disk only.  Gen/*.v are regenerated from /repo first.  The
# theorem files of every claimed property (tools/ready.txt) must build;
# files of properties still under construction are built best-effort.
set -e
cd "$(dirname "$0")"
mkdir -p build replays evidence
/venv/bin/python - <<'PY'
import sys
sys.path.insert(0, 'lib')
import vlib
ready = open('tools/ready.txt').read().split()
b = vlib.build([f'Props/{p}.vo' for p in ready], timeout=3000)
print(b['log'][-3000:])
print("gen_failed:", b['gen_failed'])
if not b['ok'] or b['gen_failed']:
    sys.exit(1)
rc, out = vlib.sh(['make', '-k', f'-j{vlib.NPROC}', 'all'], cwd=vlib.COQ,
                  timeout=3000)
print("best-effort build of everything else: rc", rc)
print(out[-1500:])
PY
