#!/usr/bin/env python3
"""print the prompt for an independent mutation sub-agent (property text only)"""
import json, sys
pid = sys.argv[1]
for l in open('/verif/properties.jsonl'):
    p = json.loads(l)
    if p['id'] == pid:
        break
print(f"""You are testing a verification effort by writing realistic bugs. You have a scratch git worktree of a small Python library (dosaboy/searchkit: parallel regex file searching with multi-line sequence matching, timestamp-based binary-seek constraints and a multiprocess de-duplicating result store) at /tmp/mut/{pid} . Work ONLY inside /tmp/mut/{pid} and /tmp/mut/{pid}_out . Never touch /repo or /verif or anything else; do not `git commit`, do not create branches; produce patches with `git diff`.

The library is supposed to satisfy this property:

ID: {pid}
TITLE: {p['title']}
STATEMENT: {p['statement']}
QUANTIFIER: {p['quantifier']['text']}
CODE INVOLVED: {', '.join(p['anchors']['files'])}

YOUR TASK: produce THREE different, independent, realistic source changes to the library (each a small patch a tired developer could plausibly write: an off-by-one, a wrong comparison, a "harmless" refactor or optimisation, a reordered pair of statements, a dropped guard, a changed constant that interacts with another site ...) such that EACH change
  (1) BREAKS the property above on at least one input / schedule / history, 
  (2) still imports/compiles, and 
  (3) still passes the library's existing test suite: run it from the worktree with
      cd /tmp/mut/{pid} && PYTHONPATH=/tmp/mut/{pid} setsid timeout -s KILL 900 /venv/bin/python -m pytest -q -p no:cacheprovider --timeout=900 > /tmp/mut/{pid}_out/suite_N.log 2>&1
      (takes ~1 minute; redirect to a file as shown, never pipe it; the expected result on the unmodified tree is `1 failed, 83 passed` where the one failure is tests/unit/test_utils.py::TestUtils::test_mpcache_simple, which always fails in this sandbox - that same outcome is what "passes" means).
Prefer changes that need something SPECIFIC to manifest - a particular alignment or boundary value, a particular interleaving, a crash or fault at a particular point, a multi-step sequence of operations, an unusual input, or two cooperating sites that each look fine alone - rather than ones that any ordinary use exposes at once. The three changes should attack different mechanisms of the property. Avoid changes that merely make the code crash on every input.

For each change N in 1..3 create the directory /tmp/mut/{pid}_out/N/ containing:
  - patch.diff : `git diff` of the change against the unmodified worktree (apply-able with `git apply`),
  - demo.py (or demo_test.py): a small self-contained program that imports searchkit from the path given in the environment variable SK_REPO (insert it at sys.path[0]; default /tmp/mut/{pid}), exercises the library through its public API, and exits 0 / prints PASS when the property holds and exits 1 / prints FAIL when it is violated. It must PASS on the unmodified tree and FAIL with your change applied - verify both (switch with `git apply patch.diff` and `git apply -R patch.diff` or `git checkout -- .`; never use git stash) and say so,
  - meta.json : {{"property": "{pid}", "summary": "...what was changed...", "needs": "...what specific input/schedule/history it needs in order to manifest...", "suite": "1 failed, 83 passed (baseline-equal)", "demo_unmodified": "PASS", "demo_modified": "FAIL"}}.
Work on one change at a time: apply, run suite + demo, save patch, then restore the worktree to the unmodified state (`git checkout -- .`) before the next. Leave the worktree unmodified at the end. If multi-process code is involved, give every run a hard timeout and make sure no python child processes are left behind.

Finish with a short report listing the three changes (one paragraph each) and confirming the three conditions for each.""")
