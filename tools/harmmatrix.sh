#!/bin/sh
# tools/harmmatrix.sh [jobs] [id-pattern] [output file] : run ALL quick checks against every
# behaviour-preserving change under seeded_harmless/ (scratch worktrees, see
# mutrun.sh) and write seeded_harmless/RESULTS.txt: one line per (change,
# property); any rc!=0 is an alarm on code where the property holds.
J="${1:-4}"; PAT="${2:-^H}"; OUT="${3:-RESULTS.txt}"
cd /verif || exit 2
PROPS=$(cat tools/ready.txt)
ls seeded_harmless | grep "$PAT" | xargs -P "$J" -I{} sh -c \
  "tools/mutrun.sh /verif/seeded_harmless/{}/patch.diff quick $PROPS 2>&1 | grep '^== ' | sed 's/^== /{} /' > /tmp/harm_{}.txt"
cat /tmp/harm_H*.txt | sort > seeded_harmless/$OUT
rm -f /tmp/harm_H*.txt
grep -c 'rc=0' seeded_harmless/$OUT
grep -v 'rc=0' seeded_harmless/$OUT
