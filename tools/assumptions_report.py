#!/usr/bin/env python3
"""Summarise Print Assumptions / coqchk results from evidence/*.json"""
import glob, json
tot = 0; notclosed = {}
for f in sorted(glob.glob('/verif/evidence/C*.json')):
    e = json.load(open(f)); c = e['coverage']
    pa = c.get('print_assumptions', {})
    tot += len(pa)
    for n, a in pa.items():
        if 'Closed under the global context' not in a:
            notclosed[n] = a
    ck = c.get('coqchk')
    print(e['property_id'], e['tier'], f"theorems={len(pa)}", f"obligations={c.get('discharged')}/{c.get('obligations')}",
          ("coqchk rc=%s" % ck['rc']) if ck else '')
print("theorems with Print Assumptions captured:", tot)
print("not closed under the global context:", notclosed or "none")
