#!/usr/bin/env python3
"""Regenerate /verif/MANIFEST.json from the table below (claimed properties
are those whose harness/cXX.py and coq/Props/CXX.v exist)."""
import json
import os

V = os.path.dirname(os.path.dirname(os.path.abspath(__file__)))

COMMON_NOTE = (
    "Trusted: Coq 8.16.1 kernel + vm_compute (no native_compute, no "
    "extraction); the fail-closed python-ast translator that regenerates "
    "coq/Gen/*.v from /repo on every run; the correspondence harness "
    "(generators, canonicalisation, cases files evaluated by coqc); CPython "
    "and the OS.  The Python code is modelled, not verified: the theorem is "
    "about the Gallina model/spec, the tie to /repo is T1 (source-derived "
    "definitions and skeleton checkers inside the proofs) + T2 (model "
    "evaluated in Coq vs the real implementation on generated cases). ")

TABLE = {
    'C01': dict(
        text="Theorem: for every oracle, line list and definition set the "
             "task model's collected results of a simple search equal the "
             "filter-map spec (none missing/spurious/duplicated, ascending, "
             "independent of other definitions); flush loop lossless for "
             "every batch bound. Tie: constants from source (T1), real "
             "FileSearcher.run() vs model in Coq (T2).",
        note="re.match/re.search and bytes.decode are oracles tabulated by "
             "the harness with plain Python.",
        tech="Coq refinement proof (model = spec) + in-Coq differential "
             "correspondence", ref="4/C01"),
    'C02': dict(
        text="Theorem over every schedule of a small-step producer/queue/"
             "collector/purge model: a run that returns has collected, per "
             "path, exactly the task's result list; Return is never enabled "
             "early; no deadlock. Tie: queue/lock skeletons of _get_results/"
             "_purge_results checked inside the proofs (T1); real parallel "
             "vs per-file sequential runs and scheduler-driven real code "
             "objects vs the model (T2).",
        note="OS scheduling fairness, Manager IPC and pickling are trusted "
             "(partial).",
        tech="Coq invariant proof over all schedules + differential runs",
        ref="4/C02"),
    'C03': dict(
        text="Theorem: the sequence state machine (branch-for-branch model of "
             "_sequence_search/_process_sequence_results) reports exactly the "
             "sections of an independent parser spec, for every classified "
             "line list and definition shape; earlier sections stable; "
             "definitions independent.",
        note="pattern matching is an oracle; uuid4 section ids modelled as "
             "fresh counters (assumes no uuid collision).",
        tech="Coq refinement proof + in-Coq differential correspondence",
        ref="4/C03"),
    'C04': dict(
        text="Theorems about the model of the since-date binary seek "
             "(try_find_line_with_date, __getitem__, bisect_left, run, "
             "apply_to_file, destructive and non-destructive) against the "
             "first-in-window spec under the stated hypotheses (C04's h0-h3); "
             "every layer is a full statement (no _partial theorem).",
        note="the regex engine is an oracle (pattern -> match at start); "
             "pattern choice, field precedence and the window hand-over are "
             "extracted programs proved equal to Model/TsMatcher.v "
             "(Props/TsMatcher.v); gzip enters through C12's stream model.",
        tech="Coq proof (bisect over monotone probe) + differential "
             "correspondence with patched horizons", ref="4/C04"),
    'C05': dict(
        text="Theorem: every accessor of an exported result returns the "
             "captured (cast) value / None / tag / sequence id, under the "
             "store invariant (C15) and after any sync merge of disjoint "
             "blocks (C06).",
        note="field cast functions and re capture are oracles.",
        tech="Coq proof over the store model + differential correspondence",
        ref="4/C05"),
    'C06': dict(
        text="Theorem for every number of workers, programs, block size and "
             "schedule: if the extracted lock skeleton is well_locked then "
             "granted blocks are pairwise disjoint, every handed-out index "
             "resolves to the worker's value after sync, and no state is "
             "deadlocked; well_locked(Gen skeleton)=true by vm_compute.",
        note="multiprocessing.Lock/Manager proxies assumed atomic cells / a "
             "mutex (partial: real IPC not modelled).",
        tech="Coq invariant proof over all interleavings + scheduler-driven "
             "real code vs model", ref="4/C06"),
    'C07': dict(
        text="Theorem: a constrained search's results equal the handler run "
             "from its activation line on (code's exact activation rule, "
             "shown equal to the property's wording for one constraint / "
             "uniform undecidedness); activation sticky; neighbours "
             "unaffected; restricted files not seeked.",
        note="constraint outcome per line is an oracle computed with plain "
             "datetime.",
        tech="Coq proof over a generic per-line loop + differential "
             "correspondence", ref="4/C07"),
    'C08': dict(
        text="Theorem: results of a run do not depend on the carried state "
             "(sequence marks, constraint offset cache, stats) left by any "
             "earlier history of runs, given unchanged file contents.",
        note="stable file contents between runs assumed for the cache "
             "component.",
        tech="Coq proof (history independence) + fresh-interpreter "
             "differential runs", ref="4/C08"),
    'C09': dict(
        text="Theorem: the catalog model's kept files satisfy the `kept` "
             "relation on well-formed populations; refuted witness for "
             "log-like unnumbered names (known finding D9); merge-once and "
             "match-once. Regex strings tied to the source by vm_compute "
             "lemmas.",
        note="os.listdir/glob/isfile are inputs (real temp directories in "
             "T2); hand-written matchers for the four fixed regexes "
             "validated against re.",
        tech="Coq proof over string-level catalog model + differential "
             "correspondence", ref="4/C09"),
    'C10': dict(
        text="Theorems over a small-step model of run() with fault plans: a "
             "fired fault never reaches Return; Raise faults end clean; Exit "
             "faults end clean unless a process died owning the store lock "
             "(refuted witness = known finding D8). try/except/finally "
             "skeletons checked inside the proofs.",
        note="process teardown, signal delivery, pool breakage detection are "
             "the runtime's (partial); 'bounded time' checked against a "
             "wall-clock limit.",
        tech="Coq proof over lifecycle model + fault-injection sweep on the "
             "real code", ref="4/C10"),
    'C11': dict(
        text="Theorem: for all byte contents, offsets, H>0, A>0 the models "
             "of find_token/find_token_reverse/try_find_line return exactly "
             "the nearest line feeds / the line containing the offset, with "
             "the exact ErrMaxLine boundary; instantiated with the source's "
             "constants.",
        note="file read = slice of a byte list; BytesIO/real file semantics "
             "trusted.",
        tech="Coq refinement proof + every-offset differential correspondence "
             "with patched horizons", ref="4/C11"),
    'C12': dict(
        text="Theorem: execute()'s dispatch is total and the search result is "
             "a function of the decompressed byte list only (parametricity "
             "over a byte-file interface).",
        note="CPython GzipFile satisfying the interface laws is trusted "
             "(partial).",
        tech="Coq parametricity proof + plain/gzip/multi-member differential "
             "runs", ref="4/C12"),
    'C13': dict(
        text="Theorem: the whole-file model is total; outcome is never "
             "'other failure'; Decode iff strict policy and an invalid "
             "searched line.",
        note="termination of the real code is only observed (timeout), loop "
             "bounds tied by T1 constants.",
        tech="Coq totality/outcome proof + hostile-input differential runs",
        ref="4/C13"),
    'C14': dict(
        text="Theorems for every collection reachable by adds: len = sum, "
             "all = concat items, by-tag exact, unknown path empty, sequence "
             "sections partition the matching results.",
        note="uuid4 section ids assumed unique per (file, definition).",
        tech="Coq proof over collection model + differential correspondence",
        ref="4/C14"),
    'C15': dict(
        text="Theorem: invariant over every add history and block size: "
             "injective append-only table, None never stored, block "
             "discipline; roll-over test taken from the source (T1).",
        note="Python ==/hash classes of values supplied by the harness.",
        tech="Coq invariant proof over all histories + differential "
             "correspondence", ref="4/C15"),
    'C16': dict(
        text="Theorems ABOUT the source-translated expressions (Gen/Exprs.v): "
             "window selection, pass iff ts >= current - window, boundary "
             "passes, undated undecided, counters; proleptic Gregorian "
             "ordinal strictly monotone.",
        note="only the regex engine is an oracle (Props/TsMatcher.v ties "
             "TimestampMatcherBase and extracted_datetime to the model); "
             "datetime arithmetic is modelled and diffed against datetime.",
        tech="Coq proof about translated source expressions + differential "
             "correspondence", ref="4/C16"),
    'C17': dict(
        text="Theorem: final stats of the run model equal spec_stats "
             "(results = |collection|, lines from the positioned offset, "
             "searches per registration, jobs), independent of earlier "
             "stats.",
        note="rides on the C01/C02/C03 models; the reset dictionary, the "
             "four increments and the merge operator are read off the "
             "source (Gen/XStats.v, Gen/Exprs.v).  The same check builds "
             "Props/E2E.v, the end-to-end composition of a single-file "
             "run (E2E_single_file_run_exact, E2E_sequence_search, "
             "E2E_sequence_search_constrained for sequence definitions "
             "with constraints of their own, E2E_window_exact_on_lines) "
             "and runs its correspondence cases (harness/e2e.py).",
        tech="Coq proof over run model + differential correspondence",
        ref="4/C17"),
    'C18': dict(
        text="Theorems ABOUT the source-translated num_parallel_tasks and "
             "run() dispatch test (Gen/Exprs.v): pool size = min(files, "
             "max_parallel_tasks or 1, CPUs); a pool of n workers uses <= n "
             "distinct processes for every assignment; single file in "
             "process; one submit per catalog entry (skeleton checker); over "
             "every event sequence of run() at most one dispatch and of "
             "_run_mp() at most one pool (Model/CallCount.v); the files "
             "counted are the catalog entries.",
        note="ProcessPoolExecutor's contract (each task once, <= max_workers "
             "processes) is trusted and observed by T2 (partial).",
        tech="Coq proof about translated source expression + observed real "
             "runs", ref="4/C18"),
    'C19': dict(
        text="Theorem for every process count, programs and schedule: if the "
             "extracted cache skeletons are well_locked then operations are "
             "mutually exclusive, the history is linearizable to a per-key "
             "register, and no state deadlocks; instantiated on the Gen "
             "skeletons.",
        note="fcntl locking and the dbm backend's file handling are trusted "
             "(partial).",
        tech="Coq linearizability proof over all schedules + scheduler-driven "
             "real processes", ref="4/C19"),
}


def main():
    checks, na = [], []
    for pid in sorted(TABLE):
        t = TABLE[pid]
        have = (os.path.exists(os.path.join(V, 'harness', pid.lower() + '.py'))
                and os.path.exists(os.path.join(V, 'coq', 'Props',
                                                pid + '.v')))
        ready = open(os.path.join(V, 'tools', 'ready.txt')).read().split()
        if not have or pid not in ready:
            na.append({'property_id': pid,
                       'reason': "not claimed yet: model/theorems/"
                       "correspondence check for this property are still "
                       "being built (see DESIGN.md section 4)"})
            continue
        checks.append({
            'property_id': pid,
            'quick_cmd': f"./check {pid} --tier quick",
            'thorough_cmd': f"./check {pid} --tier thorough",
            'evidence_file': f"/verif/evidence/{pid}.json",
            'replay_cmd_template': f"./check {pid} --replay {{path}}",
            'engine': 'coq-model-proof',
            'level_claimed': {'category': 'proof', 'text': t['text'],
                              'design_ref': t['ref']},
            'level_note': COMMON_NOTE + t['note'],
            'technique': t['tech']})
    man = {
        'version': 1,
        'setup_cmd': "./setup.sh",
        'hooks': {'guard': 'SEARCHKIT_VERIF',
                  'enable': "no source hooks: instrumentation is applied by "
                            "the harness in-process before fork "
                            "(monkeypatching), nothing in /repo is guarded",
                  'baseline_off_cmd':
                      "cd /repo && /venv/bin/python -m pytest -ra -q -p "
                      "no:cacheprovider --timeout=900 "
                      "--continue-on-collection-errors",
                  'source_commits': [], 'add_only': True},
        'engines': [{'name': 'coq-model-proof', 'path': '/verif/check',
                     'serves_properties': [c['property_id'] for c in checks],
                     'kind_free_text':
                         "Coq 8.16.1 development under /verif/coq (Model, "
                         "Spec, Proofs, Props, Gen regenerated from source) "
                         "+ python correspondence harness"}],
        'checks': checks,
        'notes': "fix: commits in /repo (genuine defects repaired, D1-D13): "
                 "see known_findings.json (status fixed; a fixed entry "
                 "suppresses nothing) and DESIGN.md section 3.  One known "
                 "finding is recorded, not repaired: D14 (C12; a plain file "
                 "that begins with the gzip magic and is shorter than a gzip "
                 "header) - the C12 check prints KNOWN-FINDING for it and "
                 "exits 0.",
        'not_applicable': na}
    with open(os.path.join(V, 'MANIFEST.json'), 'w') as f:
        json.dump(man, f, indent=1)
        f.write("\n")
    print("claimed:", [c['property_id'] for c in checks])
    print("not claimed:", [n['property_id'] for n in na])


if __name__ == '__main__':
    main()
