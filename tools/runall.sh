#!/bin/sh
# tools/runall.sh [tier] : every claimed check, one after another, on /repo
tier="${1:-quick}"
for p in $(cat /verif/tools/ready.txt); do
  /verif/check $p --tier $tier > /tmp/runall_$p.log 2>&1; rc=$?
  echo "$p rc=$rc $(grep -c '^VIOLATION' /tmp/runall_$p.log) $(tail -1 /tmp/runall_$p.log)"
done
