#!/bin/sh
# global gate: no forbidden vernacular anywhere in the Coq development
cd /verif && /venv/bin/python - <<'PY'
import sys
sys.path.insert(0, 'lib')
import vlib
bad = vlib.hygiene()
print("\n".join(bad) if bad else "hygiene: clean (whole development)")
sys.exit(1 if bad else 0)
PY
