#!/bin/sh
# tools/mutrun.sh <patch.diff> <tier> <prop> [<prop> ...]
# Run checks against a scratch worktree of /repo with the patch applied, using
# private copies of the Coq build and work directories (so /repo, /verif/coq
# and /verif/evidence are untouched).  Prints one line per property.
patch="$1"; tier="$2"; shift 2
V="$(cd "$(dirname "$0")/.." && pwd)"
S=$(mktemp -d /tmp/mr.XXXXXX)
git -C /repo worktree add -q --detach "$S/repo" HEAD || exit 2
if ! git -C "$S/repo" apply "$patch" 2>/dev/null && ! git -C "$S/repo" apply --3way "$patch"; then echo "PATCH DOES NOT APPLY"; git -C /repo worktree remove --force "$S/repo"; rm -rf "$S"; exit 2; fi
cp -r "$V/coq" "$S/coq"
for p in "$@"; do
  VERIF_REPO="$S/repo" VERIF_COQ="$S/coq" VERIF_WORK="$S/work" timeout 3000 "$V/check" "$p" --tier "$tier" > "$S/$p.log" 2>&1
  rc=$?
  echo "== $p rc=$rc $(grep -c '^VIOLATION' "$S/$p.log") violation line(s): $(grep '^VIOLATION\|^KNOWN' "$S/$p.log" | head -3 | tr '\n' ' ')"
  tail -1 "$S/$p.log"
  if [ -n "$KEEP_REPLAY" ]; then mkdir -p "$KEEP_REPLAY"; cp "$S"/work/replays/* "$KEEP_REPLAY"/ 2>/dev/null; fi
done
git -C /repo worktree remove --force "$S/repo"
rm -rf "$S"
