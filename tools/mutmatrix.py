#!/usr/bin/env python3
"""Run every seeded change (seeded/<id>/patch.diff) against the check of the
property it breaks (plus optional extra checks) on scratch worktrees, and
write seeded/RESULTS.json + seeded/RESULTS.md.

usage: tools/mutmatrix.py [--jobs N] [--only C01-1,C02-3] [--tier quick]
"""
import argparse
import json
import os
import re
import subprocess
import sys
from concurrent.futures import ThreadPoolExecutor

V = os.path.dirname(os.path.dirname(os.path.abspath(__file__)))
EXTRA = {   # changes that other properties' checks should also notice
    'C01-3': ['C04', 'C17'], 'C02-1': ['C06'], 'C02-2': ['C15', 'C05', 'C06'],
    'C05-3': ['C15', 'C06'], 'C06-2': ['C15', 'C05'], 'C10-3': ['C08'],
    'C04-1': ['C08'], 'C09-2': ['C01'], 'C14-1': ['C05'], 'C05-1': ['C14'],
    'C11-3': ['C04', 'C13'], 'C04-3': ['C11'], 'C11-2': ['C04'],
    'C04-2': ['C11'], 'C13-1': ['C04'], 'C13-2': ['C16'],
}


def run_one(job):
    mid, prop, tier = job
    patch = os.path.join(V, 'seeded', mid, 'patch.diff')
    p = subprocess.run([os.path.join(V, 'tools', 'mutrun.sh'), patch, tier,
                        prop], stdout=subprocess.PIPE,
                       stderr=subprocess.STDOUT, text=True, timeout=3600)
    out = p.stdout
    m = re.search(r'== (\S+) rc=(\d+) (\d+) violation', out)
    if 'PATCH DOES NOT APPLY' in out or not m:
        return mid, prop, 'patch-error', out[-300:]
    rc, nv = int(m.group(2)), int(m.group(3))
    if rc == 0:
        verdict = 'MISSED'
    elif nv == 0:
        verdict = 'CHECK-CRASHED'
    elif 'no-failing-input-found' in out and 'witness' not in out:
        verdict = 'caught (obligation broken, no failing input found)'
    else:
        verdict = 'caught (witness)'
    last = out.strip().splitlines()[-1] if out.strip() else ''
    return mid, prop, verdict, last


def main():
    ap = argparse.ArgumentParser()
    ap.add_argument('--jobs', type=int, default=3)
    ap.add_argument('--only', default='')
    ap.add_argument('--tier', default='quick')
    ap.add_argument('--no-extra', action='store_true')
    a = ap.parse_args()
    ready = open(os.path.join(V, 'tools', 'ready.txt')).read().split()
    ids = sorted(d for d in os.listdir(os.path.join(V, 'seeded'))
                 if os.path.isdir(os.path.join(V, 'seeded', d)))
    if a.only:
        ids = [i for i in ids if i in a.only.split(',')]
    jobs = []
    for mid in ids:
        prop = mid.split('-')[0]
        props = [prop] + ([] if a.no_extra else EXTRA.get(mid, []))
        for p in props:
            if p in ready:
                jobs.append((mid, p, a.tier))
    res_path = os.path.join(V, 'seeded', 'RESULTS.json')
    try:
        results = json.load(open(res_path))
    except (OSError, ValueError):
        results = {}
    with ThreadPoolExecutor(max_workers=a.jobs) as ex:
        for mid, prop, verdict, last in ex.map(run_one, jobs):
            results.setdefault(mid, {})[prop] = {'verdict': verdict,
                                                 'summary': last}
            print(mid, prop, verdict, flush=True)
            json.dump(results, open(res_path, 'w'), indent=1, sort_keys=True)
    lines = ["# Seeded changes vs checks (" + a.tier + " tier)", "",
             "| change | breaks | what it needs | check | verdict |",
             "|---|---|---|---|---|"]
    for mid in sorted(results):
        try:
            meta = json.load(open(os.path.join(V, 'seeded', mid,
                                               'meta.json')))
        except (OSError, ValueError):
            meta = {}
        needs = str(meta.get('needs', ''))[:160].replace('|', '/').replace(
            '\n', ' ')
        for prop in sorted(results[mid]):
            lines.append(f"| {mid} | {meta.get('property', '?')} | {needs} | "
                         f"{prop} | {results[mid][prop]['verdict']} |")
    open(os.path.join(V, 'seeded', 'RESULTS.md'), 'w').write(
        "\n".join(lines) + "\n")


if __name__ == '__main__':
    sys.exit(main())
