#!/bin/sh
# tools/seedsweep.sh "<seeds>" "<props>" : run the quick tier for several
# seeds against the unchanged tree using a private work/evidence directory;
# prints one line per run (any FAIL on the unchanged tree is a false alarm
# to triage)
seeds="$1"; props="$2"
for s in $seeds; do for p in $props; do
  W=$(mktemp -d /tmp/ss.XXXXXX)
  VERIF_SEED=$s VERIF_WORK=$W timeout 3000 /verif/check $p --tier quick > $W/log 2>&1; rc=$?
  echo "seed=$s $p rc=$rc $(tail -1 $W/log)"
  [ $rc != 0 ] && { mkdir -p /tmp/ss_fail; cp -r $W /tmp/ss_fail/${p}_$s; }
  rm -rf $W
done; done
