#!/usr/bin/env python3
"""Summarise seeded/RESULTS.json per property (for DESIGN.md section 8):
seeded/SUMMARY.md"""
import json
import os
V = os.path.dirname(os.path.dirname(os.path.abspath(__file__)))
r = json.load(open(os.path.join(V, 'seeded', 'RESULTS.json')))
props = sorted({m.split('-')[0] for m in r})
lines = ["| property | changes | caught with a replayable witness | caught by a "
         "broken obligation only | missed | ids not caught with witness |",
         "|---|---|---|---|---|---|"]
tot = [0, 0, 0, 0]
for p in props:
    ids = sorted((m for m in r if m.split('-')[0] == p),
                 key=lambda x: int(x.split('-')[1]))
    w = o = miss = 0
    rest = []
    for m in ids:
        v = r[m].get(p, {}).get('verdict', 'not run')
        if v.startswith('caught (witness'):
            w += 1
        elif v.startswith('caught'):
            o += 1
            rest.append(m + ' (obligation)')
        else:
            miss += 1
            rest.append(m + f' ({v})')
    tot = [tot[0] + len(ids), tot[1] + w, tot[2] + o, tot[3] + miss]
    lines.append(f"| {p} | {len(ids)} | {w} | {o} | {miss} | "
                 f"{', '.join(rest)} |")
lines.append(f"| **all** | {tot[0]} | {tot[1]} | {tot[2]} | {tot[3]} | |")
# cross-property extras
extra = []
for m in sorted(r):
    for p, v in r[m].items():
        if p != m.split('-')[0]:
            extra.append(f"{m} also run against {p}: {v['verdict']}")
out = "\n".join(lines) + "\n\n" + "\n".join("* " + e for e in extra) + "\n"
open(os.path.join(V, 'seeded', 'SUMMARY.md'), 'w').write(out)
print(out)
