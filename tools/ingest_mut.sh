#!/bin/sh
# tools/ingest_mut.sh <prop> <n> : independently confirm a sub-agent's change
# (/tmp/mut/<prop>_out/<n>/) in a fresh scratch worktree and, if confirmed,
# keep it as /verif/seeded/<prop>-<n>/.
prop="$1"; n="$2"
src="${MUT_ROOT:-/tmp/mut}/${prop}_out/$n"; out_n=$((n + ${MUT_OFFSET:-0}))
[ -f "$src/patch.diff" ] || { echo "$prop-$n: no patch"; exit 2; }
demo=$(ls "$src"/demo*.py 2>/dev/null | head -1)
[ -n "$demo" ] || { echo "$prop-$n: no demo"; exit 2; }
S=$(mktemp -d /tmp/ing.XXXXXX)
git -C /repo worktree add -q --detach "$S/w" HEAD || exit 2
cd "$S/w"
SK_REPO="$S/w" PYTHONPATH="$S/w" setsid timeout -s KILL 300 /venv/bin/python "$demo" > "$S/demo_clean.log" 2>&1; rc_clean=$?
if ! git apply "$src/patch.diff" 2>/dev/null && ! git apply --3way "$src/patch.diff"; then echo "$prop-$n: PATCH DOES NOT APPLY"; cd /; git -C /repo worktree remove --force "$S/w"; rm -rf "$S"; exit 2; fi
SK_REPO="$S/w" PYTHONPATH="$S/w" setsid timeout -s KILL 300 /venv/bin/python "$demo" > "$S/demo_mut.log" 2>&1; rc_mut=$?
PYTHONPATH="$S/w" setsid timeout -s KILL 900 /venv/bin/python -m pytest -q -p no:cacheprovider --timeout=900 > "$S/suite.log" 2>&1
suite=$(tail -1 "$S/suite.log")
failed=$(grep '^FAILED' "$S/suite.log" | grep -v test_mpcache_simple | head -3)
ok=1
[ "$rc_clean" = 0 ] || ok=0
[ "$rc_mut" != 0 ] || ok=0
echo "$suite" | grep -q "1 failed, 83 passed" || ok=0
[ -z "$failed" ] || ok=0
echo "$prop-$n: demo clean rc=$rc_clean, demo mutated rc=$rc_mut, suite: $suite ${failed:+EXTRA FAIL: $failed} => $( [ $ok = 1 ] && echo CONFIRMED || echo REJECTED )"
if [ $ok = 1 ]; then
  d="/verif/seeded/$prop-$out_n"; mkdir -p "$d"
  git -C "$S/w" diff HEAD > "$d/patch.diff"; cp "$demo" "$d/$(basename "$demo")"
  /venv/bin/python - "$src/meta.json" "$d/meta.json" "$prop" "$suite" <<'PY'
import json, sys
src, dst, prop, suite = sys.argv[1:5]
try:
    m = json.load(open(src))
except Exception:
    m = {}
m['property'] = prop
m['confirmed_by_coordinator'] = {
    'scratch': 'fresh git worktree of /repo HEAD under /tmp, removed afterwards',
    'demo_unmodified_rc': 0, 'demo_modified_rc': 'non-zero',
    'suite': suite.strip(),
    'ran': ['demo on unmodified worktree', 'git apply patch.diff',
            'demo on modified worktree',
            'python -m pytest -q -p no:cacheprovider --timeout=900 (modified worktree)']}
json.dump(m, open(dst, 'w'), indent=1)
PY
fi
cd /; pkill -KILL -s 0 -f "$S/w" 2>/dev/null
git -C /repo worktree remove --force "$S/w"; rm -rf "$S"
