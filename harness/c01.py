"""C01 - simple search reports exactly the matching lines, in order, captures
intact.

Proof side: Props/C01.v (Model/Task.v refines Spec/Task.v for every oracle,
every line list, every definition list; flush loop lossless for every
MAX >= 1; instantiated with the constants regenerated from the source).

Correspondence side (this file): the REAL FileSearcher.run() on generated
single files versus
  (a) the Coq model `simple_execute` fed with the oracle tables (what
      re.match / re.search / bytes.decode answer, computed here with plain
      Python, never through searchkit), evaluated inside Coq, and
  (b) the Coq specification `spec_simple` evaluated on the same tables.
Verdict: implementation != spec -> witness (the input is in the detail);
implementation == spec but != model -> no-failing-input-found.
"""
import json
import os
import re
import signal

import vlib

PROPS = ['Props/C01.v']

# ------------------------------------------------------------------ pools
TOKENS = ['aa', 'bb', 'ab', 'ERR', 'warn', '12', '7', 'x=3', '[k]', 'a',
          'aaa', 'bbb', 'x=9', '345', 'b']

PATTERNS = [
    # no groups
    r'aa', r'bb', r'^aa', r'aa$', r'aa\b', r'.*ERR', r'.+bb', r'ERR',
    r'.*\bbb\b.*$', r'$', r'\s*$', r'[^\n]*\n', r'(?s).*', r'\d+ \d+',
    r'(?:aa|bb) ', r'.{8000,}', r'warn|ERR',
    # one group
    r'(\w+)', r'(aa|bb)', r'aa (\w+)', r'.*(ERR)', r'(\d+)', r'\s*(\S+)\s*$',
    r'.*x=(\d)', r'(.*)', r'(?:aa|bb) (?P<n>\d+)', r'\x00?(\w+)',
    r'.*?(\w+)$', r'(?:.*ERR)?(.)', r'(a*)',
    # two groups, optional / alternation
    r'(\w+) (\w+)', r'(\S+) (\d+)?', r'(aa)?(bb)?', r'(.*?)(\r?)$',
    r'.*?(\d+).*?(\d+)?', r'(aa|(bb)) ', r'(?P<k>\w+)=(?P<v>\d)',
    # three / four groups, nested
    r'((a+)|(b+))', r'(\w+)( \w+)?( \w+)?', r'(a)(a)( )(b)',
    r'((\w)(\w)) (x=(\d))?', r'(?:(aa)|(bb)|(ab)) ?(\S*)',
    r'(\S+) (\S+) (\S+) (\S+)', r'.{8000,}(aa)?( )?',
]

HINTS = [r'ERR', r'\d', r'bb', r'zz', r'^aa', r'aa$', r' ', r'x=', r'\r',
         r'warn$']

TAGS = ['t0', 't1', 't2', 't3', None]

POLICIES = [None, 'ignore', 'replace', 'backslashreplace']


# -------------------------------------------------------------- generators
def gen_line(rng, lenient):
    """ one line without its terminator, as bytes """
    k = rng.random()
    if k < 0.07:
        body = ''
    elif k < 0.12:
        body = ' ' * rng.randint(1, 3)
    else:
        n = rng.choice([1, 1, 2, 2, 3, 3, 4, 5, 6])
        body = ' '.join(rng.choice(TOKENS) for _ in range(n))
        if rng.random() < 0.08:
            body = ' ' + body
        if rng.random() < 0.06:
            body = body.replace(' ', '\t', 1)
        if rng.random() < 0.05:
            body = body.replace(' ', '  ', 1)
    bads = []
    r = rng.random()
    if r < 0.06:
        pos = rng.randint(0, len(body))
        body = body[:pos] + '\x00' + body[pos:]
    elif r < 0.12:
        ch = rng.choice(['\u00e9', '\u20ac', '\U0001d11e', '\u00df'])
        pos = rng.randint(0, len(body))
        body = body[:pos] + ch + body[pos:]
    if lenient and rng.random() < 0.15:
        bads.append(rng.choice([b'\xff', b'\xc3', b'\xe2\x82', b'\x80',
                                b'\xf0\x9f', b'\xc0\xaf', b'\xed\xa0\x80']))
        pos = rng.randint(0, len(body))
        body = body[:pos] + '\ue000' + body[pos:]    # placeholder
    if rng.random() < 0.10:
        body += '\r'
    if rng.random() < 0.02:
        pos = rng.randint(0, len(body))
        body = body[:pos] + '\r' + body[pos:]
    b = body.encode()
    for bad in bads:
        b = b.replace('\ue000'.encode(), bad, 1)
    return b


def gen_content(rng, lenient, nlines=None, long_ok=True):
    if nlines is None:
        nlines = rng.choice([0, 1, 1, 2, 3, 5, 8, 8, 12, 20, 30])
    lines = [gen_line(rng, lenient) for _ in range(nlines)]
    if long_ok and nlines and rng.random() < 0.05:
        i = rng.randrange(nlines)
        unit = rng.choice([b'aa ', b'bb ', b'x=3 ', b'a'])
        size = 66000 if rng.random() < 0.2 else 8300
        lines[i] = unit * (size // len(unit) + rng.randint(0, 40)) + \
            rng.choice([b'', b'ERR', b'bb', b'aa'])
    content = b'\n'.join(lines)
    if nlines and rng.random() < 0.8:
        content += b'\n'
    if content[:2] == b'\x1f\x8b':        # gzip magic: C12's business
        content = b'a' + content
    return content


def gen_defs(rng, ndefs=None):
    if ndefs is None:
        ndefs = rng.choice([1, 1, 2, 2, 3, 4, 5, 6])
    shared = rng.random() < 0.4
    tags = list(TAGS)
    rng.shuffle(tags)
    defs = []
    for i in range(ndefs):
        npat = rng.choice([1, 1, 1, 2, 2, 3])
        pats = [rng.choice(PATTERNS) for _ in range(npat)]
        if npat > 1 and rng.random() < 0.5:
            # a first pattern that rarely matches so that a later one decides
            pats[0] = rng.choice([r'zz', r'bbb (\d)', r'ERR$', r'(\d\d\d)',
                                  r'aa aa (aa)?'])
        hint = rng.choice(HINTS) if rng.random() < 0.4 else None
        if shared and i > 0 and rng.random() < 0.6:
            tag = defs[rng.randrange(len(defs))]['tag']
        else:
            tag = tags[i % len(tags)]
        defs.append({'patterns': pats, 'hint': hint,
                     'store': rng.random() < 0.8, 'tag': tag,
                     'as_list': npat > 1 or rng.random() < 0.3,
                     'cons': []})
    reg = list(range(ndefs))
    if rng.random() < 0.3:
        reg.insert(rng.randint(0, len(reg)), rng.randrange(ndefs))
    if rng.random() < 0.1:
        reg.append(rng.randrange(ndefs))
    return defs, reg


def gen_case(rng, patch=None, nlines=None):
    policy = rng.choice(POLICIES)
    content = gen_content(rng, policy is not None, nlines)
    defs, reg = gen_defs(rng)
    return {'content_hex': content.hex(), 'policy': policy, 'defs': defs,
            'reg': reg, 'patch': patch}


def threshold_case(rng, nbuf, mx, nresults):
    """ a file on which one always-matching definition (plus a neighbour)
    yields around `nresults` results, with patched flush constants """
    lines = []
    for _ in range(nresults):
        lines.append(rng.choice([b'aa 12', b'bb 7', b'ab x=3']))
    # sprinkle non-matching lines
    for _ in range(rng.randint(1, 3)):
        lines.insert(rng.randint(0, len(lines)), b'')
    content = b'\n'.join(lines) + b'\n'
    defs = [{'patterns': [r'(\w+) (\S+)'], 'hint': None, 'store': True,
             'tag': 't0', 'as_list': False, 'cons': []}]
    reg = [0]
    if rng.random() < 0.5:
        defs.append({'patterns': [r'zz', r'bb (\d)'], 'hint': None,
                     'store': True, 'tag': 't1', 'as_list': True,
                     'cons': []})
        reg.append(1)
    return {'content_hex': content.hex(), 'policy': None, 'defs': defs,
            'reg': reg, 'patch': [nbuf, mx]}


def big_case(rng, nresults):
    """ real constants: exactly `nresults` results (>= 20) on one file """
    n0 = nresults - 4
    lines = [b'aa 12'] * (n0 - 6) + [b'', b'bb 7', b'zz', b'aa 345',
                                     b'bb 7', b'aa 12', b'x', b'ab 7',
                                     b'aa 12', b'aa 7', b'ab 12']
    content = b'\n'.join(lines) + b'\n'
    defs = [{'patterns': [r'(\w\w) (\d+)'], 'hint': None, 'store': True,
             'tag': 't0', 'as_list': False, 'cons': []},
            {'patterns': [r'bb'], 'hint': r'7', 'store': True,
             'tag': 't1', 'as_list': False, 'cons': []}]
    return {'content_hex': content.hex(), 'policy': None, 'defs': defs,
            'reg': [0, 1], 'patch': None}


# ------------------------------------------------------------------ oracle
def split_lines(content):
    """ what iterating a binary file yields: split after every LF """
    return re.findall(rb'[^\n]*\n|[^\n]+', content)


class Ids:
    """ value -> small integer (None -> 0) """
    def __init__(self):
        self.map = {None: 0}

    def __call__(self, v):
        if v not in self.map:
            self.map[v] = len(self.map)
        return self.map[v]


def tag_ids(case):
    ids = {}
    for d in case['defs']:
        if d['tag'] not in ids:
            ids[d['tag']] = 100 + len(ids)
    return ids


def tag_shared(case):
    """ tag -> True when its result list is compared as a multiset (sorted):
    several registered definitions share the tag, or it belongs to a
    sequence definition (sections come back in dict order).  The results of
    a tag owned by ONE simple definition are compared in collection order:
    the property demands ascending line order. """
    out = {}
    for tag in tag_ids(case):
        owners = [i for i in set(case['reg'])
                  if case['defs'][i]['tag'] == tag]
        out[tag] = len(owners) != 1 or \
            bool(case['defs'][owners[0]].get('seq'))
    return out


def tabulate(case, con_outcome=None):
    """ the oracle tables of a case.  Returns (list of decoded lines' tables,
    pattern ids, hint ids, value ids).  A table = (matches, hints, cons) with
    matches = [(pid, [value ids of group 0, 1, ..])].
    con_outcome(cid, text) -> 'Pass' | 'Fail' | 'Undecided' (C07) """
    content = bytes.fromhex(case['content_hex'])
    kw = {'errors': case['policy']} if case['policy'] else {}
    pids, hids = {}, {}
    for d in case['defs']:
        for p in d['patterns']:
            pids.setdefault(p, len(pids) + 1)
        if d['hint']:
            hids.setdefault(d['hint'], len(hids) + 1)
    cids = sorted({c for d in case['defs'] for c in d.get('cons', [])})
    cpat = {p: re.compile(p) for p in pids}
    chint = {h: re.compile(h) for h in hids}
    vals = Ids()
    tables = []
    for raw in split_lines(content):
        text = raw.decode('utf-8', **kw)
        ms = []
        for p, pid in pids.items():
            m = cpat[p].match(text)
            if m:
                ms.append((pid, [vals(m.group(0))] +
                           [vals(g) for g in m.groups()]))
        hs = [hid for h, hid in hids.items() if chint[h].search(text)]
        cs = []
        if con_outcome is not None:
            cs = [(c, con_outcome(c, text)) for c in cids]
        tables.append((ms, hs, cs))
    return tables, pids, hids, vals


def coq_tline(t):
    ms, hs, cs = t
    return ("mkTline [" + "; ".join(f"({p}, {vlib.zl(g)})" for p, g in ms)
            + "] " + vlib.zl(hs) + " ["
            + "; ".join(f"({c}, {o})" for c, o in cs) + "]")


def coq_lines(tables):
    """ run-length encoded list of tline terms """
    terms = [coq_tline(t) for t in tables]
    segs, i = [], 0
    while i < len(terms):
        j = i
        while j < len(terms) and terms[j] == terms[i]:
            j += 1
        if j - i >= 16:
            segs.append(f"repeatN ({terms[i]}) {j - i}%N")
        else:
            if segs and segs[-1].startswith('['):
                segs[-1] = segs[-1][:-1] + "; " + \
                    "; ".join(terms[i:j]) + "]"
            else:
                segs.append("[" + "; ".join(terms[i:j]) + "]")
        i = j
    if not segs:
        return "(@nil tline)"
    return "(" + " ++ ".join(segs) + ")"


def coq_def(key, d, pids, hids, tids):
    hint = f"(Some {hids[d['hint']]})" if d['hint'] else "None"
    return (f"mkSdef {key} {vlib.zl([pids[p] for p in d['patterns']])} "
            f"{hint} {'true' if d['store'] else 'false'} {tids[d['tag']]} "
            f"{vlib.zl(d.get('cons', []))}")


def coq_case(case, tables, pids, hids, consts="TRANSIT_MAX, "
             "NUM_BUFFERED_RESULTS"):
    tids = tag_ids(case)
    if case['patch']:
        consts = f"{case['patch'][1]}, {case['patch'][0]}"
    ds = "[" + "; ".join("(" + coq_def(i + 1, case['defs'][i], pids, hids,
                                       tids) + ")"
                         for i in case['reg']) + "]"
    seen, uds = set(), []
    for i in case['reg']:
        if i not in seen:
            seen.add(i)
            uds.append("(" + coq_def(i + 1, case['defs'][i], pids, hids, tids)
                       + ")")
    shared = tag_shared(case)
    tags = "[" + "; ".join(f"({tids[t]}, {'true' if shared[t] else 'false'})"
                           for t in tids) + "]"
    return (f"({consts}, {tags}, {ds}, [" + "; ".join(uds) + "], "
            + coq_lines(tables) + ")")


PREAMBLE = r"""
From SK Require Import Model.Task Spec.Task Gen.Params.
(* canonical order on jv, = python's order on nested lists of ints *)
Fixpoint jv_cmp (a b : jv) {struct a} : comparison :=
  match a, b with
  | JZ x, JZ y => Z.compare x y
  | JZ _, JL _ => Lt
  | JL _, JZ _ => Gt
  | JL xs, JL ys =>
      (fix go (xs ys : list jv) {struct xs} : comparison :=
         match xs, ys with
         | [], [] => Eq
         | [], _ => Lt
         | _, [] => Gt
         | x :: xs', y :: ys' =>
             match jv_cmp x y with Eq => go xs' ys' | c => c end
         end) xs ys
  end.
Fixpoint jinsert (x : jv) (l : list jv) : list jv :=
  match l with
  | [] => [x]
  | y :: r => match jv_cmp x y with Gt => y :: jinsert x r | _ => x :: l end
  end.
Definition jsort (l : list jv) : list jv := fold_right jinsert [] l.
(* run-length encoding of an ordered list of [ln; parts]: runs of consecutive
   line numbers with equal parts become [first ln; count; parts] (injective;
   keeps the cases files small when there are thousands of results) *)
Fixpoint rle_go (start cnt : Z) (parts : jv) (l : list jv) : list jv :=
  match l with
  | [] => [JL [JZ start; JZ cnt; parts]]
  | JL [JZ ln; p] :: r =>
      if (ln =? start + cnt) && jv_eqb p parts
      then rle_go start (cnt + 1) parts r
      else JL [JZ start; JZ cnt; parts] :: rle_go ln 1 p r
  | _ :: r => rle_go start cnt parts r
  end.
Definition rle (l : list jv) : list jv :=
  match l with
  | JL [JZ ln; p] :: r => rle_go ln 1 p r
  | _ => []
  end.
Definition parts_jv (ps : list (Z * Z)) : jv :=
  JL (map (fun p => JL [JZ (fst p); JZ (snd p)]) ps).
Definition res_jv (r : result) : jv := JL [JZ (r_ln r); parts_jv (r_parts r)].
Definition obs_jv (o : Z * list (Z * Z)) : jv :=
  JL [JZ (fst o); parts_jv (snd o)].
Definition case : Type :=
  Z * Z * list (Z * bool) * list sdef * list sdef * list tline.
(* a tag owned by one definition: collection order as it is (the property
   demands ascending line numbers); a shared tag: canonical order *)
Definition canon (shared : bool) (l : list jv) : list jv :=
  if shared then jsort l else l.
(* observable: number of results, and per tag the list of
   (line number, [(part index, value)]), run-length encoded *)
Definition run_model (c : case) : jv :=
  let '(mx, nb, tags, ds, uds, lines) := c in
  match simple_execute tline t_omatch t_ohint t_ocon mx nb ds lines with
  | TaskHangs => JL [JZ (-2)]
  | TaskOk bs =>
      let rs := concat bs in
      JL [JZ (lenZ rs);
          JL (map (fun t => JL (rle (canon (snd t) (map res_jv
                 (filter (fun r => r_tag r =? fst t) rs))))) tags)]
  end.
Definition run_spec (c : case) : jv :=
  let '(mx, nb, tags, ds, uds, lines) := c in
  let per d := spec_constrained tline t_omatch t_ohint t_ocon d lines in
  JL [JZ (lenZ (flat_map per uds));
      JL (map (fun t => JL (rle (canon (snd t) (flat_map
             (fun d => if s_tag d =? fst t then map obs_jv (per d) else [])
             uds)))) tags)].
"""


# ---------------------------------------------------------- implementation
EXC_NAMES = {}


def failed(name):
    """ observable of a run that raised / did not finish: [-1, [code]] """
    code = sum(map(ord, name)) + 1000 * len(name)
    EXC_NAMES[code] = name
    return [-1, [code]]


RUN_LIMIT = 20          # seconds per in-process run (normal: milliseconds)
TIMEOUTS = [0]          # runs that hit the limit so far


class RunTimeout(BaseException):
    """ the in-process run did not finish (e.g. the flush loop spins) """


class time_limit:  # pylint: disable=invalid-name
    """ hard limit for an in-process (single file) run """
    def __init__(self, seconds):
        self.seconds = seconds

    def _fire(self, *_):
        raise RunTimeout()

    def __enter__(self):
        self.old = signal.signal(signal.SIGALRM, self._fire)
        # repeating: the task re-enters its flush loop in a `finally`
        signal.setitimer(signal.ITIMER_REAL, self.seconds, 0.5)

    def __exit__(self, *exc):
        signal.setitimer(signal.ITIMER_REAL, 0)
        signal.signal(signal.SIGALRM, self.old)
        return False


def build_searchdefs(case, constraints=None):
    from searchkit import SearchDef
    sds = []
    for d in case['defs']:
        pat = d['patterns'] if d['as_list'] else d['patterns'][0]
        kw = {}
        if constraints is not None and d.get('cons'):
            kw['constraints'] = [constraints[c] for c in d['cons']]
        sds.append(SearchDef(pat, tag=d['tag'], hint=d['hint'],
                             store_result_contents=d['store'], **kw))
    return sds


def observe(res, path, case, vals):
    """ canonical observable of a SearchResultsCollection for one file """
    tids = tag_ids(case)
    shared = tag_shared(case)
    per_tag = []
    for tag in tids:
        lst = []
        for r in res.find_by_tag(tag, path):
            values = list(r)
            idxs = [p[0] for p in r.data]
            if len(values) != len(idxs) or \
                    any(r.get(i) != v for i, v in zip(idxs, values)):
                lst.append([-7, []])     # iteration and get() disagree
                continue
            lst.append([r.linenumber,
                        [[i, vals(v)] for i, v in zip(idxs, values)]])
        per_tag.append(rle(sorted(lst) if shared[tag] else lst))
    return [len(res.find_by_path(path)), per_tag]


def rle(lst):
    """ [[ln, parts]] ordered -> [[first ln, count, parts]] (as in the Coq
    preamble) """
    out = []
    for ln, parts in lst:
        if out and ln == out[-1][0] + out[-1][1] and parts == out[-1][2]:
            out[-1][1] += 1
        else:
            out.append([ln, 1, parts])
    return out


def run_impl(case, path, vals):
    from searchkit import FileSearcher
    import searchkit.task as T
    with open(path, 'wb') as f:
        f.write(bytes.fromhex(case['content_hex']))
    sds = build_searchdefs(case)
    fs = FileSearcher(decode_errors=case['policy'])
    for i in case['reg']:
        fs.add(sds[i], path)
    saved = (T.NUM_BUFFERED_RESULTS, T.QueueTransitBuffer.MAX)
    try:
        if case['patch']:
            T.NUM_BUFFERED_RESULTS, T.QueueTransitBuffer.MAX = case['patch']
        if TIMEOUTS[0] >= 3:
            # the implementation keeps hanging: do not spend the budget
            return failed('RunTimeout')
        try:
            with time_limit(RUN_LIMIT):
                res = fs.run()
        except RunTimeout:
            TIMEOUTS[0] += 1
            return failed('RunTimeout')
        except Exception as exc:  # pylint: disable=broad-except
            return failed(type(exc).__name__)
    finally:
        T.NUM_BUFFERED_RESULTS, T.QueueTransitBuffer.MAX = saved
    return observe(res, path, case, vals)


def nontrivial(case, tables, pids, hids):
    """ some registered definition matches a line and misses another """
    for i in set(case['reg']):
        d = case['defs'][i]
        hit = miss = False
        for ms, hs, _ in tables:
            ok = (not d['hint'] or hids[d['hint']] in hs) and \
                any(pids[p] in dict(ms) for p in d['patterns'])
            hit, miss = hit or ok, miss or not ok
        if hit and miss:
            return True
    return False


def classify(chk, case, tables, want):
    content = bytes.fromhex(case['content_hex'])
    chk.dist('lines=%s' % (0 if not tables else 1 if len(tables) == 1 else
                           '2-9' if len(tables) < 10 else
                           '10-99' if len(tables) < 100 else '100+'))
    chk.dist('policy=%s' % case['policy'])
    if content and not content.endswith(b'\n'):
        chk.dist('no-final-newline')
    if b'\r' in content:
        chk.dist('has-CR')
    if b'\x00' in content:
        chk.dist('has-NUL')
    if b'\n\n' in content or content.startswith(b'\n'):
        chk.dist('has-empty-line')
    if any(len(x) > 8192 for x in split_lines(content)):
        chk.dist('line>8KiB')
    try:
        content.decode('utf-8')
    except UnicodeDecodeError:
        chk.dist('non-utf8')
    if len(case['reg']) != len(set(case['reg'])):
        chk.dist('def-registered-twice')
    tags = [case['defs'][i]['tag'] for i in set(case['reg'])]
    if len(tags) != len(set(tags)):
        chk.dist('shared-tag')
    if any(len(d['patterns']) > 1 for d in case['defs']):
        chk.dist('multi-pattern')
    if any(d['hint'] for d in case['defs']):
        chk.dist('hint')
    if any(not d['store'] for d in case['defs']):
        chk.dist('store-off')
    if case['patch']:
        chk.dist('patched-constants')
    n = want[0] if isinstance(want[0], int) else -1
    chk.dist('results=%s' % ('0' if n == 0 else '1-9' if n < 10 else
                             '10-99' if n < 100 else '100-9999'
                             if n < 10000 else '>=10000'))


def first_pattern_loses(case, tables, pids):
    """ a line on which the first pattern of a list fails and a later one
    matches, or on which several match with different groups """
    for i in set(case['reg']):
        ps = [pids[p] for p in case['defs'][i]['patterns']]
        if len(ps) < 2:
            continue
        for ms, _, _ in tables:
            m = dict(ms)
            if ps[0] not in m and any(p in m for p in ps[1:]):
                return 'later-pattern-decides'
            hit = [m[p] for p in ps if p in m]
            if len(hit) > 1 and hit[0] != hit[1]:
                return 'several-patterns-match-differently'
    return None


# ---------------------------------------------------------------- evaluate
def evaluate(chk, cases, tag='c01', con_outcome=None, impl=None,
             shard=40):
    """ run every case through the implementation, the Coq model and the Coq
    spec; record violations.  Returns the implementation observables. """
    work = os.path.join(chk.work, 'files')
    os.makedirs(work, exist_ok=True)
    path = os.path.join(work, f'{tag}.log')
    terms, wants, keep = [], [], []
    seen = set()
    for case in cases:
        tables, pids, hids, vals = tabulate(case, con_outcome)
        if impl is None:
            want = run_impl(case, path, vals)
        else:
            want = impl(case, path, vals)
        terms.append(coq_case(case, tables, pids, hids))
        wants.append(want)
        keep.append(case)
        classify(chk, case, tables, want)
        fp = first_pattern_loses(case, tables, pids)
        if fp:
            chk.dist(fp)
        chk.coverage['evaluations'] += 1
        key = json.dumps(case, sort_keys=True)
        if key not in seen and nontrivial(case, tables, pids, hids):
            seen.add(key)
            chk.coverage['distinct_nontrivial'] += 1
    try:
        os.unlink(path)
    except OSError:
        pass
    m_model, e1 = vlib.eval_cases(chk.work, f'{tag}_model', '', PREAMBLE,
                                  'run_model', terms, wants, shard=shard)
    m_spec, e2 = vlib.eval_cases(chk.work, f'{tag}_spec', '', PREAMBLE,
                                 'run_spec', terms, wants, shard=shard)
    for e in e1 + e2:
        chk.broken.append({'obligation': f'correspondence {tag} (coqc on a '
                           'cases file)', 'why': e})
    spec_bad = {i for i, _ in m_spec}
    for i, v in m_spec:
        if i < 0:
            chk.broken.append({'obligation': f'correspondence {tag}',
                               'why': 'length mismatch in cases file'})
            continue
        chk.violation(sig_of(keep[i], wants[i], v),
                      {'what': 'implementation output differs from the '
                       'specification on this input',
                       'case': keep[i], 'implementation': brief(wants[i]),
                       'specification': brief(v)}, witness=True)
    for i, v in m_model:
        if i < 0 or i in spec_bad:
            continue
        chk.violation('model-vs-impl ' + sig_of(keep[i], wants[i], v),
                      {'what': 'implementation agrees with the specification '
                       'but not with the model', 'case': keep[i],
                       'implementation': brief(wants[i]),
                       'model': brief(v)}, witness=False)
    return wants


def brief(v, limit=4000):
    s = json.dumps(v)
    return v if len(s) <= limit else s[:limit] + '...'


def sig_of(case, want, other):
    """ short stable description of the failing shape """
    if isinstance(want, list) and want and want[0] == -1:
        return f"exception {EXC_NAMES.get(want[1][0], want[1][0])}"
    try:
        wn, on = want[0], other[0]
        if wn > on:
            return "spurious-or-duplicate-results"
        if wn < on:
            return "missing-results"
        for wt, ot in zip(want[1], other[1]):
            if wt != ot:
                def flat(t):
                    return sorted((x[0] + k, str(x[2])) for x in t
                                  for k in range(x[1]))
                if flat(wt) == flat(ot):
                    return "results-out-of-order"
                if [x[0] for x in wt] != [x[0] for x in ot]:
                    return "wrong-line-numbers"
                return "wrong-captures"
    except (TypeError, IndexError):
        pass
    return "results-differ"


# --------------------------------------------------------------------- run
def run(chk):
    chk.prove(PROPS)
    rng = chk.rng
    chk.coverage['rule'] = (
        "random single files over a 15-token alphabet (empty lines, CR, "
        "NUL, multi-byte and - under the lenient policies - invalid UTF-8, "
        "with/without final newline, a few lines > 8 KiB) x 1-6 "
        "SearchDefs drawn from 46 patterns (anchored, unanchored, "
        "mid-line-only, 0-4 groups incl. optional/nested/alternation), 1-3 "
        "patterns per definition, hints, store_result_contents on/off, "
        "shared/distinct/None tags, a definition registered twice; plus "
        "files sized around the flush thresholds with "
        "NUM_BUFFERED_RESULTS/QueueTransitBuffer.MAX patched to small "
        "values, time-ordered logs searched through a real file-level "
        "SearchConstraintSearchSince that skips a prefix (line numbers "
        "must restart at 1 at the first line searched; expected position "
        "computed from the timestamps with plain datetime) and one "
        "real-constants file with > 10 010 results.  Each "
        "case: real FileSearcher.run() vs Coq model vs Coq spec (evaluated "
        "by vm_compute on the tabulated re/decode oracles).  Non-trivial = "
        "some registered definition matches at least one line and misses "
        "at least one line")
    n = 450 if chk.quick else 3000
    cases = [gen_case(rng) for _ in range(n)]
    # flush thresholds with patched constants (nbuf, max)
    patches = [(3, 2), (7, 3), (5, 10), (1, 1), (4, 4), (2, 5), (10, 3)]
    reps = 1 if chk.quick else 4
    for nbuf, mx in patches:
        for _ in range(reps):
            for k in sorted({0, 1, nbuf - 1, nbuf, nbuf + 1, nbuf + mx - 1,
                             nbuf + mx, nbuf + mx + 1, 2 * nbuf,
                             2 * nbuf + 1, 3 * nbuf + mx + 2}):
                if k >= 0:
                    cases.append(threshold_case(rng, nbuf, mx, k))
    for _ in range(40 if chk.quick else 300):
        nbuf, mx = rng.choice(patches)
        cases.append(gen_case(rng, patch=[nbuf, mx],
                              nlines=rng.choice([8, 12, 20, 30, 45])))
    wants = evaluate(chk, cases, 'c01')
    for case, want in list(zip(cases, wants))[:3]:
        chk.sample({'case': case, 'implementation': brief(want, 600)})
    # line numbers count from the first line SEARCHED: a real file-level
    # SearchConstraintSearchSince on time-ordered logs whose window starts at
    # (or just before) one of the lines, so that the seek skips a prefix
    import c07

    def seek_nontrivial(case, tables, pos, want):
        chk.dist('file-level-seek skipped=%s' % (
            '0' if not pos else 'all' if pos >= len(tables) else '1+'))
        return 0 < pos < len(tables) and want[0] > 0
    gcases = [c07.gen_global_case(rng) for _ in range(80 if chk.quick
                                                      else 800)]
    done = c07.evaluate(chk, gcases, 'c01seek', nontrivial=seek_nontrivial)
    for case, want in done[:1]:
        chk.sample({'file_level_case': case,
                    'implementation': brief(want, 600)})
    # a constrained neighbour registered first must not hide lines from the
    # other searches of the file
    ncases = [c07.gen_neighbour_case(rng) for _ in range(50 if chk.quick
                                                         else 500)]
    c07.evaluate(chk, ncases, 'c01nb',
                 nontrivial=lambda case, tables, pos, want: want[0] > 0)
    # real constants, > NUM_BUFFERED_RESULTS + MAX results
    import searchkit.task as T
    nbuf, mx = T.NUM_BUFFERED_RESULTS, T.QueueTransitBuffer.MAX
    if 20 <= nbuf <= 40000 and 0 < mx <= 1000:
        targets = [nbuf + mx + 15]
        if not chk.quick:
            targets += [nbuf - 1, nbuf, nbuf + 1, nbuf + mx, 2 * nbuf + 3]
        bigs = [big_case(rng, t) for t in targets]
        bw = evaluate(chk, bigs, 'c01big', shard=1)
        for t, w in zip(targets, bw):
            chk.dist('real-constants-results=%s' % w[0])
            if w[0] != t:
                chk.notes.append(f"big case aimed at {t} results, the "
                                 f"implementation reported {w[0]}")
        chk.sample({'big_case_results': [w[0] for w in bw]})
    else:
        chk.notes.append("flush constants outside the range of the real-"
                         "constants case; thresholds covered by the patched "
                         "runs only")
    chk.assumptions += [
        "re.match/re.search/bytes.decode are deterministic functions of "
        "(pattern, decoded line) and searchkit passes them the line "
        "unchanged (oracles tabulated with plain Python)",
        "iterating a binary file yields the maximal LF-terminated pieces "
        "(the harness splits the content the same way)",
        "distinct SearchDef objects have distinct identities (keys_ok)"]


def replay(chk, path):
    with open(path, encoding='utf-8') as f:
        rec = json.load(f)
    case = rec.get('witness', {}).get('case')
    if not case:
        print("replay file carries no case")
        return 2
    chk.prove(PROPS)
    evaluate(chk, [case], 'c01replay')
    return chk.finish()
