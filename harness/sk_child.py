#!/venv/bin/python
"""Run searchkit (from SK_REPO) on a JSON recipe and print a canonical JSON
observation.  Used in-process (import and call `execute(recipe)`) or as a
fresh interpreter: `sk_child.py recipe.json` -> one JSON line on stdout.

recipe = {
  "dir": base directory (files already materialised by the caller),
  "constraints": [{"current": "2022-01-10 00:00:00", "days": 0, "hours": 24,
                   "use_defaults": false}],
  "defs": [ {"kind": "simple", "patterns": [..], "tag": str|null,
             "hint": str|null, "store": bool, "fields": [names]|null,
             "constraints": [idx..]}
          | {"kind": "seq", "tag": str, "start": <simple>, "body": <simple>|null,
             "end": <simple>|null, "constraints": [idx..]} ],
  "runs": [ {"global": idx|null, "decode_errors": str|null,
             "max_parallel_tasks": int, "max_logrotate_depth": int,
             "adds": [[def_idx, path, allow_global_bool], ...],
             "new_searcher": bool} ... ]   # a history of run() calls
}
Definition / constraint objects are created ONCE per recipe and shared by all
runs of the history (that is what C08 is about).  With "new_searcher": false
the previous FileSearcher object is run again.
Observation per run: {"exc": null|class name, "results": {path: [[ln, tag,
[values..], section_rank|null, seqdef_idx|null], ...]}, "stats": {...},
"files": [...]}.
"""
import json
import os
import sys


def _setup():
    repo = os.environ.get('SK_REPO') or os.environ.get('VERIF_REPO') or '/repo'
    if sys.path[0] != repo:
        sys.path.insert(0, repo)
    import logging
    logging.disable(logging.CRITICAL)


TS_PATTERN = (r'^(?P<year>\d{4})-(?P<month>\d{2})-(?P<day>\d{2}) '
              r'(?P<hours>\d{2}):(?P<minutes>\d{2}):(?P<seconds>\d{2})')


Matcher = None
MatcherWide = None
TS_PATTERN_WIDE = (r'^(?P<year>\d+)-(?P<month>\d+)-(?P<day>\d+) '
                   r'(?P<hours>\d+):(?P<minutes>\d+):(?P<seconds>\d+)')


def _matcher_wide():
    global MatcherWide
    if MatcherWide is None:
        from searchkit.constraints import TimestampMatcherBase

        class _W(TimestampMatcherBase):
            @property
            def patterns(self):
                return [TS_PATTERN_WIDE]
        _W.__name__ = _W.__qualname__ = 'MatcherWide'
        _W.__module__ = __name__
        MatcherWide = _W
    return MatcherWide


def _matcher():
    """ module-level class (picklable: tasks are pickled into workers) """
    global Matcher
    if Matcher is None:
        from searchkit.constraints import TimestampMatcherBase

        class _M(TimestampMatcherBase):
            @property
            def patterns(self):
                return [TS_PATTERN]
        _M.__name__ = _M.__qualname__ = 'Matcher'
        _M.__module__ = __name__
        Matcher = _M
    return Matcher


def make_objects(recipe):
    from searchkit import SearchDef, SequenceSearchDef, ResultFieldInfo
    from searchkit.constraints import SearchConstraintSearchSince
    Matcher = _matcher_wide() if recipe.get('matcher') == 'wide' \
        else _matcher()

    cons = []
    for c in recipe.get('constraints', []):
        if c.get('use_defaults'):
            cons.append(SearchConstraintSearchSince(
                current_date=c['current'], ts_matcher_cls=Matcher))
        else:
            cons.append(SearchConstraintSearchSince(
                current_date=c['current'], ts_matcher_cls=Matcher,
                days=c.get('days', 0), hours=c.get('hours', 24)))

    def simple(d, tag_override=False):
        kw = {}
        if d.get('constraints'):
            kw['constraints'] = [cons[i] for i in d['constraints']]
        fi = ResultFieldInfo(d['fields']) if d.get('fields') else None
        if d.get('field_types'):
            # typed fields: {"name": "int"|"str"|"float"|None, ...} (ordered)
            types = {'int': int, 'str': str, 'float': float, None: None}
            fi = ResultFieldInfo({k: types[v]
                                  for k, v in d['field_types'].items()})
        pats = d['patterns'] if len(d['patterns']) != 1 else d['patterns'][0]
        return SearchDef(pats, tag=d.get('tag'), hint=d.get('hint'),
                         store_result_contents=d.get('store', True),
                         field_info=fi, **kw)

    defs = []
    for d in recipe['defs']:
        if d['kind'] == 'simple':
            defs.append(simple(d))
        else:
            kw = {}
            if d.get('constraints'):
                kw['constraints'] = [cons[i] for i in d['constraints']]
            defs.append(SequenceSearchDef(
                start=simple(d['start']), tag=d['tag'],
                body=simple(d['body']) if d.get('body') else None,
                end=simple(d['end']) if d.get('end') else None, **kw))
    return cons, defs


def canon_results(results, defs, base):
    from searchkit import SequenceSearchDef
    seq_ids = {d.id: i for i, d in enumerate(defs)
               if isinstance(d, SequenceSearchDef)}
    out = {}
    # section ids are replaced by first-occurrence ranks over the WHOLE
    # collection (paths in sorted order), so ids shared between files show
    ranks = {}
    for path, rs in sorted(results.items()):
        rows = []
        for r in rs:
            sec = r.section_id
            if sec is not None:
                ranks.setdefault(sec, len(ranks))
            vals = list(r)
            vals = [v if isinstance(v, (int, str, type(None))) else repr(v)
                    for v in vals]
            rows.append([r.linenumber, r.tag, vals,
                         ranks[sec] if sec is not None else None,
                         seq_ids.get(r.sequence_id)])
        out[os.path.relpath(path, base)] = rows
    return out


def apply_patches(recipe):
    """ optional small thresholds so that flush / batch boundaries are
    crossed by small files: {"NUM_BUFFERED_RESULTS": n, "TRANSIT_MAX": m} """
    import searchkit.task as T
    saved = (T.NUM_BUFFERED_RESULTS, T.QueueTransitBuffer.MAX)
    pt = recipe.get('patch') or {}
    if 'NUM_BUFFERED_RESULTS' in pt:
        T.NUM_BUFFERED_RESULTS = pt['NUM_BUFFERED_RESULTS']
    if 'TRANSIT_MAX' in pt:
        T.QueueTransitBuffer.MAX = pt['TRANSIT_MAX']
    return saved


def restore_patches(saved):
    import searchkit.task as T
    T.NUM_BUFFERED_RESULTS, T.QueueTransitBuffer.MAX = saved


def execute(recipe):
    _setup()
    saved = apply_patches(recipe)
    try:
        return _execute(recipe)
    finally:
        restore_patches(saved)


def _execute(recipe):
    from searchkit import FileSearcher
    base = recipe['dir']
    cons, defs = make_objects(recipe)
    obs = []
    fs = None
    for run in recipe['runs']:
        # files may grow between runs (append-only logs)
        for name, text in (run.get('append') or {}).items():
            with open(os.path.join(base, name), 'ab') as f:
                f.write(text.encode('latin-1'))
        rep = run.get('replace')
        if rep:
            import gzip as _gz
            spec = rep.get('_gz')
            for name, text in rep.items():
                if name == '_gz':
                    continue
                raw = text.encode('latin-1')
                with open(os.path.join(base, name), 'wb') as f:
                    f.write(raw if spec is None else _gz.compress(
                        raw, compresslevel=spec.get('level', 6)))
        if fs is None or run.get('new_searcher', True):
            g = run.get('global')
            fs = FileSearcher(
                max_parallel_tasks=run.get('max_parallel_tasks', 8),
                max_logrotate_depth=run.get('max_logrotate_depth', 7),
                constraint=cons[g] if g is not None else None,
                decode_errors=run.get('decode_errors'))
            for di, path, allow in run['adds']:
                fs.add(defs[di], os.path.join(base, path),
                       allow_global_constraints=allow)
        else:
            # the SAME searcher, possibly with further registrations
            for di, path, allow in run.get('extra_adds') or []:
                fs.add(defs[di], os.path.join(base, path),
                       allow_global_constraints=allow)
        one = {'exc': None, 'results': None, 'stats': None,
               'files': [os.path.relpath(f, base) for f in fs.files]}
        try:
            res = fs.run()
            one['results'] = canon_results(res, defs, base)
            one['len'] = len(res)
            one['stats'] = {k: (list(v) if isinstance(v, list) else v)
                            for k, v in dict(fs.stats).items()}
            # an application aggregating statistics over runs (must not
            # influence later runs)
            from searchkit.task import SearchTaskStats
            agg = SearchTaskStats()
            agg.update(fs.stats)
        except BaseException as exc:  # noqa
            if isinstance(exc, (KeyboardInterrupt, SystemExit)):
                raise
            one['exc'] = type(exc).__name__
            one['exc_msg'] = str(getattr(exc, 'msg', exc))[:300]
        obs.append(one)
    return obs


def main():
    with open(sys.argv[1], encoding='utf-8') as f:
        recipe = json.load(f)
    if 'batch' in recipe:
        # several independent recipes in one interpreter; progress is
        # flushed per recipe so that a hang can be attributed
        obs = []
        for i, r in enumerate(recipe['batch']):
            sys.stdout.write(f"@@START@@{i}\n")
            sys.stdout.flush()
            obs.append(execute(r))
    else:
        obs = execute(recipe)
    sys.stdout.write("@@OBS@@" + json.dumps(obs) + "\n")
    sys.stdout.flush()
    # make sure nothing lingers
    os._exit(0)


if __name__ == '__main__':
    main()
