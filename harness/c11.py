"""C11 - Line lookup at any byte offset returns the line containing it.

T1: Gen/Params.v (SEEK_HORIZON, MAX_SEEK_HORIZON_EXPAND,
    MAX_DATETIME_READ_BYTES) and Gen/Exprs.v (LogLine.start_offset /
    end_offset) are regenerated from the source; Props/C11.v instantiates
    the parametric theorems with them.
T2: the REAL LogFileDateSinceSeeker.find_token / find_token_reverse /
    try_find_line (+ LogLine offsets and the bytes read for the date) are
    called for EVERY offset 0..len of generated contents and compared with
      M  the Coq model (Model/Seek.v) evaluated inside Coq,
      R  a plain-Python reference of the specification (nearest line feeds
         by bytes.find/rfind + the exact budget), which is itself compared
         with the Coq specification S (Spec/Lines.v) evaluated inside Coq.
    SEEK_HORIZON / MAX_SEEK_HORIZON_EXPAND / MAX_DATETIME_READ_BYTES are read
    by the code through the class at call time, so the same runs are made
    with small patched values (same values given to M) to sweep every
    LF/chunk alignment and the MaxSearchableLineLengthReached boundary.
    The last sentence of the property (where a since constraint leaves the
    file) is asserted directly on SearchConstraintSearchSince.apply_to_file.
"""
import io
import os
import re
import time

import vlib

PROPS = ['Props/C11.v', 'Props/C11src.v', 'Props/TsMatcher.v']

LF = 10
# seconds with one or two digits: a timestamp cut short by one byte is a
# different timestamp
HIST_PATTERN = (r'^(?P<year>\d{4})-(?P<month>\d{2})-(?P<day>\d{2}) '
                r'(?P<hours>\d{2}):(?P<minutes>\d{2}):(?P<seconds>\d{1,2})')
PATCH_H = [1, 2, 3, 4, 7, 8, 16]
PATCH_A = [1, 2, 3, 8]


# ------------------------------------------------------------ implementation
class _DummyConstraint:
    """ hands back exactly what LogLine.date passed to the matcher, so that
    the bytes read for the timestamp can be compared """
    since_date = None

    def extracted_datetime(self, line):
        return ('read', bytes(line))


class Patched:
    """ patch the class attributes the code reads at call time """
    def __init__(self, H, A, W):
        self.vals = (H, A, W)

    def __enter__(self):
        from searchkit.constraints import LogFileDateSinceSeeker as S, LogLine
        self.S, self.L = S, LogLine
        self.saved = (S.SEEK_HORIZON, S.MAX_SEEK_HORIZON_EXPAND,
                      S.MAX_SEARCHABLE_LINE_LENGTH,
                      LogLine.MAX_DATETIME_READ_BYTES)
        H, A, W = self.vals
        S.SEEK_HORIZON = H
        S.MAX_SEEK_HORIZON_EXPAND = A
        S.MAX_SEARCHABLE_LINE_LENGTH = H * A       # only used in messages
        LogLine.MAX_DATETIME_READ_BYTES = W
        return self

    def __exit__(self, *a):
        S, L = self.S, self.L
        (S.SEEK_HORIZON, S.MAX_SEEK_HORIZON_EXPAND,
         S.MAX_SEARCHABLE_LINE_LENGTH, L.MAX_DATETIME_READ_BYTES) = self.saved


def _tok(fn, o):
    from searchkit.constraints import (MaxSearchableLineLengthReached,
                                       FindTokenStatus)
    try:
        r = fn(o)
    except MaxSearchableLineLengthReached:
        return [0]
    return [1 if r.status == FindTokenStatus.FOUND else 2, r.offset]


def _st(s):
    from searchkit.constraints import FindTokenStatus
    return [1 if s.status == FindTokenStatus.FOUND else 2, s.offset]


def impl_lookup(content, offs, H, A, W, window=True, toks=True, tmpdir=None):
    """ per offset: [find_token, find_token_reverse, try_find_line(+window)]
    from the real code; a real temporary file is used when tmpdir is given,
    io.BytesIO otherwise """
    from searchkit.constraints import (LogFileDateSinceSeeker,
                                       MaxSearchableLineLengthReached)
    out = []
    path = None
    if tmpdir is not None:
        path = os.path.join(tmpdir, 'c11.bin')
        with open(path, 'wb') as f:
            f.write(content)
        fd = open(path, 'rb')
    else:
        fd = io.BytesIO(content)
    try:
        with Patched(H, A, W):
            s = LogFileDateSinceSeeker(fd, _DummyConstraint())
            for o in offs:
                rec = []
                if toks:
                    rec.append(_tok(s.find_token, o))
                    rec.append(_tok(s.find_token_reverse, o))
                try:
                    ln = s.try_find_line(o)
                    line = [_st(ln.start_lf), _st(ln.end_lf),
                            ln.start_offset, ln.end_offset]
                    if window:
                        # the bytes LogLine.date hands to the matcher
                        line.append(list(ln.date[1]))
                except MaxSearchableLineLengthReached:
                    line = [0]
                except AssertionError:
                    line = [-1]
                rec.append(line)
                out.append(rec)
    finally:
        fd.close()
        if path:
            os.unlink(path)
    return out


# ------------------------------------------------- plain-Python reference (R)
def ref_next_lf(c, o):
    p = c.find(b'\n', o)
    return None if p < 0 else p


def ref_prev_lf(c, o):
    q = c.rfind(b'\n', 0, o)
    return None if q < 0 else q


def ref_line(c, o):
    """ (line_start, line_end, terminated) of the line containing o """
    q, p = ref_prev_lf(c, o), ref_next_lf(c, o)
    return (0 if q is None else q + 1, len(c) if p is None else p,
            p is not None)


def ref_fwd(c, o, H, A):
    p = ref_next_lf(c, o)
    if p is not None:
        return [1, p] if p - o < A * H else [0]
    return [2, len(c)] if len(c) - o < A * H else [0]


def ref_bwd(c, o, H, A):
    q = ref_prev_lf(c, o)
    if q is not None:
        return [1, q] if o - q <= A * H else [0]
    return [2, 0] if o < A * H else [0]


def ref_lookup(c, o, H, A, W, window=True):
    f, b = ref_fwd(c, o, H, A), ref_bwd(c, o, H, A)
    if f == [0] or b == [0]:
        return [0]
    s = b[1] + 1 if b[0] == 1 else b[1]
    e = f[1] - 1 if f[0] == 1 else f[1]
    line = [b, f, s, e]
    if window:
        line.append(list(c[s:s + W]))
    return line


# --------------------------------------------------------------- Coq side
PRE = """From SK Require Import Model.Seek Spec.Lines.
Definition jline (W : Z) (c : list Z) (w : bool) (r : line_res) : jv :=
  match r with
  | Line s e => JL ([jv_tok s; jv_tok e; JZ (start_offset s); JZ (end_offset e)]
                    ++ (if w then [JZs (logline_window W c s)] else []))
  | LineErr => JL [JZ 0]
  | LineAssert => JL [JZ (-1)]
  end.
(* case: ((H, A, W), content, offsets, (with tokens, with window)) *)
Definition run_model (x : (Z * Z * Z) * list Z * list Z * (bool * bool)) : jv :=
  let '(HAW, c, offs, (t, w)) := x in let '(H, A, W) := HAW in
  JL (map (fun o =>
    JL ((if t then [jv_tok (find_token H A c o); jv_tok (find_token_reverse H A c o)]
         else []) ++ [jline W c w (try_find_line H A c o None None)])) offs).
(* the specification: (line_start, line_end, terminated?, within_budget) *)
Definition run_spec (x : (Z * Z * Z) * list Z * list Z * (bool * bool)) : jv :=
  let '(HAW, c, offs, _) := x in let '(H, A, W) := HAW in
  JL (map (fun o => JL [JZ (line_start c o); JZ (line_end c o);
                        JB (match next_lf c o with Some _ => true | None => false end);
                        JB (within_budget H A c o)]) offs).
"""


def coq_bytes(c):
    """ Coq term for a byte string; long runs via Base.repeatN """
    parts, i, n = [], 0, len(c)
    while i < n:
        j = i
        while j < n and c[j] == c[i]:
            j += 1
        if j - i >= 12:
            parts.append(f"repeatN {c[i]} {j - i}%N")
            i = j
        else:
            k = i
            # literal segment up to the next long run
            while k < n:
                m = k
                while m < n and c[m] == c[k]:
                    m += 1
                if m - k >= 12:
                    break
                k = m
            parts.append("[" + "; ".join(str(b) for b in c[i:k]) + "]")
            i = k
    return "(" + " ++ ".join(parts) + ")" if parts else "(@nil Z)"


def coq_case(H, A, W, c, offs, toks, window):
    return (f"(({H}, {A}, {W}), {coq_bytes(c)}, ({vlib.zl(offs)} : list Z), "
            f"({'true' if toks else 'false'}, {'true' if window else 'false'}))")


# --------------------------------------------------------------- generators
def gen_small(rng, H, A):
    """ a tiny file whose line lengths sit around multiples of H and around
    the budget boundaries (A-1)*H, A*H """
    cap = 2 * A * H + 2 * H + 3
    marks = [0, 1, H - 1, H, H + 1, 2 * H - 1, 2 * H, 2 * H + 1,
             (A - 1) * H - 1, (A - 1) * H, (A - 1) * H + 1, (A - 1) * H + 2,
             A * H - 2, A * H - 1, A * H, A * H + 1, A * H + 2, A * H + H]
    marks = [m for m in marks if m >= 0]
    nlines = rng.choice([1, 1, 2, 2, 3, 4, 5])
    out = bytearray()
    for i in range(nlines):
        r = rng.random()
        if r < 0.6:
            ln = rng.choice(marks)
        elif r < 0.8:
            ln = 0
        else:
            ln = rng.randrange(0, A * H + H + 2)
        out += bytes(rng.choice(b'abcxyz') for _ in range(ln))
        if i < nlines - 1 or rng.random() < 0.5:
            out += b'\n'
        if len(out) > cap:
            break
    if rng.random() < 0.15:
        out = bytearray(b'\n') + out
    return bytes(out[:cap + H])


REAL_LENS = [0, 0, 1, 2, 63, 64, 65, 254, 255, 256, 257, 258, 511, 512, 513,
             767, 768, 769, 1023, 1024, 1025, 1100]


def gen_real(rng, kind):
    if kind == 'nolf':
        return bytes(rng.choice(b'abc') for _ in range(rng.choice(
            [0, 1, 255, 256, 257, 700])))
    nlines = rng.choice([2, 3, 4, 5])
    out = bytearray()
    if kind == 'leading':
        out += b'\n' * rng.choice([1, 2, 3])
    for i in range(nlines):
        ln = rng.choice(REAL_LENS)
        out += bytes(rng.choice(b'abcdefgh 0123') for _ in range(ln))
        if i < nlines - 1:
            out += b'\n' * (rng.choice([2, 3]) if kind == 'consecutive'
                            and rng.random() < 0.5 else 1)
    if kind == 'trailing':
        out += b'\n' * rng.choice([1, 2])
    return bytes(out)


def lf_masks(maxlen):
    for n in range(maxlen + 1):
        for m in range(1 << n):
            yield bytes(LF if (m >> i) & 1 else 97 for i in range(n))


# ------------------------------------------------------------------ verdict
_SEEN = {}


def shape(c, o, H, A):
    q, p = ref_prev_lf(c, o), ref_next_lf(c, o)
    return (H, A, None if q is None else o - q, None if p is None else p - o,
            o if q is None else None, len(c) - o if p is None else None)


def classify(chk, c, o, H, A):
    q, p = ref_prev_lf(c, o), ref_next_lf(c, o)
    df = (p - o) if p is not None else (len(c) - o)
    db = (o - q) if q is not None else o
    chk.dist('fwd_chunks_%s' % min(3, df // H + 1))
    chk.dist('bwd_chunks_%s' % min(3, (max(db, 1) + H - 1) // H))
    if p is not None and (p - o) % H in (0, H - 1):
        chk.dist('fwd_lf_at_chunk_edge')
    if q is not None and (o - q) % H in (0, 1 % H):
        chk.dist('bwd_lf_at_chunk_edge')
    if p is None:
        chk.dist('no_lf_after')
    if q is None:
        chk.dist('no_lf_before')
    if p == o:
        chk.dist('offset_on_lf')
    if o == len(c):
        chk.dist('offset_at_eof')


def judge(chk, c, o, H, A, W, impl_line, ref_exact, source):
    """ implementation vs the PROPERTY for one lookup.  Returns True when a
    witness was recorded. """
    ls, le, term = ref_line(c, o)
    linelen = (le + 1 if term else le) - ls          # terminator included
    # the documented limit: fewer than A*H bytes before the line feed / end
    inside = (le - ls) < A * H
    detail = {'content_len': len(c), 'offset': o, 'SEEK_HORIZON': H,
              'MAX_SEEK_HORIZON_EXPAND': A, 'MAX_DATETIME_READ_BYTES': W,
              'line_start': ls, 'line_end_lf_or_eof': le,
              'line_len_with_terminator': linelen,
              'impl': impl_line, 'source': source,
              'content_head': list(c[:80]),
              'lf_offsets': [i for i, b in enumerate(c) if b == LF][:40]}
    if impl_line == [-1]:
        chk.violation('try_find_line-assertion-failed', detail,
                      witness=inside)
        return inside
    if impl_line == [0]:
        if inside:
            edge = 'first' if ref_prev_lf(c, o) is None else 'last'
            if ref_prev_lf(c, o) is not None and term:
                edge = 'interior'
            key = ('within', edge, H, A)
            _SEEN[key] = _SEEN.get(key, 0) + 1
            chk.dist(f'REGRESSION_maxline_within_limit_{edge}_line')
            if _SEEN[key] <= 2:
                chk.violation(
                    f'maxline-raised-within-limit edge={edge}-line', detail)
            return True
        return False
    # a line was returned: must be THE line (when the line is within limit)
    want_s, want_e = ls, (le - 1 if term else le)
    ok = (impl_line[2] == want_s and impl_line[3] == want_e and
          impl_line[0] == ([1, ls - 1] if ls > 0 else [2, 0]) and
          impl_line[1] == ([1, le] if term else [2, len(c)]))
    if ok and len(impl_line) > 4:
        ok = impl_line[4] == list(c[ls:ls + W])
    if not ok:
        chk.violation('wrong-line-returned', detail, witness=inside)
        return inside
    return False


def run_stream(chk, tag, items, window, toks, shard=40):
    """ items: list of (H, A, W, content, offsets, source).  Runs impl, R, M
    and S; records verdicts. """
    t0 = time.time()
    cases, wants_m, wants_s, meta = [], [], [], []
    shapes = set()
    n_eval = 0
    for (H, A, W, c, offs, source) in items:
        tmp = chk.work if source.endswith('/file') else None
        got = impl_lookup(c, offs, H, A, W, window=window, toks=toks,
                          tmpdir=tmp)
        spec_rows = []
        for o, rec in zip(offs, got):
            n_eval += 1
            shapes.add(shape(c, o, H, A))
            classify(chk, c, o, H, A)
            line = rec[-1]
            exact = ref_lookup(c, o, H, A, W, window=window)
            chk.dist('outcome_' + ('maxline' if line == [0] else
                                   'assert' if line == [-1] else 'line'))
            witnessed = judge(chk, c, o, H, A, W, line, exact, source)
            if toks and not witnessed:
                # find_token / find_token_reverse must never report a wrong
                # line feed or a wrong end of file, whatever the budget
                for name, val, want in (('find_token', rec[0],
                                         ref_fwd(c, o, H, 1 << 40)),
                                        ('find_token_reverse', rec[1],
                                         ref_bwd(c, o, H, 1 << 40))):
                    if val != [0] and val != want:
                        chk.violation(
                            f'{name}-wrong-result', {
                                'content_head': list(c[:80]),
                                'content_len': len(c), 'offset': o,
                                'SEEK_HORIZON': H,
                                'MAX_SEEK_HORIZON_EXPAND': A,
                                'impl': val, 'nearest': want})
            ls, le, term = ref_line(c, o)
            inb = (ref_fwd(c, o, H, A) != [0] and ref_bwd(c, o, H, A) != [0])
            spec_rows.append([ls, le, term, inb])
        cases.append(coq_case(H, A, W, c, offs, toks, window))
        wants_m.append(got)
        wants_s.append(spec_rows)
        meta.append((H, A, W, c, offs, source))
    t1 = time.time()
    mism, errs = vlib.eval_cases(chk.work, tag + '_model', '', PRE,
                                 'run_model', cases, wants_m, shard=shard)
    mism_s, errs_s = vlib.eval_cases(chk.work, tag + '_spec', '', PRE,
                                     'run_spec', cases, wants_s, shard=shard)
    for e in errs + errs_s:
        chk.broken.append({'obligation': f'correspondence {tag} (coqc)',
                           'why': e})
    for i, v in mism_s:
        H, A, W, c, offs, source = meta[i]
        chk.broken.append({
            'obligation': 'Coq specification (Spec/Lines.v) = plain-Python '
                          'reference of the harness',
            'why': f'differs on content={list(c[:120])} len={len(c)} H={H} '
                   f'A={A}: coq={str(v)[:300]}'})
    for i, v in mism:
        H, A, W, c, offs, source = meta[i]
        # locate the first differing offset
        bad = None
        if isinstance(v, list) and len(v) == len(offs):
            for o, mv, iv in zip(offs, v, wants_m[i]):
                if mv != iv:
                    bad = {'offset': o, 'model': mv, 'impl': iv}
                    break
        # the implementation has already been judged against the property
        # above; a model/implementation difference alone is no witness
        chk.violation(f'model-vs-impl {source} H={H} A={A}',
                      {'content_head': list(c[:120]), 'content_len': len(c),
                       'SEEK_HORIZON': H, 'MAX_SEEK_HORIZON_EXPAND': A,
                       'first_difference': bad}, witness=False)
    chk.coverage['evaluations'] += n_eval
    chk.coverage['traces_validated_against_impl'] += n_eval
    chk.coverage.setdefault('phase_s', {})[tag] = {
        'impl+reference': round(t1 - t0, 2), 'coq': round(time.time() - t1, 2)}
    return shapes


# --------------------------------------------- apply_to_file position (impl)
def position_runs(chk, n):
    """ third sentence of the property, asserted on the real
    SearchConstraintSearchSince.apply_to_file for arbitrary (also unordered)
    logs: the file is left at 0, at EOF or just after a line feed """
    import datetime
    from searchkit.constraints import (SearchConstraintSearchSince,
                                       TimestampMatcherBase)

    class TS(TimestampMatcherBase):
        @property
        def patterns(self):
            return [r'^(?P<year>\d{4})-(?P<month>\d{2})-(?P<day>\d{2}) '
                    r'(?P<hours>\d{2}):(?P<minutes>\d{2}):(?P<seconds>\d{2})']

    class NamedBytesIO(io.BytesIO):
        name = 'c11-position'

    rng = chk.rng
    base = datetime.datetime(2022, 1, 1)
    # every other run: ONE constraint object applied to a sequence of
    # different real files (each opened after the previous one was closed)
    shared_since = base + datetime.timedelta(seconds=2)
    shared = SearchConstraintSearchSince(
        current_date=shared_since.strftime('%Y-%m-%d %H:%M:%S'),
        ts_matcher_cls=TS, days=0, hours=0)
    history = []
    for k in range(n):
        H = rng.choice([1, 2, 3, 4, 7, 8, 16, 256, 256])
        A = rng.choice([1, 2, 3, 8]) if H != 256 else 4096
        L = rng.choice([1, 2, 3, 500])
        t = 0
        out = bytearray()
        nl = rng.randrange(0, 12)
        for i in range(nl):
            r = rng.random()
            if r < 0.55:
                t += rng.choice([0, 0, 1, 5, 3600]) if rng.random() < 0.8 \
                    else -rng.choice([1, 7200])
                t = max(t, 0)
                d = base + datetime.timedelta(seconds=t)
                out += d.strftime('%Y-%m-%d %H:%M:%S').encode()
                out += b' ' + b'm' * rng.choice([0, 1, 5, H, 2 * H + 1])
            elif r < 0.75:
                out += b'x' + (base.strftime('%Y-%m-%d %H:%M:%S').encode()
                               if rng.random() < 0.5 else b'yy')
            elif r < 0.85:
                out += b'u' * rng.choice([1, H, A * H, A * H + 1])
            if i < nl - 1 or rng.random() < 0.6:
                out += b'\n'
        c = bytes(out)
        since = base + datetime.timedelta(
            seconds=rng.choice([-5, 0, 1, t // 2, t, t + 1]))
        path = None
        if k % 2:
            path = os.path.join(chk.work, f'c11_pos_{k}.log')
            with open(path, 'wb') as f:
                f.write(c)
            if (k // 2) % 4 == 0:
                # a new shared constraint every four files, its since date
                # taken from the first of them
                shared_since = base + datetime.timedelta(
                    seconds=rng.choice([t // 2, t, 1]))
                shared = SearchConstraintSearchSince(
                    current_date=shared_since.strftime('%Y-%m-%d %H:%M:%S'),
                    ts_matcher_cls=TS, days=0, hours=0)
                history = []
            fd = open(path, 'rb')
            since = shared_since
            chk.dist('position_shared_constraint_real_file')
        else:
            fd = NamedBytesIO(c)
        from searchkit.constraints import LogFileDateSinceSeeker as S
        saved_l = S.MAX_TRY_FIND_WITH_DATE_ATTEMPTS
        try:
            with Patched(H, A, 64):
                S.MAX_TRY_FIND_WITH_DATE_ATTEMPTS = L
                cons = shared if path else SearchConstraintSearchSince(
                    current_date=since.strftime('%Y-%m-%d %H:%M:%S'),
                    ts_matcher_cls=TS, days=0, hours=0)
                destructive = (k % 3 != 2)
                chk.dist('position_destructive_%s' % destructive)
                try:
                    cons.apply_to_file(fd, destructive=destructive)
                    pos = fd.tell()
                except Exception as exc:     # pylint: disable=broad-except
                    pos = f'{type(exc).__name__}: {exc}'
        finally:
            S.MAX_TRY_FIND_WITH_DATE_ATTEMPTS = saved_l
            fd.close()
            if path:
                os.unlink(path)
                history.append(os.path.basename(path))
        chk.coverage['evaluations'] += 1
        ok = isinstance(pos, int) and (
            pos == 0 or pos == len(c) or (0 < pos <= len(c) and
                                          c[pos - 1] == LF))
        if isinstance(pos, int):
            chk.dist('position_' + ('zero' if pos == 0 else 'eof'
                                    if pos == len(c) else 'after_lf'))
        if not ok:
            chk.violation('since-position-not-a-line-start', {
                'content': list(c), 'since': str(since), 'position': pos,
                'SEEK_HORIZON': H, 'MAX_SEEK_HORIZON_EXPAND': A,
                'MAX_TRY_FIND_WITH_DATE_ATTEMPTS': L,
                'destructive': destructive,
                'same_constraint_object_applied_before_to':
                    history[-4:-1] if path else []})
        if k < 2:
            chk.sample({'position_run': {'len': len(c), 'H': H, 'A': A,
                                         'L': L, 'position': pos}})




def leading_bytes_positions(chk):
    """ deterministic: logs that begin with a byte order mark (or other
    non-text bytes) before a timestamped first line, since dates before /
    between / after the timestamps, destructive and not: the file must be
    left at 0, at EOF or just after a line feed """
    import datetime
    from searchkit.constraints import (SearchConstraintSearchSince,
                                       TimestampMatcherBase)

    class TS(TimestampMatcherBase):
        @property
        def patterns(self):
            return [r'^(?P<year>\d{4})-(?P<month>\d{2})-(?P<day>\d{2}) '
                    r'(?P<hours>\d{2}):(?P<minutes>\d{2}):(?P<seconds>\d{2})']

    class NamedBytesIO(io.BytesIO):
        name = 'c11-leading-bytes'

    body = (b'2022-01-01 00:00:10 first\n2022-01-01 00:00:20 second\n'
            b'2022-01-01 00:00:30 third\n')
    for head in (b'\xef\xbb\xbf', b'\xff\xfe', b'\x00', b''):
        for c in (head + body, head + body[:-1], head + body[:26]):
            for secs in (0, 10, 15, 20, 30, 40):
                for destructive in (True, False):
                    since = datetime.datetime(2022, 1, 1, 0, 0, secs)
                    cons = SearchConstraintSearchSince(
                        current_date=since.strftime('%Y-%m-%d %H:%M:%S'),
                        ts_matcher_cls=TS, days=0, hours=0)
                    fd = NamedBytesIO(c)
                    try:
                        cons.apply_to_file(fd, destructive=destructive)
                        pos = fd.tell()
                    except Exception as exc:  # pylint: disable=broad-except
                        pos = f'{type(exc).__name__}: {exc}'
                    chk.coverage['evaluations'] += 1
                    chk.dist('position_leading_bytes_runs')
                    ok = isinstance(pos, int) and (
                        pos == 0 or pos == len(c) or
                        (0 < pos <= len(c) and c[pos - 1] == LF))
                    if not ok:
                        chk.violation('since-position-not-a-line-start', {
                            'content': list(c), 'since': str(since),
                            'position': pos, 'destructive': destructive,
                            'source': 'leading-bytes'})


# ------------------------------------------ lookups after other operations
def history_runs(chk, n):
    """ the lookup must not depend on what the seeker did before: random
    interleavings of timestamp lookups (seeker[o], which run the backward /
    forward fallbacks) and plain lookups on ONE seeker object, any order of
    offsets; every plain lookup is judged against the reference """
    import datetime
    from searchkit import constraints as K

    class TS(K.TimestampMatcherBase):
        @property
        def patterns(self):
            return [HIST_PATTERN]

    class TSFree(K.TimestampMatcherBase):
        """ the same pattern without the leading ^: the library applies
        patterns with match-at-start semantics """
        @property
        def patterns(self):
            return [HIST_PATTERN[1:]]

    class NamedBytesIO(io.BytesIO):
        name = 'c11-history'

    def ref_date(window):
        """ the timestamp of a line = the matcher on the <= W bytes at its
        first byte, by plain re + datetime """
        m = re.match(HIST_PATTERN, window.decode('utf-8',
                                                 errors='backslashreplace'))
        if not m:
            return None
        try:
            return datetime.datetime(*(int(m.group(g)) for g in (
                'year', 'month', 'day', 'hours', 'minutes', 'seconds')))
        except ValueError:
            return None

    def ref_getitem(c, o, W):
        """ date of the nearest dated line at or before the line of o, else
        of the first dated line after it (no fallback limit) """
        starts = [0] + [i + 1 for i, b in enumerate(c) if b == LF]
        dates = [(s, ref_date(c[s:s + W])) for s in starts]
        ls = ref_line(c, o)[0]
        before = [d for s, d in dates if s <= ls and d is not None]
        after = [d for s, d in dates if s > ls and d is not None]
        return before[-1] if before else (after[0] if after else None)

    rng = chk.rng
    base = datetime.datetime(2022, 1, 1)
    S = K.LogFileDateSinceSeeker
    for k in range(n):
        H = rng.choice([3, 4, 8, 16, 256])
        A = 4096
        L = rng.choice([2, 3, 500])
        W = 64
        out = bytearray()
        t = 0
        nl = rng.randrange(2, 9)
        for i in range(nl):
            r = rng.random()
            if r < 0.4:
                t += rng.choice([0, 1, 60])
                out += (base + datetime.timedelta(seconds=t)).strftime(
                    '%Y-%m-%d %H:%M:%S').encode() + rng.choice(
                        [b'', b'', b' A', b' msg', b' ' + b'm' * 43,
                         b' ' + b'm' * 44, b' ' + b'm' * 45])
            elif r < 0.7:
                out += b''                         # empty line
            else:
                out += rng.choice([b'A', b'uu', b'x2022-01-01 00:00:00'])
            if i < nl - 1 or rng.random() < 0.6:
                out += b'\n'
        c = bytes(out)
        if not c:
            continue
        ops = []
        for _ in range(3 * (len(c) + 1) if len(c) < 60 else 150):
            kind = rng.choice(['getitem', 'getitem', 'line', 'line', 'fwd',
                               'bwd'])
            ops.append((kind, rng.randrange(0, len(c) if kind == 'getitem'
                                            else len(c) + 1)))
        saved_l = S.MAX_TRY_FIND_WITH_DATE_ATTEMPTS
        try:
            with Patched(H, A, W):
                S.MAX_TRY_FIND_WITH_DATE_ATTEMPTS = L
                cons = K.SearchConstraintSearchSince(
                    current_date=(base + datetime.timedelta(
                        seconds=rng.choice([0, t // 2, t + 1]))).strftime(
                            '%Y-%m-%d %H:%M:%S'),
                    ts_matcher_cls=(TSFree if k % 2 else TS), days=0,
                    hours=0)
                seeker = S(NamedBytesIO(c), cons)
                trace = []
                for kind, o in ops:
                    if kind == 'getitem':
                        try:
                            got = seeker[o]
                        except K.TooManyLinesWithoutDate:
                            got = None
                        except (K.MaxSearchableLineLengthReached,
                                AssertionError):
                            got = 'error'
                        trace.append(['getitem', o])
                        if L == 500:
                            chk.dist('history_date_lookups')
                            want = ref_getitem(c, o, W)
                            if got != want:
                                chk.violation(
                                    'timestamp-lookup-wrong-date', {
                                        'content': list(c), 'offset': o,
                                        'SEEK_HORIZON': H,
                                        'impl_seeker_getitem': str(got),
                                        'timestamp_of_nearest_dated_line':
                                            str(want)})
                                break
                        continue
                    chk.coverage['evaluations'] += 1
                    chk.dist('history_lookups')
                    if kind == 'line':
                        try:
                            ln = seeker.try_find_line(o)
                            got = [_st(ln.start_lf), _st(ln.end_lf),
                                   ln.start_offset, ln.end_offset,
                                   list(ln._read_line(W))]  # noqa, pylint: disable=protected-access
                            dgot, dwant = ln.date, ref_date(
                                c[ln.start_offset:ln.start_offset + W])
                            if dgot != dwant:
                                chk.violation(
                                    'line-timestamp-not-the-one-at-its-start',
                                    {'content': list(c), 'offset': o,
                                     'line_start': ln.start_offset,
                                     'impl_date': str(dgot),
                                     'timestamp_at_line_start': str(dwant)})
                                break
                        except K.MaxSearchableLineLengthReached:
                            got = [0]
                        except AssertionError:
                            got = [-1]
                        want = ref_lookup(c, o, H, A, W, window=True)
                    elif kind == 'fwd':
                        got, want = _tok(seeker.find_token, o), \
                            ref_fwd(c, o, H, A)
                    else:
                        got, want = _tok(seeker.find_token_reverse, o), \
                            ref_bwd(c, o, H, A)
                    trace.append([kind, o])
                    if got != want:
                        chk.violation('lookup-depends-on-history', {
                            'content': list(c), 'SEEK_HORIZON': H,
                            'MAX_SEEK_HORIZON_EXPAND': A,
                            'MAX_TRY_FIND_WITH_DATE_ATTEMPTS': L,
                            'operations_on_one_seeker': trace[-12:],
                            'failing_operation': [kind, o],
                            'impl': got, 'line_containing_offset': want})
                        break
        finally:
            S.MAX_TRY_FIND_WITH_DATE_ATTEMPTS = saved_l
    chk.dist('history_files', n)

# ---------------------------------------------------------------------- run
def run(chk):
    chk.prove(PROPS)
    params = vlib.gen_info()['params']
    H0, A0 = params['SEEK_HORIZON'], params['MAX_SEEK_HORIZON_EXPAND']
    W0 = params['MAX_DATETIME_READ_BYTES']
    rng = chk.rng
    chk.coverage['rule'] = (
        "every offset 0..len of each generated content is looked up with the "
        "real find_token / find_token_reverse / try_find_line and compared "
        "with the Coq model (in Coq), and with a plain-Python reference of "
        "the specification (itself compared with the Coq specification); "
        "contents: (a) tiny files with line lengths around k*H, (A-1)*H, A*H "
        "for patched H in {1,2,3,4,7,8,16} x A in {1,2,3,8}; (b) all LF masks "
        "up to a length; (c) the real constants with line lengths around "
        "64/255/256/257/511/512/513/1024, leading/trailing/consecutive/no "
        "LFs; (d) 1 MiB-scale single lookups at the budget boundary "
        "(implementation vs reference only); (e) random interleavings of "
        "seeker[o] and plain lookups on one seeker object (history "
        "independence); (f) apply_to_file positions on arbitrary logs. "
        "distinct_nontrivial = number of "
        "distinct lookup shapes (H, A, distance to previous LF or start, "
        "distance to next LF or end)")
    shapes = set()

    # (d) the documented limit with the real constants: single lookups on
    # ~1 MiB lines at both ends of a file and in the middle, lengths around
    # (A-1)*H+1 .. A*H+1, implementation vs reference (the model side is
    # Props/C11.v C11_real_short_line / C11_real_terminated_line /
    # C11_long_*_raises / C11_real_legacy_*_refuted)
    lim = H0 * A0
    big = []
    if lim <= (1 << 22):
        def edge_offsets(a, b):
            return sorted({a, a + 1, a + H0, (a + b) // 2, b - H0, b - 1, b}
                          & set(range(a, b + 1)))
        for k in (lim - H0 - 1, lim - H0, lim - H0 + 1, lim - 100, lim - 2,
                  lim - 1, lim, lim + 1):
            # k bytes before the line feed / the end of the file
            first = b'x' * k + b'\nyy\n'
            big.append((first, edge_offsets(0, k),
                        f"first: b'x'*{k} + b'\\nyy\\n'"))
            last = b'yy\n' + b'x' * k
            big.append((last, edge_offsets(3, 3 + k),
                        f"last: b'yy\\n' + b'x'*{k}"))
        for k in (lim - 2, lim - 1, lim, lim + 5):
            inter = b'yy\n' + b'x' * k + b'\nzz'
            big.append((inter, edge_offsets(3, 3 + k),
                        f"interior: b'yy\\n' + b'x'*{k} + b'\\nzz'"))
    for c, offs, name in big:
        got = impl_lookup(c, offs, H0, A0, W0, window=False, toks=False)
        for o, rec in zip(offs, got):
            chk.coverage['evaluations'] += 1
            chk.dist('big_' + name.split(':')[0] +
                     ('_maxline' if rec[-1] == [0] else '_line'))
            shapes.add(shape(c, o, H0, A0))
            exact = ref_lookup(c, o, H0, A0, W0, window=False)
            judge(chk, c, o, H0, A0, W0, rec[-1], exact, 'big/' + name)
            if rec[-1] != exact:
                chk.violation(
                    f"model-vs-impl big/{name.split(':')[0]} H={H0} A={A0}",
                    {'file': name, 'content_len': len(c), 'offset': o,
                     'impl': rec[-1], 'exact_budget_reference': exact},
                    witness=False)

    # (a) tiny files, patched constants
    per = 8 if chk.quick else 40
    items = []
    for H in PATCH_H:
        for A in PATCH_A:
            for k in range(per):
                c = gen_small(rng, H, A)
                W = rng.choice([1, 2, 3, 5])
                src = 'small/file' if k == 0 else 'small/bytesio'
                items.append((H, A, W, c, list(range(len(c) + 1)), src))
    # deterministic: contents that begin with non-text bytes - a UTF-8 byte
    # order mark, NUL, 0xFF, CR - alone, before a first line, before a line
    # feed: the first line is delimited by the START OF THE FILE, whatever
    # its first bytes are; every offset looked up (incl. 0..2)
    for head in (b'\xef\xbb\xbf', b'\xef\xbb', b'\x00', b'\xff\xfe', b'\r'):
        for tail in (b'', b'ab', b'ab\ncd', b'\nab\n',
                     b'2022-01-01 00:00:00 x\ny\n'):
            c = head + tail
            for (H, A, W) in ((2, 8, 3), (3, 3, 5), (16, 8, 5), (H0, A0, W0)):
                items.append((H, A, W, c, list(range(len(c) + 1)),
                              'small/leading-bytes'))
    chk.dist('files_small', len(items))
    shapes |= run_stream(chk, 'small', items, window=True, toks=True)
    for it in items[:2]:
        chk.sample({'small_case': {'H': it[0], 'A': it[1], 'W': it[2],
                                   'content': list(it[3])}})

    # (b) exhaustive LF masks
    maxlen = 6 if chk.quick else 10
    items = []
    for c in lf_masks(maxlen):
        for H in (1, 2, 3):
            for A in ((1, 3) if chk.quick else (1, 2, 3)):
                items.append((H, A, 2, c, list(range(len(c) + 1)), 'masks'))
    chk.dist('files_masks', len(items))
    shapes |= run_stream(chk, 'masks', items, window=True, toks=True)

    # (c) real constants
    kinds = ['plain', 'leading', 'trailing', 'consecutive', 'nolf', 'plain']
    nreal = 6 if chk.quick else 40
    items, items_t = [], []
    for k in range(nreal):
        c = gen_real(rng, kinds[k % len(kinds)])
        offs = list(range(len(c) + 1))
        src = 'real/file' if k % 4 == 0 else 'real/bytesio'
        for j in range(0, len(offs), 600):     # split for parallel coqc
            items.append((H0, A0, W0, c, offs[j:j + 600], src))
        lfs = [i for i, b in enumerate(c) if b == LF]
        near = sorted({o for p in lfs for o in (p - 1, p, p + 1)
                       if 0 <= o <= len(c)} | set(range(0, len(c) + 1, 37))
                      | {len(c)})
        items_t.append((H0, A0, W0, c, near, src))
    chk.dist('files_real', len(items))
    shapes |= run_stream(chk, 'real', items, window=False, toks=False,
                         shard=1)
    shapes |= run_stream(chk, 'realtok', items_t, window=True, toks=True,
                         shard=2)
    chk.sample({'real_case': {'H': H0, 'A': A0, 'len': len(items[0][3]),
                              'lf_offsets': [i for i, b in
                                             enumerate(items[0][3])
                                             if b == LF]}})

    # the position a since constraint leaves the file at
    leading_bytes_positions(chk)
    position_runs(chk, 200 if chk.quick else 2000)
    history_runs(chk, 60 if chk.quick else 600)

    chk.coverage['distinct_nontrivial'] += len(shapes)
    chk.assumptions += [
        "file.seek(o); file.read(n) returns bytes o..o+n-1 clipped at the "
        "end of the file, b'' at or past it (io.BytesIO and regular files; "
        "gzip handled by C12)",
        "the harness patches SEEK_HORIZON / MAX_SEEK_HORIZON_EXPAND / "
        "MAX_DATETIME_READ_BYTES through the class attributes the code reads "
        "at call time; the theorems are parametric in them"]
