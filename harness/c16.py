"""C16 - a line passes a since constraint iff timestamp >= current_date - window.

T1: Gen/Exprs.v holds since_init / since_secs / line_date_is_valid as
    translated from the source, Gen/Params.v the defaults; Props/C16.v proves
    the property about the model instantiated with exactly those.
T2: (a) sessions: a REAL SearchConstraintSearchSince(current_date,
        ts_matcher_cls[, days][, hours]) -> since_date, apply_to_line on a
        list of lines (True / False / CouldNotApplyConstraint), stats(),
        compared with
          - the specification written down here with plain datetime /
            timedelta (decides witness=True),
          - the Coq model and the Coq spec evaluated inside Coq on the same
            case (oracle for the matcher: plain `re` over the variant's
            pattern list, never through searchkit);
    (b) the calendar model (valid_dt, secs, month tables) against
        datetime / date.toordinal / calendar.
"""
import calendar
import json
import os
import re
import time
from datetime import date, datetime, timedelta

import vlib

PROPS = ['Props/C16.v', 'Props/TsMatcher.v']

PASS, FAIL, UND = 1, 0, 2
MONTHS = ['Jan', 'Feb', 'Mar', 'Apr', 'May', 'Jun', 'Jul', 'Aug', 'Sep',
          'Oct', 'Nov', 'Dec']
HMS = r'(?P<hours>\d{2}):(?P<minutes>\d{2}):(?P<seconds>\d{2})'
P_STD = r'^(?P<year>\d{4})-(?P<month>\d{2})-(?P<day>\d{2})[ T]' + HMS
P_BRACKET = r'^\[(?P<day>\d{2})/(?P<month>\d{2})/(?P<year>\d{4}):' + HMS \
    + r'\]'
P_DMY = r'^(?P<day>\d{2})\.(?P<month>\d{2})\.(?P<year>\d{4}) ' + HMS
P_MDY = r'^(?P<month>\d{2})\.(?P<day>\d{2})\.(?P<year>\d{4}) ' + HMS
P_YY = r'^(?P<yy>\d{2})(?P<month>\d{2})(?P<day>\d{2}) ' + HMS
P_MON = r'^(?P<mon>' + '|'.join(MONTHS) + r') +(?P<day>\d{1,2}) ' + HMS \
    + r' (?P<year>\d{4})'


YMD = r'^(?P<year>\d{4})-(?P<month>\d{2})-(?P<day>\d{2}) '
# 12-hour clock: the group called `hours` holds 01..12, the `hours` property
# derives the 24-hour value from it and AM/PM
P_AMPM = YMD + r'(?P<hours>\d{2}):(?P<minutes>\d{2}):(?P<seconds>\d{2}) ' \
    r'(?P<ampm>AM|PM)'
# second of the hour in ONE group called `seconds` (0000..3599); `minutes`
# and `seconds` properties derive both (there is no `minutes` group)
P_SOH = YMD + r'(?P<hours>\d{2})h(?P<seconds>\d{4})s'
# day of the year in a group called `day` (001..366); `month` and `day`
# properties derive both (there is no `month` group)
P_DOY = r'^(?P<year>\d{4})\.(?P<day>\d{3}) ' + HMS


# `kubectl logs --prefix` style: a long prefix before the stamp, so the
# pattern reaches well beyond the first 64 characters of the line
P_KUBE = (r'^\[pod/\S+\] (?P<year>\d{4})-(?P<month>\d{2})-(?P<day>\d{2})T'
          r'(?P<hours>\d{2}):(?P<minutes>\d{2}):(?P<seconds>\d+)Z')
# patterns WITHOUT a leading ^: the library itself must anchor them at the
# start of the line (re.match)
P_U_STD = P_STD[1:]
P_U_BRACKET = P_BRACKET[1:]


def pod_prefix(t):
    """ deterministic prefix whose length varies with the fields: the stamp
    starts between column 29 and 73, so column 64 falls before, inside (at
    every position of) and after it """
    n = 18 + (t[5] * 7 + t[4] * 3 + t[2] + t[3]) % 45
    return "[pod/" + ("frontend-7c9d8b6f5-x2k4q-" * 4)[:n] + "/app] "


def render_kube(t):
    return (pod_prefix(t) + f"{t[0]:04d}-{t[1]:02d}-{t[2]:02d}T{hms(t)}Z "
            "GET /healthz 200")


def render_unanch_ref(t):
    # starts with the stamp; a bracketed stamp of the previous year follows
    if t[0] < 2:
        return None
    return (f"{t[0]:04d}-{t[1]:02d}-{t[2]:02d} {hms(t)} retry of "
            f"[{t[2]:02d}/{t[1]:02d}/{t[0] - 1:04d}:{hms(t)}] failed")


def hms(t):
    return f"{t[3]:02d}:{t[4]:02d}:{t[5]:02d}"


def real_date(t):
    try:
        date(t[0], t[1], t[2])
        return True
    except ValueError:
        return False


def hours24(m):
    h12 = int(m.group('hours'))
    if not 1 <= h12 <= 12:
        return 99           # no such hour: datetime() must reject it
    return h12 % 12 + (12 if m.group('ampm') == 'PM' else 0)


def doy_month_day(m):
    """ (month, day) of day-of-year n in the matched year; out-of-range n
    gives a day no month has """
    y, n = int(m.group('year')), int(m.group('day'))
    if n < 1:
        return 1, 0
    for mon in range(1, 13):
        ml = 29 if (mon == 2 and calendar.isleap(y)) else \
            [31, 28, 31, 30, 31, 30, 31, 31, 30, 31, 30, 31][mon - 1]
        if n <= ml:
            return mon, n
        n -= ml
    return 12, 31 + n


def render_ampm(t):
    if not 0 <= t[3] <= 23:
        return None
    return (f"{t[0]:04d}-{t[1]:02d}-{t[2]:02d} {t[3] % 12 or 12:02d}:"
            f"{t[4]:02d}:{t[5]:02d} {'PM' if t[3] >= 12 else 'AM'} up")


def render_soh(t):
    if not (0 <= t[4] <= 59 and 0 <= t[5] <= 59):
        return None
    return (f"{t[0]:04d}-{t[1]:02d}-{t[2]:02d} {t[3]:02d}h"
            f"{t[4] * 60 + t[5]:04d}s tick")


def render_doy(t):
    if not (t[0] >= 1 and real_date(t)):
        return None
    n = date(t[0], t[1], t[2]).toordinal() - date(t[0], 1, 1).toordinal()
    return f"{t[0]:04d}.{n + 1:03d} {hms(t)} j"


# A variant = plain data: patterns in order, field overrides (functions of
# the match object), the format current_date is given in, and renderers
# producing a line text from six integers (None when not expressible).
VARIANTS = {
    'std': {
        'patterns': [P_STD], 'overrides': {}, 'fmt': None,
        'render': [
            lambda t: f"{t[0]:04d}-{t[1]:02d}-{t[2]:02d} {hms(t)} INFO x",
            lambda t: f"{t[0]:04d}-{t[1]:02d}-{t[2]:02d}T{hms(t)}.123 y"]},
    'multi': {
        # P_MDY is shadowed by P_DMY (same strings, swapped meaning): the
        # first matching pattern must win
        'patterns': [P_BRACKET, P_DMY, P_MDY, P_STD], 'overrides': {},
        'fmt': '%d.%m.%Y %H:%M:%S',
        'render': [
            lambda t: f"{t[0]:04d}-{t[1]:02d}-{t[2]:02d} {hms(t)} a",
            lambda t: f"[{t[2]:02d}/{t[1]:02d}/{t[0]:04d}:{hms(t)}] GET /",
            lambda t: f"{t[2]:02d}.{t[1]:02d}.{t[0]:04d} {hms(t)} msg"]},
    'yy': {
        # 2-digit year mapped to 20xx through a `year` property
        'patterns': [P_YY],
        'overrides': {'year': lambda m: 2000 + int(m.group('yy'))},
        'fmt': '%d/%m/%Y %H.%M.%S',
        'render': [
            lambda t: (f"{t[0] - 2000:02d}{t[1]:02d}{t[2]:02d} {hms(t)} z"
                       if 2000 <= t[0] <= 2099 else None)]},
    'monname': {
        # month names through a `month` property, year at the end
        'patterns': [P_MON],
        'overrides': {'month': lambda m: MONTHS.index(m.group('mon')) + 1},
        'fmt': '%Y%m%dT%H%M%S',
        'render': [
            lambda t: (f"{MONTHS[t[1] - 1]} {t[2]:2d} {hms(t)} {t[0]:04d} "
                       "kernel: k" if 1 <= t[1] <= 12 else None)]},
    'ampm': {
        # 24-hour value through an `hours` property
        'patterns': [P_AMPM], 'overrides': {'hours': hours24},
        'fmt': None, 'render': [render_ampm],
        'extra': lambda ts: [
            f"{ts[0]:04d}-{ts[1]:02d}-{ts[2]:02d} 13:00:00 PM up",
            f"{ts[0]:04d}-{ts[1]:02d}-{ts[2]:02d} 00:30:00 AM up"]},
    'soh': {
        # `minutes` and `seconds` properties from the second of the hour
        'patterns': [P_SOH],
        'overrides': {'minutes': lambda m: int(m.group('seconds')) // 60,
                      'seconds': lambda m: int(m.group('seconds')) % 60},
        'fmt': '%Y/%m/%d %H:%M:%S', 'render': [render_soh],
        'extra': lambda ts: [
            f"{ts[0]:04d}-{ts[1]:02d}-{ts[2]:02d} {ts[3]:02d}h3600s tick",
            f"{ts[0]:04d}-{ts[1]:02d}-{ts[2]:02d} {ts[3]:02d}h9999s tick"]},
    'doy': {
        # `month` and `day` properties from the day of the year
        'patterns': [P_DOY],
        'overrides': {'month': lambda m: doy_month_day(m)[0],
                      'day': lambda m: doy_month_day(m)[1]},
        'fmt': '%H:%M:%S %d-%m-%Y', 'render': [render_doy],
        'extra': lambda ts: [
            f"{ts[0]:04d}.000 00:00:00 j", f"{ts[0]:04d}.367 00:00:00 j",
            f"{ts[0] if not calendar.isleap(ts[0]) else ts[0] + 1:04d}"
            ".366 12:00:00 j"]},
    # matchers that SUBCLASS other matchers and override `patterns` (and
    # more): each class must use its own patterns whichever of the family was
    # used first in this process.  Sessions run in this dict's order, so
    # family 1 is driven parent -> child -> grandchild, family 2 child ->
    # parent.
    'inh_iso': {
        'patterns': [P_STD], 'overrides': {}, 'fmt': None,
        'render': [lambda t: f"{t[0]:04d}-{t[1]:02d}-{t[2]:02d} {hms(t)} p"],
        'light': True},
    'inh_dmy': {
        'parent': 'inh_iso', 'patterns': [P_BRACKET, P_DMY],
        'overrides': {}, 'fmt': '%d.%m.%Y %H:%M:%S',
        'render': [
            lambda t: f"{t[2]:02d}.{t[1]:02d}.{t[0]:04d} {hms(t)} child",
            lambda t: f"[{t[2]:02d}/{t[1]:02d}/{t[0]:04d}:{hms(t)}] c"],
        'light': True},
    'inh_yy': {
        'parent': 'inh_dmy', 'patterns': [P_YY],
        'overrides': {'year': lambda m: 2000 + int(m.group('yy'))},
        'fmt': None,        # inherits the parent's format
        'render': [
            lambda t: (f"{t[0] - 2000:02d}{t[1]:02d}{t[2]:02d} {hms(t)} gc"
                       if 2000 <= t[0] <= 2099 else None)],
        'light': True},
    'inh2_iso': {
        'parent': 'inh2_dmy', 'patterns': [P_STD], 'overrides': {},
        'fmt': None,
        'render': [lambda t: f"{t[0]:04d}-{t[1]:02d}-{t[2]:02d}T{hms(t)} c"],
        'light': True},
    'inh2_dmy': {
        'patterns': [P_DMY], 'overrides': {}, 'fmt': '%d.%m.%Y %H:%M:%S',
        'render': [
            lambda t: f"{t[2]:02d}.{t[1]:02d}.{t[0]:04d} {hms(t)} parent"],
        'light': True},
    'kube': {
        'patterns': [P_KUBE], 'overrides': {}, 'fmt': None,
        'render': [render_kube], 'light': True},
    'unanch': {
        # the bracket pattern comes first but only ever matches further into
        # these lines: only a match AT THE START counts
        'patterns': [P_U_BRACKET, P_U_STD], 'overrides': {}, 'fmt': None,
        'render': [
            lambda t: f"{t[0]:04d}-{t[1]:02d}-{t[2]:02d} {hms(t)} plain",
            render_unanch_ref],
        'embedded': True, 'light': True},
}
FIELDS = ['year', 'month', 'day', 'hours', 'minutes', 'seconds']
YY_ONLY = ('yy', 'inh_yy')      # can only write years 2000..2099
# every one of the six keys is derived by a property in some variant
assert {k for v in VARIANTS.values() for k in v['overrides']} == set(FIELDS)


def eff_overrides(name):
    """ field overrides of a variant incl. those inherited from its parent """
    v = VARIANTS[name]
    ov = dict(eff_overrides(v['parent'])) if v.get('parent') else {}
    ov.update(v['overrides'])
    return ov


def eff_fmt(name):
    v = VARIANTS[name]
    if v['fmt']:
        return v['fmt']
    return eff_fmt(v['parent']) if v.get('parent') else default_fmt()


def matcher_class(name, made=None):
    """ the TimestampMatcherBase subclass handed to the implementation; a
    variant with a 'parent' subclasses the parent's class.  `made` memoises
    the classes of one check run. """
    from searchkit.constraints import TimestampMatcherBase
    made = {} if made is None else made
    if name in made:
        return made[name]
    v = VARIANTS[name]
    base = matcher_class(v['parent'], made) if v.get('parent') \
        else TimestampMatcherBase
    ns = {'patterns': property(lambda self, p=v['patterns']: list(p))}
    if v['fmt']:
        ns['DEFAULT_DATETIME_FORMAT'] = v['fmt']
    for key, fn in v['overrides'].items():
        ns[key] = property(lambda self, fn=fn: fn(self.result))
    made[name] = type('Matcher_' + name, (base,), ns)
    return made[name]


def default_fmt():
    from searchkit.constraints import TimestampMatcherBase
    return TimestampMatcherBase.DEFAULT_DATETIME_FORMAT


def oracle(name, line):
    """ the matcher as an oracle, with plain `re` only: fields of the first
    of the variant's OWN patterns that matches at the start of the line, or
    None """
    v = VARIANTS[name]
    ov = eff_overrides(name)
    if isinstance(line, bytes):
        line = line.decode('utf-8', errors='backslashreplace')
    for p in v['patterns']:
        m = re.match(p, line)
        if m:
            return tuple(int(ov[k](m)) if k in ov else int(m.group(k))
                         for k in FIELDS)
    return None


def fmt_date(fmt, t):
    """ strftime restricted to %Y %m %d %H %M %S, 4-digit years always """
    out = fmt
    for tok, val, w in (('%Y', t[0], 4), ('%m', t[1], 2), ('%d', t[2], 2),
                        ('%H', t[3], 2), ('%M', t[4], 2), ('%S', t[5], 2)):
        out = out.replace(tok, f"{val:0{w}d}")
    assert '%' not in out, fmt
    return out


def tup(d):
    return (d.year, d.month, d.day, d.hour, d.minute, d.second)


def dt_secs(d):
    """ the integer datetime compares by (microsecond = 0) """
    return d.toordinal() * 86400 + d.hour * 3600 + d.minute * 60 + d.second


def coq_dt(t):
    return "(DT " + " ".join(f"({x})" if x < 0 else str(x) for x in t) + ")"


# ------------------------------------------------------------------ the spec
def spec_since(cur, kw):
    """ current_date minus the window: the given number of days if non-zero,
    otherwise the given hours, 24 hours by default (property text) """
    days = kw.get('days', 0)
    hours = kw.get('hours', 24)
    window = timedelta(days=days) if days != 0 else timedelta(hours=hours)
    return cur - window


def spec_outcome(raw, since):
    if raw is None:
        return UND
    try:
        ts = datetime(*raw)
    except ValueError:
        return UND
    return PASS if ts >= since else FAIL


# ------------------------------------------------------------- the generator
CURRENTS = [
    (2, 3, 1, 0, 0, 0), (1900, 2, 28, 23, 59, 59), (1900, 3, 1, 0, 0, 0),
    (2000, 2, 29, 12, 0, 0), (2000, 3, 1, 0, 0, 0), (2024, 3, 1, 0, 0, 0),
    (2024, 2, 29, 23, 59, 59), (2023, 12, 31, 23, 59, 59),
    (2024, 1, 1, 0, 0, 0), (2023, 3, 1, 0, 0, 1), (2100, 3, 1, 0, 0, 0),
    (2001, 3, 1, 0, 0, 0), (2025, 4, 6, 1, 0, 0), (2000, 1, 1, 0, 0, 0),
    (2099, 12, 31, 23, 59, 59), (9999, 12, 31, 23, 59, 59),
    (2024, 12, 31, 0, 0, 0), (1600, 3, 1, 0, 30, 0), (2024, 3, 11, 5, 6, 7)]
# (POSIX TZ string, current_date, kwargs): since instants in / at the edges
# of the skipped hour (spring) and the repeated hour (autumn)
UK, US = 'GMT0BST,M3.5.0/1,M10.5.0', 'EST5EDT,M3.2.0,M11.1.0'
TZ_CASES = [
    (UK, (2024, 3, 31, 2, 30, 0), {'hours': 1}),     # since 01:30 (skipped)
    (UK, (2024, 4, 1, 1, 30, 0), {'days': 1}),       # since 03-31 01:30
    (UK, (2024, 3, 31, 1, 0, 0), {'hours': 0}),      # since = 01:00 (edge)
    (UK, (2024, 3, 31, 2, 0, 0), {'days': 0, 'hours': 0}),
    (UK, (2024, 3, 31, 23, 59, 59), {}),             # since 03-30 23:59:59
    (UK, (2024, 10, 27, 2, 30, 0), {'hours': 1}),    # since 01:30 (repeated)
    (UK, (2024, 10, 28, 1, 0, 0), {'days': 1, 'hours': 25}),
    (US, (2024, 3, 10, 3, 15, 0), {'hours': 1}),     # since 02:15 (skipped)
    (US, (2024, 3, 17, 2, 30, 0), {'days': 7}),
    (US, (2024, 11, 3, 2, 30, 0), {'hours': 1}),     # since 01:30 (repeated)
]
DAYS = [0, 1, 7, 400]
HOURS = [0, 1, 24, 25, 1000]
DMIN, DMAX = datetime.min, datetime.max.replace(microsecond=0)


def rand_dt(rng, lo=DMIN, hi=DMAX):
    span = int((hi - lo).total_seconds())
    return lo + timedelta(seconds=rng.randint(0, span))


def kwargs_grid():
    g = [{}]
    g += [{'days': d} for d in DAYS]
    g += [{'hours': h} for h in HOURS]
    g += [{'days': d, 'hours': h} for d in DAYS for h in HOURS]
    return g


def boundary_kind(cur, since):
    """ which calendar boundaries the window crosses """
    k = []
    if (cur.year, cur.month, cur.day) != (since.year, since.month,
                                          since.day):
        k.append('day')
    if (cur.year, cur.month) != (since.year, since.month):
        k.append('month')
    if cur.year != since.year:
        k.append('year')
    y = since.year
    while y <= cur.year:
        if calendar.isleap(y) and since <= datetime(y, 2, 29, 23, 59, 59) \
                and cur >= datetime(y, 2, 29):
            k.append('leapday')
            break
        y += 1
    if cur.year // 100 != since.year // 100:
        k.append('century')
    return k or ['none']


def session_lines(rng, name, cur, since, extra_stamps=()):
    """ [(class, text-or-bytes, intended fields)] for one session """
    v = VARIANTS[name]
    stamps = []     # (class, tuple) - tuples may be no real dates

    def add(cls, d):
        if isinstance(d, datetime):
            stamps.append((cls, tup(d)))

    def shift(d, **kw):
        try:
            return d + timedelta(**kw)
        except OverflowError:
            return None
    add('on', since)
    add('before1', shift(since, seconds=-1))
    add('after1', shift(since, seconds=1))
    add('before-day', shift(since, days=-1))
    add('after-day', shift(since, days=1))
    add('before-far', shift(since, days=-rng.randint(2, 800)))
    add('cur', cur)
    add('cur+1', shift(cur, seconds=1))
    add('cur-1', shift(cur, seconds=-1))
    w = max(int((cur - since).total_seconds()), 3600)
    for _ in range(3):
        add('near', shift(since, seconds=rng.randint(-2 * w, 2 * w)))
    add('random', rand_dt(rng))
    if name == 'yy':
        add('random', rand_dt(rng, datetime(2000, 1, 1),
                              datetime(2099, 12, 31, 23, 59, 59)))
    add('min', DMIN)
    add('max', DMAX)
    for cls, d in extra_stamps:
        add(cls, d)
    # text that looks like a timestamp but is no real date/time
    y = since.year
    nl = y if not calendar.isleap(y) else y + 1
    for bad in ((y, 2, 30, 0, 0, 0), (nl, 2, 29, 12, 0, 0),
                (y, 4, 31, 0, 0, 0), (y, 13, 1, 0, 0, 0),
                (y, 0, 10, 0, 0, 0), (y, 1, 0, 0, 0, 0),
                (y, 1, 32, 0, 0, 0), (y, since.month, since.day, 24, 0, 0),
                (y, since.month, since.day, 23, 60, 0),
                (y, since.month, since.day, 23, 59, 60 + rng.randint(0, 39)),
                (0, since.month, min(since.day, 28), 0, 0, 0)):
        if rng.random() < 0.6:
            stamps.append(('invalid', bad))
    lines = []
    for cls, t in stamps:
        r = v['render'][rng.randrange(len(v['render']))]
        try:
            txt = r(t)
        except (IndexError, ValueError):
            txt = None
        if txt is None:
            continue
        lines.append((cls, txt, t))
    for txt in v.get('extra', lambda ts: [])(tup(since)):
        if rng.random() < 0.6:
            lines.append(('invalid', txt, None))
    if v.get('embedded'):
        # dateless lines with a timestamp further in (on / after / before the
        # boundary): undecidable
        for d in (since, shift(since, seconds=1), cur,
                  shift(since, seconds=-1)):
            if d is not None and rng.random() < 0.8:
                lines.append(('undated', rng.choice(
                    ["ERROR at ", "\t", "  ", "job 17 finished "])
                    + v['render'][0](tup(d)), None))
    ts = tup(since)
    own = VARIANTS[name]['render'][0](ts) or "2024"
    # a line in some OTHER variant's format (for a subclass: its parent's)
    other = "ERROR foo"
    cands = [VARIANTS[v['parent']]['render'][0]] if v.get('parent') else []
    cands += [VARIANTS['multi']['render'][2], VARIANTS['std']['render'][0],
              VARIANTS['yy']['render'][0]]
    for r in cands:
        txt = r(ts)
        if txt and oracle(name, txt) is None:
            other = txt
            break
    for txt in ("no timestamp at all", "", " " + own, "x" + own, own[:8],
                other):
        if rng.random() < 0.7:
            lines.append(('undated', txt, None))
    rng.shuffle(lines)
    out = []
    for cls, txt, t in lines:
        if rng.random() < 0.25:
            txt = txt.encode('utf-8')
        out.append((cls, txt, t))
    return out


def run_session(name, cls, cur_t, kw, lines):
    """ drive the REAL constraint; returns a dict of observations """
    from searchkit.constraints import (SearchConstraintSearchSince,
                                       CouldNotApplyConstraint)
    fmt = eff_fmt(name)
    obs = {'since': None, 'out': [], 'exc': [], 'running': [],
           'pass': None, 'fail': None}
    try:
        c = SearchConstraintSearchSince(current_date=fmt_date(fmt, cur_t),
                                        ts_matcher_cls=cls, **kw)
        obs['since'] = c.since_date
    except Exception as exc:     # pylint: disable=broad-except
        # the spec's boundary is representable (generator stays in range),
        # so the implementation has no excuse
        obs['since'] = f"raised {type(exc).__name__}: {exc}"
        return obs
    for _cls, txt, _t in lines:
        try:
            r = c.apply_to_line(txt)
            o = PASS if r is True else FAIL if r is False else ('value', r)
        except CouldNotApplyConstraint:
            o = UND
        except Exception as exc:     # pylint: disable=broad-except
            o = ('exception', type(exc).__name__)
            obs['exc'].append(f"{type(exc).__name__}: {exc}")
        obs['out'].append(o)
        st = c.stats()['line']
        obs['running'].append((st['pass'], st['fail']))
    st = c.stats()['line']
    obs['pass'], obs['fail'] = st['pass'], st['fail']
    return obs


def jsonable(x):
    if isinstance(x, bytes):
        return {'bytes': x.decode('utf-8', 'backslashreplace')}
    return x


def sessions(chk):
    rng = chk.rng
    params = vlib.gen_info()['params']
    ddef, hdef = params.get('SINCE_DEFAULT_DAYS'), \
        params.get('SINCE_DEFAULT_HOURS')
    made = {}
    classes = {n: matcher_class(n, made) for n in VARIANTS}
    grid = kwargs_grid()
    currents = list(CURRENTS)
    currents += [tup(rand_dt(rng, datetime(3, 1, 1)))
                 for _ in range(6 if chk.quick else 60)]
    cases, wants, meta = [], [], []
    pool = set()
    nontrivial = set()
    nviol = [0]

    def viol(sig, detail, witness):
        nviol[0] += 1
        if nviol[0] <= 40:
            chk.violation(sig, detail, witness=witness)

    def one(name, cur_t, kw, extra_stamps=()):
        cur = datetime(*cur_t)
        since = spec_since(cur, kw)
        lines = session_lines(rng, name, cur, since, extra_stamps)
        pool.update((name, x[1]) for x in lines)
        raws = [oracle(name, txt) for _c, txt, _t in lines]
        for (lc, txt, t), raw in zip(lines, raws):
            # generator's intention vs the oracle (harness sanity)
            if (lc != 'undated' and t is not None and raw != t) \
                    or (lc != 'undated' and t is None and
                        (raw is None or
                         spec_outcome(raw, since) != UND)) \
                    or (lc == 'undated' and name != 'multi'
                        and raw is not None):
                chk.broken.append({
                    'obligation': 'harness oracle self-check',
                    'why': f"{name}: {txt!r} intended {t} oracle "
                           f"{raw}"})
        obs = run_session(name, classes[name], cur_t, kw, lines)
        spec_out = [spec_outcome(raw, since) for raw in raws]
        spec_pass = spec_out.count(PASS)
        spec_fail = spec_out.count(FAIL)
        base = {'variant': name, 'current_date': list(cur_t),
                'kwargs': kw,
                'lines': [jsonable(x[1]) for x in lines],
                'spec_since': str(since), 'TZ': os.environ.get('TZ'),
                'impl_since': str(obs['since'])}
        impl_ok = True
        if obs['since'] != since:
            impl_ok = False
            viol("since-date-wrong given="
                 + ",".join(sorted(kw)) + (
                     " days-nonzero" if kw.get('days') else ""),
                 dict(base, why="since_date is not current_date "
                      "minus the window"), True)
            if not isinstance(obs['since'], datetime):
                return
        for i, (o, s) in enumerate(zip(obs['out'], spec_out)):
            if o != s:
                impl_ok = False
                what = 'unexpected-exception' \
                    if isinstance(o, tuple) else 'line-outcome-wrong'
                viol(f"{what} class={lines[i][0]} impl={o} spec={s}",
                     dict(base, line=jsonable(lines[i][1]),
                          line_fields=raws[i], impl_outcome=o,
                          spec_outcome=s, exceptions=obs['exc'][:2],
                          encoding='1 pass, 0 fail, 2 undecidable'),
                     True)
                break
        run_ok = True
        p = f = 0
        # the counters must follow the constraint's OWN answers
        # (pass = lines it passed, fail = lines it failed, undecided
        # lines counted nowhere), after every line
        for o, (ip, if_) in zip(obs['out'], obs['running']):
            p += (o == PASS)
            f += (o == FAIL)
            if (ip, if_) != (p, f):
                run_ok = False
        if not run_ok or (obs['pass'], obs['fail']) != (p, f):
            impl_ok = False
            viol("counters-wrong",
                 dict(base, impl_counters=[obs['pass'], obs['fail']],
                      impl_outcomes=obs['out'],
                      counters_after_each_line=obs['running'],
                      lines_passed=p, lines_failed=f,
                      spec_counters=[spec_pass, spec_fail]), True)
        # the same case for the Coq model / Coq spec
        md = kw.get('days', ddef)
        mh = kw.get('hours', hdef)
        if md is None or mh is None:
            return      # T1 failed; already a broken obligation
        cases.append(
            f"({coq_dt(cur_t)}, {md}, {mh}, ["
            + "; ".join("None" if r is None else "Some " + coq_dt(r)
                        for r in raws) + "])")
        try:
            isecs = dt_secs(obs['since'])
        except AttributeError:
            isecs = -1
        wants.append([isecs,
                      [o if isinstance(o, int) else 3
                       for o in obs['out']],
                      obs['pass'], obs['fail']])
        meta.append((base, impl_ok))
        # coverage
        chk.coverage['evaluations'] += len(lines)
        chk.dist('sessions')
        chk.dist('variant:' + name)
        chk.dist('window:' + ('default' if not kw else
                              '+'.join(sorted(kw))))
        for k in boundary_kind(cur, since):
            chk.dist('window-crosses:' + k)
        for (lc, _txt, _t), raw, s in zip(lines, raws, spec_out):
            chk.dist('line:' + lc)
            chk.dist('outcome:' + ('fail', 'pass', 'undecidable')[s])
            if lc in ('on', 'before1', 'after1', 'invalid'):
                nontrivial.add((name, isecs, raw))
        if len(chk.coverage['samples']) < 3 and kw.get('days') \
                and 'hours' in kw:
            chk.sample(dict(base, impl_outcomes=obs['out'],
                            impl_counters=[obs['pass'],
                                           obs['fail']]))

    for name in VARIANTS:
        curs = currents
        if chk.quick and VARIANTS[name].get('light'):
            curs = currents[3:13]
        if name in YY_ONLY:
            curs = [c for c in currents if 2000 <= c[0] <= 2100] + \
                [tup(rand_dt(rng, datetime(2000, 1, 1),
                             datetime(2099, 12, 31)))
                 for _ in range(4 if chk.quick else 40)]
        for cur_t in curs:
            kws = grid
            if chk.quick and (cur_t not in CURRENTS[:12]
                              or name in ('ampm', 'soh', 'doy')
                              or VARIANTS[name].get('light')):
                kws = [grid[i] for i in sorted(rng.sample(
                    range(len(grid)),
                    5 if VARIANTS[name].get('light') else 8))]
            for kw in kws:
                one(name, cur_t, kw)
    # a slice under a DST zone: the constraint compares naive date-times, so
    # nothing may depend on the process time zone; boundaries are placed
    # inside / next to the hour that local time skips (and the one it repeats)
    old_tz = os.environ.get('TZ')
    try:
        for tz, cur_t, kw in TZ_CASES:
            os.environ['TZ'] = tz
            time.tzset()
            since = spec_since(datetime(*cur_t), kw)
            extra = [('tz-gap', since + timedelta(seconds=k)) for k in
                     (1800, 1860, 2700, 3599, 3600, 5340, 7200, -1800, -3599,
                      -3600, -3601, -7200)]
            for name in ('std', 'ampm'):
                one(name, cur_t, kw, extra)
                chk.dist('tz-sessions')
    finally:
        if old_tz is None:
            os.environ.pop('TZ', None)
        else:
            os.environ['TZ'] = old_tz
        time.tzset()
    chk.coverage['distinct_nontrivial'] += len(nontrivial)
    chk.coverage['traces_validated_against_impl'] += len(cases)
    return cases, wants, meta, viol, classes, pool


SESSION_PRE = """From SK Require Import Model.Dates Spec.Since Model.Since Gen.Exprs.
Definition jo (o : outcome) : jv :=
  JZ (match o with Pass => 1 | Fail => 0 | Undecided => 2 end).
Definition run_model (x : dt * Z * Z * list (option dt)) : jv :=
  let '(cur, d, h, ls) := x in
  let '(s, os, p, f) :=
    session since_init since_secs line_date_is_valid cur d h ls in
  JL [JZ s; JL (map jo os); JZ p; JZ f].
Definition run_spec (x : dt * Z * Z * list (option dt)) : jv :=
  let '(cur, d, h, ls) := x in
  JL [JZ (secs cur - spec_window d h);
      JL (map jo (map (spec_outcome (secs cur) d h) ls));
      JZ (spec_pass_count (secs cur) d h ls);
      JZ (spec_fail_count (secs cur) d h ls)].
"""

MATCHER_PRE = """From SK Require Import Model.Dates Model.TsMatcher Gen.XTsmatcher.
Open Scope string_scope.
Open Scope Z_scope.
Definition jdt (t : dt) : jv := JZs [yr t; mo t; dy t; hh t; mi t; ss t].
(* [matched; 0 ok / 1 ValueError / 2 other error / 3 not matched; fields] *)
Definition jstrp (r : strp) : jv :=
  match r with
  | SOk t => if valid_dt t then JL [JZ 1; JZ 0; jdt t]
             else JL [JZ 1; JZ 1; JL []]
  | SValueError => JL [JZ 1; JZ 1; JL []]
  | SError => JL [JZ 1; JZ 2; JL []]
  end.
(* the programs extracted from the source, interpreted *)
Definition run_extracted (pats : list (pat_out mobj)) : jv :=
  match exec_init x_ts_init pats with
  | Some (Some m) =>
      if x_ts_matched (Some m)
      then jstrp (eval_strptime (attr_of m) (group_of m) x_ts_strptime)
      else JL [JZ 0; JZ 3; JL []]
  | Some None => JL [JZ (if x_ts_matched (@None mobj) then 1 else 0); JZ 3;
                     JL []]
  | None => JL [JZ (-1)]
  end.
(* the hand-written model *)
Definition run_tsmodel (pats : list (pat_out mobj)) : jv :=
  match ts_result pats with
  | Some m => jstrp (ts_strptime m)
  | None => JL [JZ 0; JZ 3; JL []]
  end.
"""


def coq_mobj(m, ov):
    """ Coq term for a match object: values of the variant's override
    properties on it, and its named groups as int() sees them """
    if m is None:
        return "None"
    attrs = "; ".join(f'("{k}", {int(fn(m))})' for k, fn in sorted(
        ov.items()))
    gs = []
    for k, val in sorted(m.groupdict().items()):
        if val is None:
            g = "GAbsent"
        else:
            try:
                g = f"GInt {int(val)}" if int(val) >= 0 \
                    else f"GInt ({int(val)})"
            except ValueError:
                g = "GNonInt"
        gs.append(f'("{k}", {g})')
    return f"Some (MO [{attrs}] [{'; '.join(gs)}])"


def matcher_level(chk, classes, pool):
    """ the REAL matcher class on a line (matched / strptime) against the
    interpreted extracted programs and the hand-written matcher model; the
    regex engine is the oracle: per pattern, re.match and re.search """
    rng = chk.rng
    items = sorted(pool, key=repr)
    rng.shuffle(items)
    # keep every variant represented
    n = 1200 if chk.quick else 12000
    per = max(1, n // len(VARIANTS))
    chosen, count = [], {}
    for name, txt in items:
        if count.get(name, 0) < per:
            chosen.append((name, txt))
            count[name] = count.get(name, 0) + 1
    cases, wants, meta = [], [], []
    both = later = 0
    for name, txt in chosen:
        line = txt.decode('utf-8', 'backslashreplace') \
            if isinstance(txt, bytes) else txt
        ov = eff_overrides(name)
        tbl = [(re.match(p, line), re.search(p, line))
               for p in VARIANTS[name]['patterns']]
        both += sum(1 for a, _b in tbl if a) > 1
        later += any(a is None and b is not None for a, b in tbl)
        cases.append("[" + "; ".join(
            f"PO ({coq_mobj(a, ov)}) ({coq_mobj(b, ov)})" for a, b in tbl)
            + "]")
        try:
            m = classes[name](line)
            matched = m.matched
            if matched is not True:
                want = [1 if matched else 0, 3, []]
            else:
                try:
                    want = [1, 0, list(tup(m.strptime))]
                except (ValueError, OverflowError):
                    want = [1, 1, []]
                except Exception:       # pylint: disable=broad-except
                    want = [1, 2, []]
        except Exception:               # pylint: disable=broad-except
            want = [-1, 9, []]
        wants.append(want)
        meta.append({'variant': name, 'line': line, 'impl': want,
                     'layout': '[matched, 0 ok/1 ValueError/2 other/3 '
                               'unmatched, fields]'})
    chk.coverage['evaluations'] += len(cases)
    chk.dist('matcher:lines', len(cases))
    chk.dist('matcher:several-patterns-match', both)
    chk.dist('matcher:match-only-further-in', later)
    for runner, tag in (('run_extracted', 'ts_extracted'),
                        ('run_tsmodel', 'ts_model')):
        mism, errs = vlib.eval_cases(chk.work, tag, '', MATCHER_PRE, runner,
                                     cases, wants, shard=150)
        for e in errs:
            chk.broken.append({'obligation': f'correspondence matcher '
                               f'{runner} (coqc)', 'why': e})
        for i, v in mism[:5]:
            # a matcher-level difference is not yet a line decided wrongly:
            # the sessions above look for that
            chk.violation(f"matcher-{runner}-vs-impl variant="
                          f"{meta[i]['variant']}", dict(meta[i], coq=v),
                          witness=False)


DATES_PRE = """From SK Require Import Model.Dates.
Definition months : list Z := [1; 2; 3; 4; 5; 6; 7; 8; 9; 10; 11; 12].
Definition run_secs (t : dt) : jv :=
  if valid_dt t then JL [JZ (secs t)] else JL [].
Definition run_year (y : Z) : jv :=
  JL [JZs (map (fun m => ymd2ord y m 1) months);
      JZs (map (days_in_month y) months); JB (is_leap y);
      JZ (days_before_year y)].
Fixpoint consecutive (l : list Z) : bool :=
  match l with
  | a :: ((b :: _) as r) => (b =? a + 1) && consecutive r
  | _ => true
  end.
Definition run_days (y : Z) : jv :=
  let ords := flat_map (fun m =>
      map (fun d => ymd2ord y m (Z.of_nat d))
          (seq 1 (Z.to_nat (days_in_month y m)))) months in
  JL [JZ (hd 0 ords); JZ (lenZ ords); JB (consecutive ords)].
"""


def calendar_diff(chk):
    """ the calendar model against datetime itself; a mismatch is a model
    bug, never a violation witness """
    rng = chk.rng
    n = 10000 if chk.quick else 100000
    tuples = []
    for _ in range(n):
        tuples.append(tup(rand_dt(rng)))
    edge_years = [1, 4, 100, 400, 1582, 1600, 1900, 1999, 2000, 2023, 2024,
                  2100, 2400, 9996, 9999]
    for y in edge_years:
        for (m, d) in ((1, 1), (2, 28), (2, 29), (3, 1), (12, 31)):
            for (h, mi, s) in ((0, 0, 0), (23, 59, 59)):
                tuples.append((y, m, d, h, mi, s))
    for _ in range(n // 5):
        # mostly-valid tuples with one field pushed to / over its limit
        t = list(tup(rand_dt(rng)))
        i = rng.randrange(6)
        t[i] = rng.choice([[0, 10000, 9999, 1, -1],
                           [0, 1, 12, 13],
                           [0, 1, 28, 29, 30, 31, 32],
                           [-1, 0, 23, 24], [-1, 0, 59, 60],
                           [-1, 0, 59, 60, 61]][i])
        if i == 2 or rng.random() < 0.3:
            t[1] = rng.choice([2, 2, 4, 6, 9, 11, 1, 12])
        tuples.append(tuple(t))
    cases, wants = [], []
    nvalid = 0
    for t in tuples:
        try:
            w = [dt_secs(datetime(*t))]
            nvalid += 1
        except ValueError:
            w = None
        cases.append(coq_dt(t))
        wants.append(w)
    mism, errs = vlib.eval_cases(chk.work, 'secs', '', DATES_PRE, 'run_secs',
                                 cases, wants, shard=2000)
    chk.coverage['evaluations'] += len(cases)
    chk.dist('calendar:tuples', len(cases))
    chk.dist('calendar:tuples-valid', nvalid)
    for e in errs:
        chk.broken.append({'obligation': 'calendar model vs datetime (coqc)',
                           'why': e})
    for i, v in mism[:5]:
        chk.violation("calendar-model-vs-datetime",
                      {'fields': tuples[i], 'datetime': wants[i],
                       'model': v, 'note': 'model bug: Model/Dates.v '
                       'disagrees with datetime'}, witness=False)
    # per year: month-start ordinals, month lengths, leap flag
    if chk.quick:
        years = sorted(set(list(range(1, 402)) + list(range(1500, 2501))
                           + list(range(9590, 10000))
                           + [rng.randint(1, 9999) for _ in range(600)]))
    else:
        years = list(range(1, 10000))
    ycases = [str(y) for y in years]
    ywants = [[[date(y, m, 1).toordinal() for m in range(1, 13)],
               [calendar.monthrange(y, m)[1] for m in range(1, 13)],
               calendar.isleap(y), date(y, 1, 1).toordinal() - 1]
              for y in years]
    mism, errs = vlib.eval_cases(chk.work, 'years', '', DATES_PRE,
                                 'run_year', ycases, ywants, shard=700)
    chk.coverage['evaluations'] += len(years)
    chk.dist('calendar:years', len(years))
    for e in errs:
        chk.broken.append({'obligation': 'calendar tables vs datetime '
                           '(coqc)', 'why': e})
    for i, v in mism[:5]:
        chk.violation("calendar-model-vs-datetime year-table",
                      {'year': years[i], 'datetime': ywants[i], 'model': v},
                      witness=False)
    if not chk.quick:
        # every day of every year: the ordinals of the valid days of year y
        # in calendar order are consecutive, start at date(y,1,1) and number
        # 365/366
        dwants = [[date(y, 1, 1).toordinal(),
                   366 if calendar.isleap(y) else 365, True]
                  for y in years]
        mism, errs = vlib.eval_cases(chk.work, 'days', '', DATES_PRE,
                                     'run_days', ycases, dwants, shard=700)
        chk.coverage['evaluations'] += sum(w[1] for w in dwants)
        chk.dist('calendar:days', sum(w[1] for w in dwants))
        for e in errs:
            chk.broken.append({'obligation': 'calendar days vs datetime '
                               '(coqc)', 'why': e})
        for i, v in mism[:5]:
            chk.violation("calendar-model-vs-datetime days-of-year",
                          {'year': years[i], 'datetime': dwants[i],
                           'model': v}, witness=False)


def run(chk):
    chk.prove(PROPS)
    chk.coverage['rule'] = (
        "sessions: matcher variant (one pattern / four patterns with a "
        "shadowed one / 2-digit year via a `year` property / month names "
        "via a `month` property / 12-hour clock via an `hours` property / "
        "second-of-hour via `minutes` and `seconds` properties / day-of-year "
        "via `month` and `day` properties - all six keys are derived "
        "somewhere, with the raw group differing from the derived value; "
        "a `kubectl logs --prefix` style matcher whose pattern reaches "
        "beyond column 64 (stamp starting at columns 29..73) / patterns "
        "without a leading ^ plus dateless lines with a stamp further in; "
        "two families of matchers that subclass one another and override "
        "`patterns`, driven parent->child->grandchild and child->parent in "
        "one process; several variants have their own "
        "DEFAULT_DATETIME_FORMAT; a slice of sessions runs with TZ set to a "
        "DST zone and boundaries in the skipped / repeated local hour) x "
        "current_date (fixed list over day/month/"
        "year/leap-day/century boundaries, years 2..9999, plus random) x "
        "days in {omitted,0,1,7,400} x hours in {omitted,0,1,24,25,1000} x "
        "lines (timestamp on / 1 s before / 1 s after the boundary, +-1 day, "
        "current_date +-1 s, random near and far, datetime.min/max, text "
        "that looks like a timestamp but is no real date, undated text; a "
        "quarter as bytes); each session drives one REAL constraint object "
        "and is compared with the datetime/timedelta spec, the Coq model "
        "and the Coq spec.  evaluations = lines applied + calendar cases; "
        "non-trivial = distinct (variant, since instant, line fields) with "
        "the timestamp within 1 s of the boundary or not a real date")
    cases, wants, meta, viol, classes, pool = sessions(chk)
    for runner, tag in (('run_model', 'sess_model'), ('run_spec',
                                                      'sess_spec')):
        mism, errs = vlib.eval_cases(chk.work, tag, '', SESSION_PRE, runner,
                                     cases, wants, shard=150)
        for e in errs:
            chk.broken.append({'obligation': f'correspondence sessions '
                               f'{runner} (coqc)', 'why': e})
        for i, v in mism:
            base, impl_ok = meta[i]
            if impl_ok:
                # the implementation meets the datetime spec on this case:
                # the Coq side is what is off
                viol(f"{runner}-vs-impl", dict(base, impl=wants[i], coq=v,
                                               layout='[since_secs, '
                                               'outcomes, pass, fail]'),
                     False)
    matcher_level(chk, classes, pool)
    calendar_diff(chk)
    chk.assumptions += [
        "the regex engine is an oracle: per pattern and line, re.match / "
        "re.search tabulated by the harness with plain `re` (match object = "
        "named groups as int() sees them + values of the variant's override "
        "functions); which pattern wins and which source a field comes from "
        "is the model's (Model/TsMatcher.v, tied to the source by "
        "Props/TsMatcher.v)",
        "timestamps carry whole seconds and no tzinfo (the matcher builds "
        "datetime from six integer fields; DEFAULT_DATETIME_FORMAT has no "
        "%f/%z), so datetime comparison is comparison of "
        "ordinal*86400 + second of the day",
        "current_date - window stays within datetime.min..max (otherwise "
        "Python raises OverflowError; not part of the property's quantifier)"
    ]


def replay(chk, path):
    """ re-run the session of a witness file against the implementation """
    with open(path, encoding='utf-8') as f:
        w = json.load(f)['witness']
    name = w['variant']
    if w.get('TZ'):
        os.environ['TZ'] = w['TZ']
        time.tzset()
    lines = [('replay', x['bytes'].encode('utf-8') if isinstance(x, dict)
              else x, None) for x in w['lines']]
    cur_t = tuple(w['current_date'])
    since = spec_since(datetime(*cur_t), w['kwargs'])
    obs = run_session(name, matcher_class(name), cur_t, w['kwargs'], lines)
    spec_out = [spec_outcome(oracle(name, x[1]), since) for x in lines]
    bad = obs['since'] != since or obs['out'] != spec_out or \
        (obs['pass'], obs['fail']) != (spec_out.count(PASS),
                                       spec_out.count(FAIL))
    print(json.dumps({'impl_since': str(obs['since']),
                      'spec_since': str(since), 'impl': obs['out'],
                      'spec': spec_out, 'impl_counters':
                      [obs['pass'], obs['fail']]}, default=str))
    if bad:
        print(f"VIOLATION property={chk.prop} replay={path}")
        return 1
    return 0
