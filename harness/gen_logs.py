"""Generators shared by the whole-run checks (C08, C12, C13, C17): log file
contents, search definitions (recipes for sk_child.py) and the oracle tables
(computed with plain Python `re` / `bytes.decode` / `datetime`, never through
searchkit) that the Coq whole-run model consumes."""
import re
from datetime import datetime, timedelta

TS_RE = re.compile(r'^(\d{4})-(\d{2})-(\d{2}) (\d{2}):(\d{2}):(\d{2})')
TS_FMT = '%Y-%m-%d %H:%M:%S'
WORDS = ['alpha', 'beta', 'gamma', 'start', 'body', 'end', 'x', 'err']

# pool of simple definitions: (patterns, hint)
SIMPLE_POOL = [
    ([r'.+ alpha (\d+)'], None),
    ([r'^\S+ \S+ (\w+) (\d+)?'], None),
    ([r'.*beta'], 'beta'),
    ([r'^(\w+) (\d+)$', r'.+ (gamma) (\d+)'], None),
    ([r'.+ err (\d+)'], 'err'),
    ([r'^\d{4}-\d{2}-\d{2} (\d{2}):(\d{2})'], None),
    ([r'(?:\S+ \S+ )?(x)(y)?'], None),
    ([r'^$'], None),
]
SEQ_POOL = [
    # (start, body, end)
    (r'^(?:\S+ \S+ )?start (\d+)', r'^(?:\S+ \S+ )?body (\w+)',
     r'^(?:\S+ \S+ )?end (\d+)'),
    (r'^(?:\S+ \S+ )?start (\d+)', None, r'^(?:\S+ \S+ )?end (\d+)'),
    (r'^(?:\S+ \S+ )?start (\d+)', r'^(?:\S+ \S+ )?body (\w+)', None),
    (r'^(?:\S+ \S+ )?start (\d+)', r'^(?:\S+ \S+ )?body (\w+)',
     r'^(?:\S+ \S+ )?(?:end (\d+))?$'),        # end matches ''
]


def gen_log(rng, nlines, t0=None, ordered=True, undated_p=0.25,
            final_newline=True, long_p=0.03):
    """ a time-ordered log as bytes + the list of line byte strings """
    t = t0 or datetime(2022, 1, 9, 0, 0, 0)
    lines = []
    for _ in range(nlines):
        body = ' '.join(
            [rng.choice(WORDS)] +
            ([str(rng.randrange(0, 30))] if rng.random() < 0.7 else []) +
            ([rng.choice(WORDS)] if rng.random() < 0.3 else []))
        if rng.random() < long_p:
            body += ' ' + 'z' * rng.choice([200, 255, 256, 257, 300, 600])
        r = rng.random()
        if r < undated_p:
            if rng.random() < 0.2:
                line = ''
            elif rng.random() < 0.2:
                line = 'x' + t.strftime(TS_FMT) + ' ' + body
            else:
                line = body
        else:
            if ordered:
                if rng.random() < 0.6:
                    t = t + timedelta(seconds=rng.choice([0, 1, 59, 3600,
                                                          86399, 86400]))
            else:
                t = t + timedelta(seconds=rng.randrange(-90000, 90000))
            line = t.strftime(TS_FMT) + ' ' + body
        lines.append(line.encode())
    data = b'\n'.join(lines)
    if lines and final_newline:
        data += b'\n'
    return data


def split_lines(data):
    """ lines as a binary file iterator yields them """
    out = data.split(b'\n')
    res = [x + b'\n' for x in out[:-1]]
    if out[-1]:
        res.append(out[-1])
    return res


TS_RE_WIDE = re.compile(r'^(\d+)-(\d+)-(\d+) (\d+):(\d+):(\d+)')


def line_ts(text, wide=False):
    """ seconds since 0001-01-01 of the timestamp at the start of a decoded
    line, None if there is none or it is not a real date """
    m = (TS_RE_WIDE if wide else TS_RE).match(text)
    if not m:
        return None
    try:
        d = datetime(*[int(x) for x in m.groups()])
    except (ValueError, OverflowError):
        return None
    return secs(d)


def secs(d):
    return (d.toordinal() * 86400 + d.hour * 3600 + d.minute * 60 + d.second)


def since_secs(c):
    """ boundary of a constraint recipe, by plain datetime arithmetic """
    cur = datetime.strptime(c['current'], TS_FMT)
    if c.get('use_defaults'):
        days, hours = 0, 24
    else:
        days, hours = c.get('days', 0), c.get('hours', 24)
    if days:
        hours = 0
    return secs(cur - timedelta(days=days, hours=hours or 0))


def decode(line, policy):
    """ (valid under strict utf-8, text under the policy or None) """
    try:
        return True, line.decode('utf-8')
    except UnicodeDecodeError:
        if policy:
            return False, line.decode('utf-8', errors=policy)
        return False, None


def first_in_window(data, since, wide=False):
    """ reference for the position a file-level constraint leaves the file
    at (C04's spec): first byte of the first line with date >= since; len
    if dates exist but none qualifies; 0 if no line is dated """
    off = 0
    any_date = False
    for ln in split_lines(data):
        txt = ln[:64].decode('utf-8', errors='backslashreplace')
        ts = line_ts(txt, wide)
        if ts is not None:
            any_date = True
            if ts >= since:
                return off
        off += len(ln)
    return len(data) if any_date else 0
